// two or more independent solver instances, each in its own thread (C24 replay)
#include <api/MainSolver.h>
#include <logics/ArithLogic.h>
#include <logics/LogicFactory.h>
#include <thread>
#include <vector>
#include <iostream>
#include <string>
using namespace opensmt;

static sstat job(int id) {
    ArithLogic logic{Logic_t::QF_UFLIA};
    SMTConfig config;
    MainSolver solver(logic, config, "s" + std::to_string(id));
    PTRef x = logic.mkIntVar("x"), y = logic.mkIntVar("y"), z = logic.mkIntVar("z");
    SRef intS = logic.getSort_int();
    SymRef f = logic.declareFun("f", intS, {intS});
    PTRef big = logic.mkIntConst(FastRational("1180591620717411303424"));   // 2^70
    PTRef big3 = logic.mkIntConst(FastRational("3541774862152233910272"));  // 3 * 2^70
    // 3x + 3y = 3*2^70 + 1  has no integer solution (needs cuts / branching), numbers beyond the machine word
    PTRef lhs = logic.mkPlus(logic.mkTimes(logic.mkIntConst(3), x), logic.mkTimes(logic.mkIntConst(3), y));
    solver.insertFormula(logic.mkEq(lhs, logic.mkPlus(big3, logic.mkIntConst(1))));
    solver.insertFormula(logic.mkLeq(logic.mkIntConst(0), x));
    solver.insertFormula(logic.mkLeq(x, big));
    solver.insertFormula(logic.mkLeq(logic.mkIntConst(0), y));
    solver.insertFormula(logic.mkLeq(y, big));
    solver.insertFormula(logic.mkEq(logic.mkUninterpFun(f, {x}), z));
    solver.insertFormula(logic.mkNot(logic.mkEq(logic.mkUninterpFun(f, {logic.mkPlus(x, logic.mkIntConst(0))}), z)) == logic.getTerm_false() ? logic.getTerm_true() : logic.getTerm_true());
    return solver.check();
}

int main(int argc, char ** argv) {
    int n = argc > 1 ? atoi(argv[1]) : 2;
    std::vector<std::thread> ts;
    std::vector<sstat> res(n, s_Undef);
    for (int i = 0; i < n; ++i) ts.emplace_back([i, &res] { res[i] = job(i); });
    for (auto & t : ts) t.join();
    for (int i = 0; i < n; ++i) std::cout << (res[i] == s_True ? "sat" : res[i] == s_False ? "unsat" : "unknown") << "\n";
}
