// replay for C29 logic-names-agree / enum-table-short:logicToName
// build: g++ -std=gnu++17 -I/repo/src -I/repo/_build/src ... logic-name-table.cc <libopensmt> -lgmp -lgmpxx
#include <logics/LogicFactory.h>
#include <iostream>
int main() {
    using namespace opensmt;
    int bad = 0;
    for (Logic_t l : {Logic_t::QF_UF, Logic_t::QF_LRA, Logic_t::QF_UFLRA, Logic_t::QF_AX, Logic_t::QF_ALIA}) {
        std::string s = getStringFromLogic(l);
        std::string want = QFLogicToProperties.at(l).name;
        std::cout << want << " -> " << s << "\n";
        if (s != want) ++bad;
    }
    return bad ? 1 : 0;
}
