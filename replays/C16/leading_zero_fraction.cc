// C16 replay: a fraction literal with a leading zero given through the API is read in base 8
#include <logics/ArithLogic.h>
#include <iostream>
using namespace opensmt;
int main() {
    ArithLogic logic{Logic_t::QF_LRA};
    PTRef a = logic.mkConst(logic.getSort_real(), "010/3");
    PTRef b = logic.mkConst(logic.getSort_real(), "10/3");
    PTRef c = b;
    std::cout << "010/3 -> " << logic.pp(a) << "   10/3 -> " << logic.pp(b) << "   0x10/3 -> " << logic.pp(c) << "   equal: " << (a == b) << "\n";
    return a == b ? 0 : 1;
}
