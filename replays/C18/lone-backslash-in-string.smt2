(set-logic QF_UF)
(echo "a\b")
(check-sat)
