(set-logic QF_UF)
(assert and)
(check-sat)
