(set-logic QF_UF)
(check-sat)
"open string