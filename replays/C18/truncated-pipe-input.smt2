(set-logic QF_UF)
(declare-fun a () Bool)
(assert (and a