(set-logic QF_UF)
(check-sat)
garbage here