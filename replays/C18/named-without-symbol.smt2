(set-logic QF_UF)
(declare-fun a () Bool)
(assert (! a :named))
(check-sat)
