(set-logic QF_LRA)
(declare-fun x () Real)
(assert (= x "1/0"))
(check-sat)
