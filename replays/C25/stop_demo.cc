// C25 replay: stop request from another thread while check() runs
#include <api/MainSolver.h>
#include <api/GlobalStop.h>
#include <logics/ArithLogic.h>
#include <thread>
#include <chrono>
#include <iostream>
using namespace opensmt;
int main(int argc, char ** argv) {
    bool global = argc > 1;
    ArithLogic logic{Logic_t::QF_LIA};
    SMTConfig config;
    MainSolver solver(logic, config, "s");
    // pigeonhole-like hard integer problem: 9 pigeons in 8 holes
    int P = 9, H = 8;
    std::vector<std::vector<PTRef>> x(P);
    for (int p = 0; p < P; ++p) for (int h = 0; h < H; ++h) {
        PTRef v = logic.mkIntVar(("x" + std::to_string(p) + "_" + std::to_string(h)).c_str());
        x[p].push_back(v);
        solver.insertFormula(logic.mkLeq(logic.mkIntConst(0), v));
        solver.insertFormula(logic.mkLeq(v, logic.mkIntConst(1)));
    }
    for (int p = 0; p < P; ++p) { vec<PTRef> s; for (auto v : x[p]) s.push(v); solver.insertFormula(logic.mkGeq(logic.mkPlus(s), logic.mkIntConst(1))); }
    for (int h = 0; h < H; ++h) for (int p = 0; p < P; ++p) for (int q = p + 1; q < P; ++q)
        solver.insertFormula(logic.mkOr(logic.mkEq(x[p][h], logic.mkIntConst(0)), logic.mkEq(x[q][h], logic.mkIntConst(0))));
    sstat r = s_Undef;
    std::thread t([&] { r = solver.check(); });
    std::this_thread::sleep_for(std::chrono::milliseconds(300));
    if (global) notifyGlobalStop(); else solver.notifyStop();
    auto t0 = std::chrono::steady_clock::now(); t.join(); std::cerr << "joined after " << std::chrono::duration<double>(std::chrono::steady_clock::now() - t0).count() << "s\n";
    std::cout << (r == s_Error ? "error" : r == s_True ? "sat" : r == s_False ? "unsat" : "unknown") << "\n";
}
