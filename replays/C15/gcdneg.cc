#include <common/numbers/FastRational.h>
#include <iostream>
using namespace opensmt;
int main() {
    FastRational a(-6), b(4), c(INT_MIN), d(-1);
    std::cout << "gcd(-6,4)=" << gcd(a,b).get_str() << " lcm(-6,4)=" << lcm(a,b).get_str() << " gcd(6,-4)=" << gcd(FastRational(6),FastRational(-4)).get_str() << " lcm(6,-4)=" << lcm(FastRational(6),FastRational(-4)).get_str() << "\n";
    std::cout << "gcd(INT_MIN,-1)=" << std::flush << gcd(c,d).get_str() << "\n";
}
