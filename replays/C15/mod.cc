#include <common/numbers/FastRational.h>
#include <iostream>
using namespace opensmt;
int main() {
    FastRational a(INT_MIN), b(-1);
    std::cout << "INT_MIN % -1 = " << std::flush << (a % b).get_str() << "\n";
}
