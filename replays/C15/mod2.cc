#include <common/numbers/FastRational.h>
#include <iostream>
using namespace opensmt;
int main() {
    FastRational a(-7), b(3), A("-70000000000000000000"), B("30000000000000000000");
    std::cout << "-7 % 3 = " << (a % b).get_str() << "   (-7e19) % (3e19) = " << (A % B).get_str() << "\n";
    FastRational c(7), d(-3), C("70000000000000000000"), D("-30000000000000000000");
    std::cout << "7 % -3 = " << (c % d).get_str() << "   (7e19) % (-3e19) = " << (C % D).get_str() << "\n";
}
