#include <common/numbers/FastRational.h>
#include <iostream>
using namespace opensmt;
int main() {
    FastRational n(INT_MIN), d(-1);
    FastRational q = divexact(n, d);
    std::cout << q.get_str() << "\n";
    return q == FastRational("2147483648") ? 0 : 1;
}
