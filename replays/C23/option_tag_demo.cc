// C23 replay: an option value of the wrong kind is accepted and its pointer bits are read as a number
#include <options/SMTConfig.h>
#include <iostream>
using namespace opensmt;
int main() {
    SMTConfig config;
    const char * msg = nullptr;
    bool ok = config.setOption(SMTConfig::o_restart_first, SMTOption("abc"), msg);   // what `(set-option :restart-first abc)` does
    std::cout << "accepted=" << ok << " restart_first=" << config.sat_restart_first() << "\n";
}
