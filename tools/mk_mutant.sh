#!/bin/bash
# mk_mutant.sh <pid> <name> <expect> : turn the current uncommitted diff of /repo into a mutant patch and revert it
set -e
out=/verif/mutants/$1/$2.patch
mkdir -p /verif/mutants/$1
{ echo "# expect: $3"; git -C /repo diff -- src; } > $out
git -C /repo checkout -- src
echo "wrote $out ($(grep -c '^[-+][^-+]' $out) changed lines)"
