#!/usr/bin/env python3
"""setup_cmd: build the extractor and warm the facts cache from /repo's current tree (offline, files on disk only)."""
import os, sys
VERIF = os.path.dirname(os.path.dirname(os.path.abspath(__file__)))
sys.path.insert(0, os.path.join(VERIF, 'sa'))
import build
build.ensure_extractor()
from facts import Facts
fx = Facts('/repo/src')
print('setup ok: units=%d functions=%d records=%d' % (fx.stats['units'], len(fx.F), len(fx.R)))
