#!/usr/bin/env python3
"""try_all.py <patch> [check ...] : run every (or the given) rule module on one scratch copy of /repo/src with <patch> applied.
Prints one line per check: ok / FINDINGS keys / BROKEN reason.  Used to measure false alarms on behaviour-preserving refactorings."""
import glob, importlib, json, os, shutil, subprocess, sys, tempfile
VERIF = os.path.dirname(os.path.dirname(os.path.abspath(__file__)))
sys.path.insert(0, os.path.join(VERIF, 'sa')); sys.path.insert(0, os.path.join(VERIF, 'sa', 'rules'))
import selftest, build
import core
patch = os.path.abspath(sys.argv[1])
checks = sys.argv[2:] or [c['property_id'] for c in json.load(open(os.path.join(VERIF, 'MANIFEST.json')))['checks']]
known = {(k['property'], k['key']) for k in core.load_known().get('findings', [])}
tmp = tempfile.mkdtemp(prefix='osmt-try-')
bad = 0
try:
    shutil.copytree('/repo/src', os.path.join(tmp, 'src'))
    r = subprocess.run(['patch', '-p1', '--no-backup-if-mismatch', '-s', '-f', '-i', patch], cwd=tmp, capture_output=True, text=True)
    if r.returncode:
        print('PATCH-FAILED', r.stdout[-300:], r.stderr[-300:]); sys.exit(3)
    json.dump({'base': '/repo/src', 'changed': selftest.changed_files(patch)}, open(os.path.join(tmp, '.overlay.json'), 'w'))
    for pid in checks:
        mod = importlib.import_module(pid)
        try:
            devnull = open(os.devnull, 'w'); old = sys.stderr; sys.stderr = devnull
            try:
                res = mod.run(os.path.join(tmp, 'src'), 'quick', 0)
                res.check_floors()
            finally:
                sys.stderr = old
            new = [f for f in res.findings if (pid, f.key) not in known]
            if new:
                bad += 1
                print('%s FINDINGS %s' % (pid, [f.key for f in new][:4]))
                for f in new[:3]:
                    print('      %s: %s' % (f.where, f.msg[:220]))
            else:
                print('%s ok' % pid)
        except build.AnalysisBroken as e:
            bad += 1
            print('%s BROKEN %s' % (pid, str(e)[:300]))
        except Exception as e:
            bad += 1
            print('%s CRASH %s: %s' % (pid, type(e).__name__, str(e)[:300]))
finally:
    shutil.rmtree(tmp, ignore_errors=True)
    root = os.path.abspath(os.path.join(tmp, 'src'))
    shutil.rmtree(os.path.join(build.CACHE, 'facts-' + build.sha(root.encode())), ignore_errors=True)
    for g in glob.glob(os.path.join(build.CACHE, 'gen-*')):
        if os.path.exists(os.path.join(g, '.root')) and open(os.path.join(g, '.root')).read() == root:
            shutil.rmtree(g, ignore_errors=True)
print('SUMMARY alarms=%d of %d checks' % (bad, len(checks)))
