#!/usr/bin/env python3
"""Regenerate the machine-derived tables of DESIGN.md (between the AUTOGEN markers) from evidence/, mutants/ and seeded/."""
import glob, json, os, re
V = os.path.dirname(os.path.dirname(os.path.abspath(__file__)))


def rules_table():
    out = ['| check | rule | instances on the tree | floor |', '|---|---|---|---|']
    for p in sorted(glob.glob(os.path.join(V, 'evidence', 'C*.json'))):
        d = json.load(open(p))
        for r in d['coverage']['rules']:
            out.append('| %s | %s | %d | %d |' % (d['property_id'], r['rule'], r['instances'], r['floor']))
    return '\n'.join(out)


def seeds_table():
    out = ['| seeded change (independent author) | property | what it needs to manifest | caught by | by a rule that existed before the seed arrived |', '|---|---|---|---|---|']
    for mp in sorted(glob.glob(os.path.join(V, 'seeded', '*', 'meta.json'))):
        m = json.load(open(mp))
        det = m.get('detected_by')
        if det:
            c = '; '.join('`%s` %s' % (x['check'], x['key']) for x in det)
        else:
            c = '**not caught** — ' + (m.get('missed_because') or 'no structural clause covers it')
        needs = (m.get('needs') or '').replace('|', '/')
        out.append('| %s: %s | %s | %s | %s | %s |' % (os.path.basename(os.path.dirname(mp)), (m.get('title') or '').replace('|', '/'), m.get('property'), needs[:260], c, 'yes' if m.get('first_shot') else 'no'))
    return '\n'.join(out)


def mutants_table():
    out = ['| check | mutant patch | expected finding key |', '|---|---|---|']
    for p in sorted(glob.glob(os.path.join(V, 'mutants', '*', '*.patch'))):
        exp = ''
        for l in open(p):
            m = re.match(r'#\s*expect:\s*(.+)', l)
            if m:
                exp = m.group(1).strip()
                break
        out.append('| %s | %s | %s |' % (os.path.basename(os.path.dirname(p)), os.path.basename(p)[:-6], exp))
    return '\n'.join(out)


def main():
    p = os.path.join(V, 'DESIGN.md')
    s = open(p).read()
    for name, fn in (('RULES', rules_table), ('SEEDS', seeds_table), ('MUTANTS', mutants_table)):
        a, b = '<!-- AUTOGEN:%s:BEGIN -->' % name, '<!-- AUTOGEN:%s:END -->' % name
        if a in s and b in s:
            s = s[:s.index(a) + len(a)] + '\n' + fn() + '\n' + s[s.index(b):]
    open(p, 'w').write(s)


if __name__ == '__main__':
    main()
