#!/bin/bash
# sanity net for fix: commits (not a registered check): run every regression script that has an expected stdout and compare
bin=${1:-/repo/_build/opensmt}; cd /repo/test/regression; fail=0; n=0
for exp in $(find base interpolation unsatcores -name "*.expected.out"); do
  f=${exp%.expected.out}; [ -f "$f" ] || continue; n=$((n+1))
  out=$(timeout 60 $bin $f 2>/dev/null)
  if [ "$out" != "$(cat $exp)" ]; then echo "DIFF $f"; fail=$((fail+1)); fi
done
echo "regression: $n scripts, $fail differ"
