#!/bin/bash
# keep_seed.sh <dir-name under seeded/> <out-dir of the agent>  : copy deliverables (meta.json is written by hand afterwards)
set -e
d=/verif/seeded/$1; mkdir -p $d
cp -r $2/* $d/
ls $d
