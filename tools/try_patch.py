#!/usr/bin/env python3
"""try_patch.py <pid> <patch> : run rule module <pid> on a scratch copy of /repo/src with <patch> applied; print finding keys."""
import importlib, json, os, shutil, subprocess, sys, tempfile
VERIF = os.path.dirname(os.path.dirname(os.path.abspath(__file__)))
sys.path.insert(0, os.path.join(VERIF, 'sa')); sys.path.insert(0, os.path.join(VERIF, 'sa', 'rules'))
import selftest, build, glob
pid, patch = sys.argv[1], os.path.abspath(sys.argv[2])
mod = importlib.import_module(pid)
tmp = tempfile.mkdtemp(prefix='osmt-try-')
try:
    shutil.copytree('/repo/src', os.path.join(tmp, 'src'))
    r = subprocess.run(['patch', '-p1', '--no-backup-if-mismatch', '-s', '-f', '-i', patch], cwd=tmp, capture_output=True, text=True)
    if r.returncode:
        print('patch failed', r.stdout, r.stderr); sys.exit(3)
    json.dump({'base': '/repo/src', 'changed': selftest.changed_files(patch)}, open(os.path.join(tmp, '.overlay.json'), 'w'))
    try:
        res = mod.run(os.path.join(tmp, 'src'), 'quick', 0)
        for f in res.findings:
            print('FINDING', f.key, '|', f.where, '|', f.msg[:300])
        try:
            res.check_floors()
        except Exception as e:
            print('BROKEN', e)
        if not res.findings:
            print('no findings')
    except build.AnalysisBroken as e:
        print('BROKEN', e)
finally:
    shutil.rmtree(tmp, ignore_errors=True)
    root = os.path.abspath(os.path.join(tmp, 'src'))
    shutil.rmtree(os.path.join(build.CACHE, 'facts-' + build.sha(root.encode())), ignore_errors=True)
    for g in glob.glob(os.path.join(build.CACHE, 'gen-*')):
        if os.path.exists(os.path.join(g, '.root')) and open(os.path.join(g, '.root')).read() == root:
            shutil.rmtree(g, ignore_errors=True)
