#!/usr/bin/env python3
"""Generate /verif/MANIFEST.json from the per-property table below (single source of truth)."""
import json
import os

VERIF = os.path.dirname(os.path.dirname(os.path.abspath(__file__)))

TRUST = ('Trusted: clang 14 front end and the LibTooling extractor; class-hierarchy over-approximation of virtual calls; '
         'frozen instance tables (names, never lines) confirmed by reading; default build configuration analysed with -UNDEBUG.')

# id -> (category, level text, technique, extra note)
CLAIMED = {
    'C18': ('other',
            'Static, all-paths: whole-program exception-escape analysis (no exception type escapes main / Interpret::interp), '
            'discarded-result, single status writer, literal-format and exit-caller rules over the type-checked AST of all built units; front-end crash clauses: local vectors '
            'read with a literal index / front / back are provably long enough on every path (size lower bounds, assert not counted), options that decide what is allocated or '
            'which class is built at solver construction are frozen afterwards, pipe mode reports input ending inside a command, parser text is tested for null before it is echoed; '
            'printf-style calls match their arguments; AST shape: from the bison grammar (read on every run) the node types that can come without children and the child types of '
            'every node type, and in the interpreter every dereference of the children of a node that can be such a type sits under a test of the pointer; the arity gate '
            '(PtStore::lookupSymbol) indexes its argument list only under a size test; the signature check of defined functions throws exactly on a count or sort mismatch (abstract evaluation); '
            'every exclusive start condition of the flex specification covers every character and end of input; a term that does not parse is reported by every caller of parseTerm; '
            'sort arity is compared before a sort is built; pipe mode reports text left outside any command at end of input. '
            'Decides these structural clauses of the property, not memory safety in general or promptness.',
            'static analysis: interprocedural exception-escape fixpoint + AST call-site rules + path-sensitive size-lower-bound walk + grammar-derived AST-shape typing + abstract evaluation (LibTooling facts)',
            'library throw table; allocation failure excluded'),
    'C04': ('other',
            'Static, all-paths: scope push/pop pairing of every stacked member (MainSolver, Preprocessor), lockstep typestate between the '
            'interpreter scopes and solver pushes/pops, frontier/ok restoration on pop, unsat-mark propagation, frame-keyed CNF caches, '
            'conflict-frame set by every engine and equal, by abstract evaluation of each engine\'s own loop, to one more than the largest assumption order among the positive literals of the '
            'final conflict, per-check reset calls, stale-guard ordering, reactivation of a switched-off variable when it reappears. Decides these necessary structural clauses; '
            'that learnt facts are logically confined to frames is value-dependent and not decided.',
            'static analysis: path-sensitive MUST-CALL / typestate walk over the structured mini-AST (LibTooling facts)', ''),
    'C21': ('other',
            'Static: container-protocol rules on the scoped registries (every created key can be erased when readers test presence), insertion '
            'registers all maps and the scope log on every successful path and writes an undo entry only for a change that was made (the recording method is found by what it '
            'does, not by name), push/popScope guarded by the same global-declarations predicate, '
            'scope logs paired with the assertion stack (the scope stack moves on every push and pop unless the deciding option is frozen), single writer of the maps. Decides these clauses, not which container each printer reads.',
            'static analysis: container-protocol and pairing rules over class facts + path-sensitive MUST-CALL walk', ''),
    'C19': ('other',
            'Static, all-paths typestate "commit after validate" over all 22 command arms of the interpreter, interprocedural through the front-end '
            'layer with typed exceptional edges: no error response after persistent state was mutated; MainSolver mutators validate before they '
            'write. Decides this structural clause (a necessary condition), not that outputs are semantically equal.',
            'static analysis: interprocedural typestate over the structured mini-AST with exception edges from a whole-program escape fixpoint', ''),
    'C20': ('model_checking',
            'Exhaustive product-automaton equivalence of the two scanners that decide command framing: the pipe reader loop (abstractly '
            'interpreted from the type-checked AST for every flag valuation) and the flex lexer (rules parsed from the .ll source), over all 256 '
            'byte values in every reachable product state. Full at this abstraction for syntactically valid scripts; execution of framed commands '
            'is shared code and not compared.',
            'static analysis: scanner-automaton extraction from source + exhaustive product-state enumeration (no code is run)',
            'flex longest-match/default-rule semantics as documented; framing state checked to be declared at function scope (chunk independence)'),
    'C10': ('other',
            'Static, all-paths typestate of the proof-chain protocol (beginChain / addResolutionStep / endChain) through every function of the four SAT-engine '
            'classes with interprocedural summaries under "proof logging on" (release builds have no runtime check: the asserts are compiled out); every clause '
            'allocated in the engines reaches a proof registration on every logging path; premise reference counting agrees between the chain-building methods; '
            'a finished derivation cannot be silently dropped for an existing key; clause kinds classified exhaustively; a stored clause loses literals only under use_simplification, '
            'which is switched off when proofs are logged. Decides these clauses (necessary for '
            'closed, current proofs), not that each step is a correct resolution.',
            'static analysis: interprocedural typestate + MUST-CALL walk over the structured mini-AST (LibTooling facts)', ''),
    'C28': ('other',
            'Static: who-may-allocate (only the term factory reaches PtermAllocator::alloc / PtStore::newTerm), every allocation in the miss branch of a lookup in '
            'and followed by an insert into the same hash-consing table under the same key, argument sorting before key construction for order-insensitive '
            'constructors, monotone id append, sign normalisation of arithmetic equalities applied to the normalised polynomial. Decides these necessary clauses; '
            'not that every simplifying constructor normalises argument order.',
            'static analysis: who-may-call + structural lookup/insert pairing rules over the type-checked AST (LibTooling facts)', ''),
    'C24': ('other',
            'Static, whole library: every writable variable with static storage duration (namespace scope, static member, function-local static, template '
            'instantiations) that has a mutating use outside its initialiser must be thread_local, std::atomic, a synchronisation object, mutated only under a '
            'scoped lock (or through methods that lock a mutex member first), or written only during static initialisation; no call into libc functions with hidden '
            'process-wide state. Independent instances can interfere only through such state, so this is a necessary condition; races on instance state and '
            'equality of results are not decided.',
            'static analysis: storage-class/type rule + mutating-use dataflow over the type-checked AST of all library units, lock-scope typestate, callee summaries',
            'mutating-use classification (assignment, ++/--, non-const call, non-const reference/pointer binding or passing, accessor functions followed)'),
    'C25': ('other',
            'Static: (1) type/effect rule - every location written by notifyStop/notifyGlobalStop/resetGlobalStop is std::atomic, nothing else is written, the polling '
            'predicates read exactly those locations; (2) all-paths rule - in every engine function that polls the stop predicates, a path that has observed the stop '
            'leaves without fabricating a verdict (returns l_Undef / "no conflict", or a variable not assigned after the stop), with summaries for polling callees; '
            '(3) the undetermined value is carried unchanged to sstat/check/checkSat. Necessary conditions of the property; races with destruction and promptness not decided.',
            'static analysis: type/effect rule + path-sensitive RETURN-ON-PREDICATE walk over the structured mini-AST', 'stop flags sticky during a check'),
    'C06': ('other',
            'Static: the chain proof-leaf -> partition mask -> assertion -> name is checked link by link: every original clause added by MainSolver gets its mask on '
            'every tracked path; the core builder collects CLA_ORIG and expands every chain-carrying clause kind; stores into the formula->partition-index maps '
            'overwrite (latest insertion wins) and must be rolled back on pop; every rewrite in the per-partition preprocessing branch transfers the index before '
            'the clauses are tagged; named/hidden splitting uses the scoped TermNames registry and the current assertion view; pop invalidates popped partitions. '
            'Necessary structural clauses; unsatisfiability of the reported set is not decided. One known finding (index of a duplicated assertion after pop).',
            'static analysis: MUST-CALL path walk, container-protocol and exhaustiveness rules over the type-checked AST (LibTooling facts)', ''),
    'C22': ('other',
            'Static, all-paths protocol rules over the built theory solvers (Egraph, LASolver, STPSolver<T>, ArraySolver) and the handlers: exact push/pop counts of '
            'backtrack points through every override and the base class, agreement of the skip filters of THandler::assertLits and ::backtrack, push before the '
            'isInformed filter, every e-graph undo-record kind has an undo action, bound activation counted on exactly the paths whose decision is later un-counted, '
            'setPolarity/clearPolarity pairing per class, clearSolver coverage against the reference tree, getReasonFor bracket. Necessary conditions for '
            '"retracted literals leave no trace"; that each undo action restores the right content is not decided.',
            'static analysis: path-sensitive call-count / MUST-CALL walk, guard-set comparison and exhaustiveness rules over the structured mini-AST', ''),
    'C26': ('other',
            'Static: Simplex::getConflictingBounds is interpreted abstractly for the four cases (coefficient sign x conflict direction), enumerating every path of the '
            'loop body: exactly one bound of every row variable is cited, of the kind cancellation requires, with a coefficient of abstract sign positive; the violated '
            'bound of the basic variable comes first with weight 1; the two-literal conflicts of assertBound have positive literal weights and opposite kinds; '
            'storeExplanation stores bound and coefficient unchanged and is the single writer of the vector both interpolators read. Necessary shape of every row '
            'certificate; the numeric cancellation (tableau values) is not decided. The weight of a row variable is the row coefficient itself or its negation (the basic variable enters with the literal 1).',
            'static analysis: special-purpose abstract interpretation (sign domain, case split on the two guards) over the structured mini-AST + dataflow/who-writes rules', ''),
    'C29': ('other',
            'Static assert-only / rejecting-gate rules (assert is compiled out of the release binary): the difference-logic atom intake tests every shape requirement on '
            'a throwing non-assert branch and records the atom only after acceptance; the upstream isValid gates exist; constants are converted exactly with a rejecting '
            'range test; the arithmetic constructors reject non-linear products and bad divisors by throwing; the logic tables and createTheory cover every Logic_t '
            'enumerator; the logic-name reader, the property records and every table subscripted with a Logic_t value name the same logic per enumerator (sibling-table agreement); polymorphic constructors check operand sorts. Decides that the gates exist and reject, not that accepted input is answered correctly.',
            'static analysis: ASSERT-ONLY / rejecting-branch rule, exhaustiveness and table-agreement rules over the type-checked AST (assert expansions tagged, -UNDEBUG)', ''),
    'C23': ('other',
            'Static absence-of-source rules over all built units: no scalar member read while never written anywhere in the program (whole-program write set), no iteration over '
            'pointer-keyed containers (typedefs expanded), no pointer-to-integer conversion or pointer printing, clock/memory/pid values reach control flow only in the '
            'listed explicit time-budget functions (interprocedural taint), libc randomness only after a constant/configured seed and per-instance PRNG seeds, pipe framing '
            'independent of read() chunking (shared with C20); every printf-style call (libc family and the two home-made format walkers of the interpreter, whose conversion '
            'table is read from their own va_arg switch) passes one argument of the matching promoted type per conversion, so no pointer bits or indeterminate bytes reach the '
            'output; thorough tier adds clang\'s definite-uninitialised-use dataflow over every unit. Necessary conditions of '
            'reproducibility; other undefined behaviour is not decided.',
            'static analysis: whole-program def/use of members, type-based container rule, interprocedural taint from clock sources to branch conditions, seed provenance rule', ''),
    'C01': ('other',
            'Static: the clause templates of every Tseitin gate encoder are extracted from the source by a special-purpose interpreter and every emitted clause is proved, by '
            'exhaustive truth table over the template (arities 1..4 for n-ary gates), to be a consequence of the gate definition; dispatch pairs each connective with its own '
            'encoder and pushes all children; top-level emitters and literal signs are exact; let bindings are parsed before any is inserted; SatELite elimination never '
            'touches a frozen variable (code no baseline test executes). Necessary conditions only: conflict analysis, theory explanations, preprocessing and the theory '
            'solvers are value-dependent and not decided. The arithmetic preprocessing\'s conflict test relies on polynomials keeping no zero term: only PolynomialT\'s own methods write a coefficient.',
            'static analysis: clause-template extraction by abstract interpretation of the encoders + exhaustive propositional check of the template; guard/dominance rules', ''),
    'C02': ('other',
            'Static: the extracted clause templates are complete (they imply the gate definition); every model-found exit of the CDCL loop, the lookahead loop and the '
            'propagate wrapper is preceded on every path by a complete theory check of the final assignment (path-sensitive walk, trail-changing calls clear the fact); '
            'checkTheory answers Decide for a complete call only after asking the theory; `complete` is forwarded unchanged; LA runs its integrality check on the complete '
            'path; no check can answer UNKNOWN; difference-logic constants are converted exactly. Completeness of the theory solvers themselves is not decided.',
            'static analysis: clause-template extraction + truth table; path-sensitive MUST-PRECEDE walk over the structured mini-AST; forwarding/dataflow rules', ''),
    'C03': ('other',
            'Static: model extension to eliminated variables on every sat path of the simplifying solver and single-writer of the reconstruction stack; frozen-variable '
            'guards; every engine copies the final assignment into the persistent model vector and the Boolean model is read only from it; the theory model is computed '
            'before clearSearch() under the same predicate that guards get-model and is forwarded to every scheduled solver; get-model additionally requires the record that the '
            'model was computed by the check that produced the state (the option can be switched on afterwards); model queries throw outside the sat state. '
            'Whether the computed values are right is not decided.',
            'static analysis: ordering (MUST-PRECEDE), who-writes/who-reads and guard rules over the type-checked AST', ''),
    'C16': ('other',
            'Static, narrow: every GMP string conversion of a numeric literal uses base 10 explicitly (literal, or a base parameter all of whose call sites pass 10); '
            'ArithLogic::mkConst builds a number only from text validated by isIntString (rejecting branch) or produced by stringToRational, which throws on malformed text; '
            'every pass of the literal scanner starts from constant scanner state and counters; numbers are printed through exact GMP conversion; the recogniser isRealString, '
            'evaluated abstractly on every string over {0,5,.,/,-} up to length 5 (6 in the thorough tier), accepts exactly the decimal / fraction literals with a non-zero denominator and '
            'the real branch of mkConst converts only behind it. The digit-counting '
            'arithmetic inside the scanner passes and the printed values themselves are value-level and not decided.',
            'static analysis: forbidden-argument rule with call-site resolution, validation-dominance rule, pass-initialisation (reaching-constant) rule on the scanner', ''),
    'C17': ('other',
            'Static, the quoting clauses only: (1) Logic::protectName quotes every uninterpreted name for which one of the three SMT-LIB conditions holds (characters outside the '
            'simple-symbol alphabet, leading digit, reserved word) - truth table over its predicate calls - and the alphabet it accepts unquoted is a subset of the standard\'s; '
            '(2) whole-program string provenance: text read from a raw-name source (symbol names, sort-symbol names, assertion names) reaches std::cout, a file stream or the '
            'non-error response printer - directly, through returned strings or through caller-supplied streams - only through protectName; (3) functions echoing parser text '
            'to std::cout distinguish quoted-symbol tokens; (4) Logic::dumpWithLets prints a node only after every child it names by definition has one. Number/abstract-value formats, the `as` disambiguation and read-back equality itself are value-level and not decided. Numeric constants are printed by splitting FastRational text at \'/\' into (/ n d); the number\'s own printers never reach the term printer.',
            'static analysis: truth-table interpretation of the quoting predicate; interprocedural flow-insensitive string-provenance (taint) analysis with function summaries over the mini-AST; path walk of the let-dump child scan', ''),
    'C07': ('other',
            'Static, protocol clauses of the deletion-based minimisation only (irreducibility itself is a statement about satisfiability of subsets and is not decided): on every '
            'path through one iteration of UnsatCoreBuilder::Minimize::performNaive the trial check runs inside a balanced push/pop bracket in which the candidate is not asserted; '
            'the candidate is dropped only on a path that established the unsat verdict and kept otherwise; a kept candidate is asserted outside the bracket; the candidate loop '
            'covers every candidate and the trial asserts exactly the later candidates; the background is asserted before the first trial and, in named mode, consists of every '
            'current assertion not known to the name registry.',
            'static analysis: path-sensitive typestate walk of one loop iteration (push depth, verdict, keep/drop) + loop-range and selection rules over the mini-AST', ''),
    'C09': ('other',
            'Static, the mask protocol only (that the returned formulas are interpolants and chain by implication is a statement about run-time formulas and is not decided): '
            'Interpret::getInterpolants builds the A-masks of a sequence request cumulatively - one mask variable that lives across the group loop, only gains bits, and is appended '
            'exactly once per accepted group, for groups 1..k-1 in order - and InterpolationContext::getPathInterpolants answers every mask in order with exactly one interpolant; '
            'the front end asks for the path form exactly when there is more than one mask. For the proof-sensitive algorithms (PS, PSW, PSS) additionally: the colour given to a '
            'shared variable, obtained by abstractly evaluating computePSFunction for every cut of a five-leaf proof and composing it with the label -> colour lambdas of '
            'setLeafPS/PSW/PSSLabeling, only moves from b towards a as the cut moves right - the condition under which a family of labelled interpolation systems has the '
            'path-interpolation property. The two partition numberings (position in Interpret::assertions, MainSolver::insertedFormulasCount) are both append-only.',
            'static analysis: path walk of one group-loop iteration (monotone accumulator, append count) + loop-range rules over the mini-AST + abstract evaluation of the PS labelling function over all cuts of a small proof', ''),
    'C14': ('other',
            'Static, the Boolean simplifying constructors only: Logic::mkNot, mkXor, mkImpl, mkIte, mkBinaryEq (Boolean arguments), mkAnd, mkOr touch their arguments only through '
            'identity comparisons and isTrue / isFalse / isNot, so their behaviour is a function of a finite set of argument patterns; every pattern over '
            '{true, false, x, (not x), y, (not y), z, (not z)} (all pairs / triples; lists up to length 3 for and/or under three creation orders) is pushed through the '
            'constructor\'s decision structure by an abstract evaluator over the mini-AST and the returned term shape is compared with the operator by a truth table '
            '(2360 patterns); Logic::mkDistinct is evaluated the same way on arguments of a value sort (two constants, two variables, lists up to length 4). Arithmetic constructors, '
            'equality on other sorts and select/store are value-level and not decided.',
            'static analysis: abstract evaluation of the constructors\' decision structure over a finite domain of argument patterns + truth table (no code is compiled or run)', ''),
    'C13': ('other',
            'Static, one preprocessing step only: the learnt transitivity facts. Logic::learnEqTransitivity looks at its input only through isOr / isAnd / isEquality, argument counts and '
            'identity of eight variable positions; every disjunction of two or three disjuncts whose first two are conjunctions of two or three equalities over four variables (up to '
            'renaming; all 20736 variable placements in the thorough tier) is pushed through the function by an abstract evaluator over the mini-AST, and the returned formula must be '
            'valid in the theory of equality under every equality pattern of the four variables; the only caller conjoins the result to the input. Equality substitution, ITE / div-mod / '
            'distinct elimination, purification and Boolean flattening are value-level rewrites and are not decided.',
            'static analysis: abstract evaluation of the pattern matcher over a finite domain of input patterns + exhaustive validity check over equality patterns (no code is compiled or run)', ''),
    'C08': ('other',
            'Static, the propositional skeleton only (that a returned formula is implied by A, inconsistent with B and over the shared vocabulary depends on the run-time proof, the labelling '
            'functions and the theory interpolators, which are not decided): the combination rules are those of the labelled interpolation system of which all six supported Boolean algorithms '
            'are instances - inner node: I1 or I2 / I1 and I2 / a formula equivalent to (I1 or p) and (I2 or not p) for a pivot labelled a / b / ab, the other parent for an assumed pivot; '
            'leaf: disjunction of the literals labelled with the other class for an A-leaf, conjunction of their negations for a B-leaf - established by abstract evaluation of '
            'compInterpLabelingInner and getInterpolantForOriginalClause over symbolic interpolants and literals plus truth tables; the proof builder puts the positive pivot occurrence first.',
            'static analysis: abstract evaluation of the two combination functions over symbolic inputs (all pivot labels / leaf classes / literal signs) + truth-table equivalence with the rules of the labelled interpolation system', ''),
    'C12': ('other',
            'Static, the clause-level operations of the simplifier only (that every clause learnt in a run follows from the database is a statement about run-time data): '
            'SimpSMTSolver::merge and Clause::subsumes look at literals only through identity, negation and variable equality; for all pairs of clauses with up to two (thorough: three) '
            'literals besides the pivot over three further variables, both signs, every order, an abstract evaluator runs the function (including its goto-based search) on the clause '
            'shapes: merge reports a tautology exactly when the resolvent has a complementary pair and otherwise yields exactly the literals of both clauses without the pivot; '
            'subsumes answers lit_Undef only for a subset, a literal p only if self-subsuming resolution on p is justified, lit_Error otherwise; backwardSubsumptionCheck removes / '
            'strengthens the tested clause with the negated literal. First-UIP learning and minimisation are covered by rules of C01/C05/C10 or not at all.',
            'static analysis: abstract evaluation of the two clause operations over a finite domain of clause shapes compared with their set-theoretic definitions + use-site argument rule', ''),
    'C11': ('other',
            'Static, the polarity conventions on the theory / SAT boundary only (that an explanation is inconsistent in the theory is a statement about run-time solver state; the coefficient '
            'part of LRA explanations is C26): every theory clause passes through THandler, where a conflict explanation becomes the clause of the negated literals, the reason of a '
            'propagated literal is that literal followed by the negated explanation and is requested for the polarity the literal has, a deduction keeps its polarity and a trail literal is '
            'asserted with the polarity it has; getConflict, getReason, getDeduction and assertLits are evaluated by the abstract evaluator on symbolic literals for all polarity combinations '
            'and compared with this convention.',
            'static analysis: abstract evaluation of the four conversion functions over symbolic literals (all polarity combinations) compared with the boundary convention', ''),
    'C30': ('other',
            'Static, one of the three mechanisms the property names: the anti-cycling switch of the simplex (termination of CDCL with restarts and of the lookahead search needs ranking '
            'arguments and is not decided). In Simplex::checkSimplex every iteration of the pivoting loop increments the repeat counter and nothing lowers it; the Bland flag is only ever set '
            'inside the loop, under a comparison of the counter with a loop-invariant bound; with the flag set both the leaving and the entering variable come from the Bland selectors; the '
            'loop is left only by return; both selectors keep the candidate with the smallest variable id. With Bland\'s theorem this makes every simplex call terminate. Two further '
            'necessary conditions found through replayed hangs: decision[] and dec_vars are written only by setDecisionVar (the lookahead engine detects a full assignment by '
            'trail.size() == dec_vars), and the arithmetic substitution step never produces a replacement that can contain another key (abstract evaluation of '
            'polyToPTRefSubstitution), so the transitive closure of the substitution map terminates.',
            'static analysis: path walk of one loop iteration (monotone counter and flag, selectors per flag value) + abstract evaluation of the selectors and of the substitution guard + who-may-write rule on the decision counter', 'Bland\'s theorem is assumed, not proved'),
    'C15': ('other',
            'Static: (1) UB-obligation engine - every compiler-inserted sanitizer obligation (signed overflow, narrowing, sign change, float cast) in FastRational.h/.cc is '
            'either deleted by LLVM -O2 range analysis or listed in a table with a written justification and the guards it relies on (guards must still be present); the IR '
            'is only read; (2) commit-after-check: no operand field is written on a path that can still branch to the GMP fallback; (3) every fallback tail re-canonicalises '
            '(equal values, equal representation); (4) the word paths of gcd/lcm work on absolute values like the GMP paths. (5) every path that writes the word fields of a parameter passes a representation mark before it returns. Absence of unguarded wrap-around and these '
            'protocol clauses, not correctness of the arithmetic.',
            'static analysis: compiler-discharged sanitizer obligations read from LLVM IR + frozen justified residual table; path-sensitive commit-after-check walk', 'clang 14.0.6 -O2 as the discharging analysis'),
    'C27': ('other',
            'Static, narrow: the UB-obligation engine restricted to SafeInt / Converter<SafeInt> and the rounding helpers of FastRational (fastrat_fdiv_q, divexact, '
            'operator%, ceil, floor): every signed add/sub/negate/divide and narrowing is discharged by LLVM -O2 or justified with guards that must be present; the word '
            'paths exclude the INT_MIN operand pair whose quotient does not fit. Plus the direction of every rounding step: constant folding of div / mod (mkIntDiv, mkMod, helpers '
            'inlined) and the tightening of bounds on integer variables (getBoundsValueForIntVar) are evaluated over a finite rounding-direction domain (exact quotient q, '
            'floor(q)+k; q an integer or not) for every divisor sign / strictness case and must give floor / ceil as SMT-LIB and integer semantics prescribe; the div/mod '
            'elimination axioms emitted by DivModConfig::rewrite are compared as symbolic terms with t = c*q + m, 0 <= m <= |c| - 1. Gcd normalisation is not decided.',
            'static analysis: compiler-discharged sanitizer obligations read from LLVM IR + frozen justified residual table + abstract evaluation over a rounding-direction domain', 'clang 14.0.6 -O2 as the discharging analysis'),
    'C05': ('other',
            'Static: where the code forks on an option the forks are exhaustive (createTheory over Logic_t) and sibling branches agree on the mandatory steps (per-partition vs '
            'whole-frame preprocessing); code that only some configurations execute keeps the shared invariants - every engine precedes its model-found exits by a complete '
            'theory check and sets the conflict frame, SatELite respects frozen variables, conflict-clause minimisation restores its scratch marks on every negative exit, '
            'randomised choices draw from the configured seed; variables announced to the SAT solver outside a clause are frozen before SatELite runs; the ghost-variable engine '
            'records every original clause under its theory literals independently of the (later) declaration state and never treats a Boolean nested in an uninterpreted '
            'function as a ghost (abstract evaluation of attachClause / isGhost). Necessary conditions; that two code paths compute the same answer is not decided.',
            'static analysis: exhaustiveness and sibling-branch agreement rules + the path-sensitive engine rules shared with C01/C02/C04/C23', ''),
}

BUILD_PHASE = {'C07', 'C08', 'C09', 'C11', 'C12', 'C13', 'C14', 'C17', 'C30'}   # claimed only in the build phase: no section 3 entry

NOT_APPLICABLE = {
}

PENDING = 'rule module not built yet in this session (planned in DESIGN.md section 3); not claimed until its check exists and is quiet on the unchanged tree'


def main():
    props = [json.loads(l)['id'] for l in open(os.path.join(VERIF, 'properties.jsonl'))]
    checks = []
    na = []
    for pid in props:
        if pid in CLAIMED and os.path.exists(os.path.join(VERIF, 'sa', 'rules', pid + '.py')):
            cat, text, tech, note = CLAIMED[pid]
            checks.append({
                'property_id': pid,
                'quick_cmd': './check %s --tier quick' % pid,
                'thorough_cmd': './check %s --tier thorough' % pid,
                'evidence_file': 'evidence/%s.json' % pid,
                'replay_cmd_template': './check %s --replay {path}' % pid,
                'engine': 'sa',
                'level_claimed': {'category': cat, 'text': text, 'design_ref': ('DESIGN.md section 9.3, ' if pid in BUILD_PHASE else 'DESIGN.md section 3 and 9.3, ') + pid},
                'level_note': TRUST + (' ' + note if note else ''),
                'technique': tech,
            })
        elif pid in NOT_APPLICABLE:
            na.append({'property_id': pid, 'reason': 'static analysis not applicable: ' + NOT_APPLICABLE[pid]})
        else:
            na.append({'property_id': pid, 'reason': PENDING})
    m = {
        'version': 1,
        'setup_cmd': 'python3 tools/setup.py',
        'hooks': {
            'guard': 'OPENSMT_VERIF_SA',
            'enable': 'no instrumentation hooks: every check reads the unmodified sources under /repo/src (guard name reserved, no hook commits)',
            'baseline_off_cmd': 'cmake --build /repo/_build -j 16 && ctest --test-dir /repo/_build -j8 --timeout 900',
            'source_commits': [],
            'add_only': True,
        },
        'engines': [
            {'name': 'osmt-facts', 'path': 'tools/osmt-facts.cc', 'serves_properties': [c['property_id'] for c in checks],
             'kind_free_text': 'clang-14 LibTooling extractor: type-checked AST of every built unit -> structured mini-AST, records, globals, enums (one JSON per unit, cached by dependency content hash)'},
            {'name': 'sa', 'path': 'sa/', 'serves_properties': [c['property_id'] for c in checks],
             'kind_free_text': 'python rule layer: CHA call graph, exception-escape fixpoint, path/typestate walkers, special-purpose interpreters, instance tables with non-vacuity floors'},
        ],
        'checks': checks,
        'not_applicable': na,
        'notes': 'Static analysis only; no check executes OpenSMT code. Exit 2 = ANALYSIS-BROKEN (anchor vanished / floor missed / extractor failure), deliberately neither pass nor violation. known_findings.json lists recorded and fixed defects.',
    }
    json.dump(m, open(os.path.join(VERIF, 'MANIFEST.json'), 'w'), indent=1)
    print('claimed:', [c['property_id'] for c in checks])
    print('n/a or pending:', [n['property_id'] for n in na])


if __name__ == '__main__':
    main()
