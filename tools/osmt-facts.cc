// osmt-facts: LibTooling extractor. One translation unit in, one JSON file out:
// records, enums, static-storage variables, and every function body as a structured mini-AST
// (see DESIGN.md 2.2/2.3). Callees are the resolved declarations; nothing is matched by text.
#include "clang/AST/ASTConsumer.h"
#include "clang/AST/ASTContext.h"
#include "clang/AST/DeclCXX.h"
#include "clang/AST/DeclTemplate.h"
#include "clang/AST/ExprCXX.h"
#include "clang/AST/Mangle.h"
#include "clang/AST/RecursiveASTVisitor.h"
#include "clang/AST/StmtCXX.h"
#include "clang/Frontend/CompilerInstance.h"
#include "clang/Frontend/FrontendAction.h"
#include "clang/Lex/Lexer.h"
#include "clang/Tooling/CommonOptionsParser.h"
#include "clang/Tooling/Tooling.h"
#include "llvm/Support/CommandLine.h"
#include "llvm/Support/JSON.h"
#include "llvm/Support/raw_ostream.h"
#include <set>
using namespace clang;
using namespace clang::tooling;
namespace json = llvm::json;
static llvm::cl::OptionCategory Cat("facts");
static llvm::cl::opt<std::string> OutFile("o", llvm::cl::desc("output json"), llvm::cl::cat(Cat));
static llvm::cl::opt<std::string> Root("root", llvm::cl::init("/repo/src"), llvm::cl::cat(Cat));
static llvm::cl::opt<std::string> Root2("root2", llvm::cl::init(""), llvm::cl::desc("second accepted prefix (generated sources)"), llvm::cl::cat(Cat));

static bool gHadError = false;

struct Conv {
    ASTContext & C;
    SourceManager & SM;
    std::unique_ptr<MangleContext> MC;
    json::Array lambdas;
    Conv(ASTContext & C) : C(C), SM(C.getSourceManager()), MC(C.createMangleContext()) {}

    std::string ty(QualType T) { return T.getAsString(C.getPrintingPolicy()); }
    int line(SourceLocation L) { return SM.getExpansionLineNumber(L); }
    int col(SourceLocation L) { return SM.getExpansionColumnNumber(L); }
    std::string file(SourceLocation L) { return SM.getFilename(SM.getExpansionLoc(L)).str(); }
    std::string text(SourceRange R, unsigned cap = 160) {
        if (R.isInvalid()) return "";
        CharSourceRange CR = CharSourceRange::getTokenRange(SM.getExpansionLoc(R.getBegin()), SM.getExpansionRange(R.getEnd()).getEnd());
        bool inv = false;
        StringRef s = Lexer::getSourceText(CR, SM, C.getLangOpts(), &inv);
        if (inv) return "";
        std::string out;
        bool sp = false;
        for (char ch : s) {
            if (ch == '\n' || ch == '\t' || ch == ' ' || ch == '\r') { if (!sp && !out.empty()) out += ' '; sp = true; }
            else { out += ch; sp = false; }
            if (out.size() >= cap) { out += "..."; break; }
        }
        return out;
    }
    // name of an assert-like macro this location is expanded from ("" if none)
    bool inAssert(SourceLocation L) {
        while (L.isMacroID()) {
            StringRef n = Lexer::getImmediateMacroName(L, SM, C.getLangOpts());
            if (n == "assert" || n == "simplex_assert") return true;
            L = SM.getImmediateMacroCallerLoc(L);
        }
        return false;
    }
    // outermost function-like macro name the location comes from (for macro-sensitive rules)
    std::string macroOf(SourceLocation L) {
        std::string last;
        while (L.isMacroID()) {
            StringRef n = Lexer::getImmediateMacroName(L, SM, C.getLangOpts());
            if (!n.empty()) last = n.str();
            L = SM.getImmediateMacroCallerLoc(L);
        }
        return last;
    }
    std::string mangled(const FunctionDecl * FD) {
        std::string s;
        llvm::raw_string_ostream os(s);
        if (isa<CXXConstructorDecl>(FD) || isa<CXXDestructorDecl>(FD)) return FD->getQualifiedNameAsString() + "#" + ty(FD->getType());
        if (MC->shouldMangleDeclName(FD)) { MC->mangleName(GlobalDecl(FD), os); return os.str(); }
        return FD->getQualifiedNameAsString();
    }
    std::string recName(const CXXRecordDecl * D) {
        std::string n = D->getQualifiedNameAsString();
        if (auto * S = dyn_cast<ClassTemplateSpecializationDecl>(D)) { n.clear(); llvm::raw_string_ostream os(n); S->getNameForDiagnostic(os, C.getPrintingPolicy(), true); }
        return n;
    }
    json::Value expr(const Expr * E) {
        if (!E) return nullptr;
        E = E->IgnoreParenImpCasts();
        if (auto * X = dyn_cast<ExprWithCleanups>(E)) return expr(X->getSubExpr());
        if (auto * X = dyn_cast<CXXBindTemporaryExpr>(E)) return expr(X->getSubExpr());
        if (auto * X = dyn_cast<MaterializeTemporaryExpr>(E)) return expr(X->getSubExpr());
        if (auto * X = dyn_cast<ConstantExpr>(E)) return expr(X->getSubExpr());
        if (auto * X = dyn_cast<CXXFunctionalCastExpr>(E)) {
            if (isa<CXXConstructExpr>(X->getSubExpr()->IgnoreParenImpCasts())) return expr(X->getSubExpr());
            return json::Object{{"k", "cast"}, {"to", ty(X->getType())}, {"e", expr(X->getSubExpr())}, {"ln", line(X->getBeginLoc())}};
        }
        if (auto * X = dyn_cast<ExplicitCastExpr>(E))
            return json::Object{{"k", "cast"}, {"to", ty(X->getType())}, {"ck", X->getCastKindName()}, {"e", expr(X->getSubExpr())}, {"ln", line(X->getBeginLoc())}};
        // C++20: `a != b` written against a type that only has operator== is stored as a rewritten operator; its meaning is the semantic form !(a == b)
        if (auto * X = dyn_cast<CXXRewrittenBinaryOperator>(E)) return expr(X->getSemanticForm());
        if (isa<CXXThisExpr>(E)) return json::Object{{"k", "this"}};
        if (auto * X = dyn_cast<DeclRefExpr>(E)) {
            const ValueDecl * D = X->getDecl();
            std::string kind = "other";
            if (auto * V = dyn_cast<VarDecl>(D)) kind = isa<ParmVarDecl>(V) ? "param" : V->hasGlobalStorage() ? "global" : "local";
            else if (isa<FunctionDecl>(D)) kind = "func";
            else if (isa<EnumConstantDecl>(D)) kind = "enum";
            else if (isa<BindingDecl>(D)) kind = "local";
            json::Object o{{"k", "ref"}, {"n", kind == "local" || kind == "param" ? D->getNameAsString() : D->getQualifiedNameAsString()}, {"d", kind}, {"t", ty(D->getType())}};
            if (kind == "func") o["id"] = mangled(cast<FunctionDecl>(D));
            if (kind == "enum") if (auto * ED = dyn_cast<EnumDecl>(D->getDeclContext())) o["en"] = ED->getQualifiedNameAsString();
            return std::move(o);
        }
        if (auto * X = dyn_cast<MemberExpr>(E)) {
            json::Object o{{"k", "mem"}, {"b", expr(X->getBase())}, {"n", X->getMemberDecl()->getNameAsString()}, {"t", ty(X->getType())}};
            if (auto * FD = dyn_cast<FieldDecl>(X->getMemberDecl()))
                if (auto * RD = dyn_cast<CXXRecordDecl>(FD->getParent())) o["of"] = recName(RD);
            if (auto * VD = dyn_cast<VarDecl>(X->getMemberDecl())) { o["k"] = "ref"; o["d"] = "global"; o["n"] = VD->getQualifiedNameAsString(); o.erase("b"); }
            return std::move(o);
        }
        if (auto * X = dyn_cast<IntegerLiteral>(E)) return json::Object{{"k", "lit"}, {"v", (int64_t)X->getValue().getLimitedValue()}, {"t", ty(X->getType())}};
        if (auto * X = dyn_cast<FloatingLiteral>(E)) return json::Object{{"k", "flit"}, {"v", X->getValueAsApproximateDouble()}};
        if (auto * X = dyn_cast<CharacterLiteral>(E)) return json::Object{{"k", "chr"}, {"v", (int64_t)X->getValue()}};
        if (auto * X = dyn_cast<CXXBoolLiteralExpr>(E)) return json::Object{{"k", "lit"}, {"v", X->getValue()}, {"t", "bool"}};
        if (isa<CXXNullPtrLiteralExpr>(E) || isa<GNUNullExpr>(E)) return json::Object{{"k", "null"}};
        if (auto * X = dyn_cast<StringLiteral>(E)) return json::Object{{"k", "str"}, {"v", X->getBytes().str()}};
        if (auto * X = dyn_cast<UnaryOperator>(E)) {
            json::Object o{{"k", "un"}, {"op", UnaryOperator::getOpcodeStr(X->getOpcode()).str()}, {"e", expr(X->getSubExpr())}, {"ln", line(X->getOperatorLoc())}};
            if (X->isPostfix()) o["post"] = true;
            if (inAssert(X->getOperatorLoc())) o["as"] = true;
            return std::move(o);
        }
        if (auto * X = dyn_cast<BinaryOperator>(E)) {
            json::Object o{{"k", "bin"}, {"op", X->getOpcodeStr().str()}, {"l", expr(X->getLHS())}, {"r", expr(X->getRHS())}, {"ln", line(X->getOperatorLoc())}};
            if (X->isAssignmentOp()) o["lt"] = ty(X->getLHS()->getType());
            if (inAssert(X->getOperatorLoc())) o["as"] = true;
            return std::move(o);
        }
        if (auto * X = dyn_cast<ConditionalOperator>(E)) {
            json::Object o{{"k", "cond"}, {"c", expr(X->getCond())}, {"t", expr(X->getTrueExpr())}, {"f", expr(X->getFalseExpr())}, {"ln", line(X->getQuestionLoc())}};
            if (inAssert(X->getQuestionLoc())) o["as"] = true;
            return std::move(o);
        }
        if (auto * X = dyn_cast<ArraySubscriptExpr>(E)) return json::Object{{"k", "idx"}, {"b", expr(X->getBase())}, {"i", expr(X->getIdx())}};
        if (auto * X = dyn_cast<LambdaExpr>(E)) {
            int id = lambdas.size();
            lambdas.push_back(nullptr);
            // a generic lambda's own body is a template pattern (unresolved names): take its first instantiation instead
            const Stmt * LB = X->getBody();
            bool fromInst = false;
            if (X->getLambdaClass() && X->getLambdaClass()->isGenericLambda())
                if (auto * FTD = X->getDependentCallOperator())
                    for (auto * Sp : FTD->specializations())
                        if (Sp->doesThisDeclarationHaveABody() && Sp->getBody()) { LB = Sp->getBody(); fromInst = true; break; }
            json::Value b = stmt(const_cast<Stmt *>(LB));
            json::Array lps;
            if (auto * CO = X->getCallOperator()) for (auto * P : CO->parameters()) lps.push_back(P->getNameAsString());
            json::Array caps;
            for (auto & Cp : X->captures()) if (Cp.capturesVariable()) caps.push_back(Cp.getCapturedVar()->getNameAsString());
            lambdas[id] = json::Object{{"id", id}, {"line", line(X->getBeginLoc())}, {"body", std::move(b)}, {"caps", std::move(caps)}, {"params", std::move(lps)}, {"inst", fromInst}, {"op", mangled(X->getCallOperator())}};
            return json::Object{{"k", "lambda"}, {"id", id}};
        }
        if (auto * X = dyn_cast<InitListExpr>(E)) {
            json::Array a;
            for (auto * I : X->inits()) a.push_back(expr(I));
            return json::Object{{"k", "init"}, {"t", ty(X->getType())}, {"e", std::move(a)}, {"ln", line(X->getBeginLoc())}};
        }
        if (auto * X = dyn_cast<CXXStdInitializerListExpr>(E)) return expr(X->getSubExpr());
        if (auto * X = dyn_cast<CXXConstructExpr>(E)) {
            json::Array a, pt;
            const CXXConstructorDecl * CD = X->getConstructor();
            unsigned i = 0;
            for (auto * I : X->arguments()) {
                if (!isa<CXXDefaultArgExpr>(I)) { a.push_back(expr(I)); if (i < CD->getNumParams()) pt.push_back(ty(CD->getParamDecl(i)->getType())); }
                ++i;
            }
            if (CD->isCopyOrMoveConstructor() && a.size() == 1) return std::move(a[0]);
            return json::Object{{"k", "new"}, {"t", ty(X->getType())}, {"id", mangled(CD)}, {"a", std::move(a)}, {"pt", std::move(pt)}, {"ln", line(X->getBeginLoc())}};
        }
        if (auto * X = dyn_cast<CXXThrowExpr>(E))
            return json::Object{{"k", "throw"}, {"t", X->getSubExpr() ? ty(X->getSubExpr()->getType().getNonReferenceType().getUnqualifiedType().getCanonicalType()) : std::string("<rethrow>")}, {"e", expr(X->getSubExpr())}, {"ln", line(X->getThrowLoc())}};
        if (auto * X = dyn_cast<CallExpr>(E)) {
            json::Object o{{"k", "call"}, {"ln", line(X->getBeginLoc())}, {"col", col(X->getBeginLoc())}, {"t", ty(X->getType())}};
            if (inAssert(X->getBeginLoc())) o["as"] = true;
            const FunctionDecl * FD = X->getDirectCallee();
            unsigned firstArg = 0;
            if (FD) {
                o["f"] = FD->getQualifiedNameAsString();
                o["id"] = mangled(FD);
                if (auto * MD = dyn_cast<CXXMethodDecl>(FD)) {
                    if (MD->isVirtual()) o["virt"] = true;
                    if (MD->isConst()) o["mc"] = true;
                    if (MD->isStatic()) o["ms"] = true;
                    o["cls"] = recName(MD->getParent());
                }
                if (FD->isNoReturn()) o["noret"] = true;
            } else {
                o["f"] = nullptr;
                o["callee"] = expr(X->getCallee());
            }
            if (auto * M = dyn_cast<CXXMemberCallExpr>(X)) {
                o["recv"] = expr(M->getImplicitObjectArgument());
                if (auto * ME = dyn_cast<MemberExpr>(M->getCallee()->IgnoreParenImpCasts()))
                    if (ME->hasQualifier()) o["qual"] = true; // Base::method() form: non-virtual dispatch
            } else if (auto * O = dyn_cast<CXXOperatorCallExpr>(X)) {
                o["op"] = getOperatorSpelling(O->getOperator());
                if (FD && isa<CXXMethodDecl>(FD) && !cast<CXXMethodDecl>(FD)->isStatic() && O->getNumArgs() > 0) { o["recv"] = expr(O->getArg(0)); firstArg = 1; }
            }
            json::Array a, pt, vt;
            bool variadic = FD && FD->isVariadic();
            for (unsigned i = firstArg; i < X->getNumArgs(); ++i) {
                if (isa<CXXDefaultArgExpr>(X->getArg(i))) continue;
                a.push_back(expr(X->getArg(i)));
                unsigned pi = i - firstArg;
                if (FD && pi < FD->getNumParams()) pt.push_back(ty(FD->getParamDecl(pi)->getType())); else pt.push_back("");
                // the type an argument has when it travels through the ellipsis (after the default argument promotions), typedefs resolved
                if (variadic) vt.push_back(X->getArg(i)->getType().getCanonicalType().getAsString(C.getPrintingPolicy()));
            }
            o["a"] = std::move(a);
            o["pt"] = std::move(pt);
            if (variadic) o["vt"] = std::move(vt);
            return std::move(o);
        }
        if (auto * X = dyn_cast<CXXNewExpr>(E)) return json::Object{{"k", "heapnew"}, {"t", ty(X->getAllocatedType())}, {"e", expr(X->getConstructExpr())}, {"ln", line(X->getBeginLoc())}};
        if (auto * X = dyn_cast<CXXDeleteExpr>(E)) return json::Object{{"k", "delete"}, {"e", expr(X->getArgument())}};
        if (auto * X = dyn_cast<UnaryExprOrTypeTraitExpr>(E)) return json::Object{{"k", "sizeof"}, {"t", X->isArgumentType() ? ty(X->getArgumentType()) : std::string("")}};
        if (isa<CXXDependentScopeMemberExpr>(E) || isa<UnresolvedLookupExpr>(E) || isa<UnresolvedMemberExpr>(E) || isa<DependentScopeDeclRefExpr>(E))
            return json::Object{{"k", "unresolved"}, {"cls", E->getStmtClassName()}, {"ln", line(E->getBeginLoc())}};
        // generic fallback: keep children so nested calls are not lost
        json::Array ch;
        for (const Stmt * S : E->children()) if (auto * CE = dyn_cast_or_null<Expr>(S)) ch.push_back(expr(CE));
        return json::Object{{"k", "x"}, {"cls", E->getStmtClassName()}, {"c", std::move(ch)}};
    }
    json::Value stmt(const Stmt * S) {
        if (!S) return nullptr;
        if (auto * X = dyn_cast<CompoundStmt>(S)) {
            json::Array a;
            for (auto * c : X->body()) a.push_back(stmt(c));
            return json::Object{{"k", "seq"}, {"c", std::move(a)}, {"eln", line(X->getRBracLoc())}};
        }
        if (auto * X = dyn_cast<IfStmt>(S)) {
            json::Object o{{"k", "if"}, {"ln", line(X->getIfLoc())}, {"cond", expr(X->getCond())}, {"then", stmt(X->getThen())}, {"else", stmt(X->getElse())}};
            if (X->getInit()) o["init"] = stmt(X->getInit());
            if (X->getConditionVariableDeclStmt()) o["cvar"] = stmt(X->getConditionVariableDeclStmt());
            if (X->isConstexpr()) o["constexpr"] = true;
            if (inAssert(X->getIfLoc())) o["as"] = true;
            std::string m = macroOf(X->getIfLoc());
            if (!m.empty()) o["macro"] = m;
            return std::move(o);
        }
        if (auto * X = dyn_cast<WhileStmt>(S)) return json::Object{{"k", "loop"}, {"kind", "while"}, {"ln", line(X->getWhileLoc())}, {"cond", expr(X->getCond())}, {"body", stmt(X->getBody())}};
        if (auto * X = dyn_cast<DoStmt>(S)) {
            json::Object o{{"k", "loop"}, {"kind", "do"}, {"ln", line(X->getDoLoc())}, {"cond", expr(X->getCond())}, {"body", stmt(X->getBody())}};
            std::string m = macroOf(X->getDoLoc());
            if (!m.empty()) o["macro"] = m;
            return std::move(o);
        }
        if (auto * X = dyn_cast<ForStmt>(S)) return json::Object{{"k", "loop"}, {"kind", "for"}, {"ln", line(X->getForLoc())}, {"init", stmt(X->getInit())}, {"cond", expr(X->getCond())}, {"inc", expr(X->getInc())}, {"body", stmt(X->getBody())}};
        if (auto * X = dyn_cast<CXXForRangeStmt>(S)) {
            json::Object o{{"k", "loop"}, {"kind", "range"}, {"ln", line(X->getForLoc())}, {"var", X->getLoopVariable()->getNameAsString()}, {"vt", ty(X->getLoopVariable()->getType())}, {"range", expr(X->getRangeInit())}, {"rt", ty(X->getRangeInit()->getType().getCanonicalType())}, {"body", stmt(X->getBody())}};
            if (auto * DD = dyn_cast<DecompositionDecl>(X->getLoopVariable())) {
                json::Array bs;
                for (auto * B : DD->bindings()) bs.push_back(B->getNameAsString());
                o["bind"] = std::move(bs);
            }
            return std::move(o);
        }
        if (auto * X = dyn_cast<SwitchStmt>(S)) return json::Object{{"k", "switch"}, {"ln", line(X->getSwitchLoc())}, {"cond", expr(X->getCond())}, {"body", stmt(X->getBody())}};
        if (auto * X = dyn_cast<CaseStmt>(S)) return json::Object{{"k", "case"}, {"ln", line(X->getCaseLoc())}, {"v", expr(X->getLHS())}, {"body", stmt(X->getSubStmt())}};
        if (auto * X = dyn_cast<DefaultStmt>(S)) return json::Object{{"k", "default"}, {"ln", line(X->getDefaultLoc())}, {"body", stmt(X->getSubStmt())}};
        if (auto * X = dyn_cast<CXXTryStmt>(S)) {
            json::Array h;
            for (unsigned i = 0; i < X->getNumHandlers(); ++i) {
                auto * H = X->getHandler(i);
                h.push_back(json::Object{{"t", H->getExceptionDecl() ? ty(H->getCaughtType().getNonReferenceType().getUnqualifiedType().getCanonicalType()) : std::string("...")},
                                         {"ln", line(H->getCatchLoc())},
                                         {"var", H->getExceptionDecl() ? H->getExceptionDecl()->getNameAsString() : std::string("")},
                                         {"body", stmt(H->getHandlerBlock())}});
            }
            return json::Object{{"k", "try"}, {"ln", line(X->getTryLoc())}, {"body", stmt(X->getTryBlock())}, {"h", std::move(h)}};
        }
        if (auto * X = dyn_cast<ReturnStmt>(S)) return json::Object{{"k", "ret"}, {"ln", line(X->getReturnLoc())}, {"e", expr(X->getRetValue())}, {"s", text(X->getSourceRange())}};
        if (auto * X = dyn_cast<BreakStmt>(S)) return json::Object{{"k", "break"}, {"ln", line(X->getBreakLoc())}};
        if (auto * X = dyn_cast<ContinueStmt>(S)) return json::Object{{"k", "continue"}, {"ln", line(X->getContinueLoc())}};
        if (auto * X = dyn_cast<GotoStmt>(S)) return json::Object{{"k", "goto"}, {"l", X->getLabel()->getNameAsString()}, {"ln", line(X->getGotoLoc())}};
        if (auto * X = dyn_cast<LabelStmt>(S)) return json::Object{{"k", "label"}, {"l", X->getName()}, {"ln", line(X->getIdentLoc())}, {"body", stmt(X->getSubStmt())}};
        if (auto * X = dyn_cast<DeclStmt>(S)) {
            json::Array a;
            for (auto * D : X->decls())
                if (auto * V = dyn_cast<VarDecl>(D)) {
                    json::Object o{{"k", "decl"}, {"n", V->getNameAsString()}, {"t", ty(V->getType())}, {"ct", ty(V->getType().getCanonicalType())}, {"ln", line(V->getLocation())}, {"init", expr(V->getInit())}};
                    if (V->isStaticLocal()) o["static"] = true;
                    if (auto * RD = V->getType().getNonReferenceType()->getAsCXXRecordDecl())
                        if (!V->getType()->isReferenceType() && RD->hasDefinition() && RD->hasUserDeclaredDestructor() && RD->getDestructor()) o["dtor"] = mangled(RD->getDestructor());
                    if (auto * DD = dyn_cast<DecompositionDecl>(V)) {
                        json::Array bs;
                        for (auto * B : DD->bindings()) bs.push_back(B->getNameAsString());
                        o["bind"] = std::move(bs);
                    }
                    a.push_back(std::move(o));
                }
            if (a.size() == 1) return std::move(a[0]);
            return json::Object{{"k", "seq"}, {"c", std::move(a)}, {"flat", true}};
        }
        if (isa<NullStmt>(S)) return json::Object{{"k", "seq"}, {"c", json::Array{}}};
        if (auto * X = dyn_cast<AttributedStmt>(S)) return stmt(X->getSubStmt());
        if (auto * X = dyn_cast<Expr>(S)) {
            json::Object o{{"k", "e"}, {"e", expr(X)}, {"ln", line(X->getBeginLoc())}, {"s", text(X->getSourceRange())}};
            if (inAssert(X->getBeginLoc())) o["as"] = true;
            std::string m = macroOf(X->getBeginLoc());
            if (!m.empty()) o["macro"] = m;
            return std::move(o);
        }
        return json::Object{{"k", "stmt?"}, {"cls", S->getStmtClassName()}};
    }
};

struct V : RecursiveASTVisitor<V> {
    ASTContext & C;
    SourceManager & SM;
    json::Array funcs, records, globals, enums, typedefs;
    std::set<std::string> seenT;
    std::set<std::string> seenF, seenR, seenG;
    V(ASTContext & C) : C(C), SM(C.getSourceManager()) {}
    bool shouldVisitTemplateInstantiations() const { return true; }
    bool shouldVisitImplicitCode() const { return false; }
    bool inRoot(SourceLocation L) {
        StringRef f = SM.getFilename(SM.getExpansionLoc(L));
        return f.startswith(Root) || (!Root2.empty() && f.startswith(Root2));
    }
    bool VisitFunctionDecl(FunctionDecl * D) {
        if (!D->doesThisDeclarationHaveABody() || !inRoot(D->getLocation())) return true;
        if (D->isDependentContext()) return true; // only instantiations / non-templates
        Conv cv(C);
        std::string id = cv.mangled(D);
        if (!seenF.insert(id).second) return true;
        // an instantiated member defined out of line reports the in-class declaration as its location: take the file (and line) of the body instead
        SourceLocation DL = D->getLocation();
        if (D->getBody() && cv.file(D->getBody()->getBeginLoc()) != cv.file(DL)) DL = D->getBody()->getBeginLoc();
        json::Object o{{"name", D->getQualifiedNameAsString()}, {"id", id}, {"file", cv.file(DL)}, {"line", cv.line(DL)},
                       {"eline", cv.line(D->getEndLoc())}, {"ret", cv.ty(D->getReturnType())}};
        json::Array ps;
        for (auto * P : D->parameters()) ps.push_back(json::Object{{"n", P->getNameAsString()}, {"t", cv.ty(P->getType())}});
        o["params"] = std::move(ps);
        if (D->isTemplateInstantiation()) o["inst"] = true;
        if (auto * FPT = D->getType()->getAs<FunctionProtoType>()) if (FPT->isNothrow()) o["noexcept"] = true;
        if (auto * M = dyn_cast<CXXMethodDecl>(D)) {
            o["class"] = cv.recName(M->getParent());
            if (M->isVirtual()) o["virtual"] = true;
            if (M->isConst()) o["const"] = true;
            if (M->isStatic()) o["static"] = true;
            json::Array ov;
            for (auto * B : M->overridden_methods()) ov.push_back(cv.mangled(B));
            if (!ov.empty()) o["overrides"] = std::move(ov);
        }
        if (auto * CD = dyn_cast<CXXConstructorDecl>(D)) {
            json::Array inits;
            for (auto * I : CD->inits())
                if (I->isWritten()) inits.push_back(json::Object{{"m", I->getMember() ? I->getMember()->getNameAsString() : (I->isDelegatingInitializer() ? std::string("<delegate>") : std::string("<base>"))}, {"e", cv.expr(I->getInit())}});
            o["inits"] = std::move(inits);
            o["ctor"] = true;
        }
        if (isa<CXXDestructorDecl>(D)) o["dtor"] = true;
        o["body"] = cv.stmt(D->getBody());
        o["lambdas"] = std::move(cv.lambdas);
        funcs.push_back(std::move(o));
        return true;
    }
    bool VisitCXXRecordDecl(CXXRecordDecl * D) {
        if (!D->isThisDeclarationADefinition() || !inRoot(D->getLocation()) || D->isDependentContext() || D->isLambda()) return true;
        Conv cv(C);
        std::string n = cv.recName(D);
        if (!seenR.insert(n).second) return true;
        json::Array bases, fields, methods;
        for (auto & B : D->bases()) {
            std::string acc = B.getAccessSpecifier() == AS_public ? "public" : B.getAccessSpecifier() == AS_protected ? "protected" : "private";
            std::string bn = cv.ty(B.getType().getCanonicalType());
            if (auto * BR = B.getType()->getAsCXXRecordDecl()) bn = cv.recName(BR);
            bases.push_back(json::Object{{"n", bn}, {"acc", acc}});
        }
        for (auto * F : D->fields()) fields.push_back(json::Object{{"n", F->getNameAsString()}, {"t", cv.ty(F->getType())}, {"ct", cv.ty(F->getType().getCanonicalType())}, {"mutable", F->isMutable()}, {"ln", cv.line(F->getLocation())}, {"init", F->hasInClassInitializer()}, {"scalar", F->getType()->isScalarType() && !F->getType()->isReferenceType()}});
        for (auto * M : D->methods()) {
            if (M->isImplicit()) continue;
            json::Object mo{{"n", M->getNameAsString()}, {"id", cv.mangled(M)}, {"virtual", M->isVirtual()}, {"pure", M->isPure()}, {"const", M->isConst()}, {"static", M->isStatic()}, {"body", M->hasBody()}};
            json::Array ov;
            for (auto * B : M->overridden_methods()) ov.push_back(cv.mangled(B));
            if (!ov.empty()) mo["overrides"] = std::move(ov);
            methods.push_back(std::move(mo));
        }
        records.push_back(json::Object{{"name", n}, {"file", cv.file(D->getLocation())}, {"line", cv.line(D->getLocation())}, {"bases", std::move(bases)}, {"fields", std::move(fields)}, {"methods", std::move(methods)}});
        return true;
    }
    bool VisitVarDecl(VarDecl * D) {
        if (!D->hasGlobalStorage() || !inRoot(D->getLocation()) || isa<ParmVarDecl>(D)) return true;
        if (D->getDeclContext()->isDependentContext()) return true;
        if (!D->isThisDeclarationADefinition() && !D->isStaticDataMember()) return true;
        Conv cv(C);
        QualType T = D->getType();
        std::string name = D->getQualifiedNameAsString();
        std::string owner;
        if (D->isStaticLocal()) if (auto * FD = dyn_cast<FunctionDecl>(D->getDeclContext())) { owner = cv.mangled(FD); name = FD->getQualifiedNameAsString() + "()::" + D->getNameAsString(); }
        bool def = D->isThisDeclarationADefinition() == VarDecl::Definition;
        std::string key = name + (def ? "#d" : "#x");
        if (!seenG.insert(key).second) return true;
        bool hasMutable = false;
        if (auto * RD = T->getBaseElementTypeUnsafe()->getAsCXXRecordDecl()) if (RD->hasDefinition()) hasMutable = RD->hasMutableFields();
        json::Object o{{"name", name}, {"t", cv.ty(T)}, {"ct", cv.ty(T.getCanonicalType())}, {"const", T.isConstQualified()}, {"constexpr", D->isConstexpr()},
                       {"tls", D->getTLSKind() != VarDecl::TLS_None}, {"local", D->isStaticLocal()}, {"file", cv.file(D->getLocation())}, {"line", cv.line(D->getLocation())},
                       {"def", def}, {"mutable_fields", hasMutable}, {"member", D->isStaticDataMember()}};
        if (!owner.empty()) o["owner"] = owner;
        if (def && D->getInit()) o["init"] = cv.expr(D->getInit());
        globals.push_back(std::move(o));
        return true;
    }
    bool VisitTypedefNameDecl(TypedefNameDecl * D) {
        if (!inRoot(D->getLocation())) return true;
        QualType U = D->getUnderlyingType();
        if (U.isNull() || U->isDependentType()) return true;
        Conv cv(C);
        std::string n = D->getQualifiedNameAsString();
        if (!seenT.insert(n).second) return true;
        typedefs.push_back(json::Object{{"name", n}, {"ct", cv.ty(U.getCanonicalType())}});
        return true;
    }
    bool VisitEnumDecl(EnumDecl * D) {
        if (!D->isThisDeclarationADefinition() || !inRoot(D->getLocation())) return true;
        Conv cv(C);
        json::Array es;
        for (auto * E : D->enumerators()) es.push_back(json::Object{{"n", E->getNameAsString()}, {"v", (int64_t)E->getInitVal().getExtValue()}});
        enums.push_back(json::Object{{"name", D->getQualifiedNameAsString()}, {"e", std::move(es)}, {"file", cv.file(D->getLocation())}, {"line", cv.line(D->getLocation())}});
        return true;
    }
};
struct Cons : ASTConsumer {
    void HandleTranslationUnit(ASTContext & C) override {
        if (C.getDiagnostics().hasErrorOccurred()) { gHadError = true; }
        V v(C);
        v.TraverseDecl(C.getTranslationUnitDecl());
        json::Array deps;
        SourceManager & SM = C.getSourceManager();
        std::set<std::string> dn;
        for (auto it = SM.fileinfo_begin(); it != SM.fileinfo_end(); ++it) {
            StringRef n = it->first->getName();
            if (n.startswith("/usr/")) continue;
            dn.insert(n.str());
        }
        for (auto & s : dn) deps.push_back(s);
        std::error_code EC;
        llvm::raw_fd_ostream os(OutFile.empty() ? "-" : OutFile.getValue(), EC);
        json::Object root{{"functions", std::move(v.funcs)}, {"records", std::move(v.records)}, {"globals", std::move(v.globals)}, {"enums", std::move(v.enums)}, {"typedefs", std::move(v.typedefs)}, {"deps", std::move(deps)}, {"errors", gHadError}};
        os << json::Value(std::move(root)) << "\n";
    }
};
struct Act : ASTFrontendAction {
    std::unique_ptr<ASTConsumer> CreateASTConsumer(CompilerInstance &, StringRef) override { return std::make_unique<Cons>(); }
};
int main(int argc, const char ** argv) {
    auto P = CommonOptionsParser::create(argc, argv, Cat);
    if (!P) { llvm::errs() << P.takeError(); return 1; }
    ClangTool T(P->getCompilations(), P->getSourcePathList());
    int rc = T.run(newFrontendActionFactory<Act>().get());
    return rc ? rc : (gHadError ? 3 : 0);
}
