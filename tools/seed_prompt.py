#!/usr/bin/env python3
"""Print the prompt handed to an independent seeding sub-agent for one property (nothing from /verif but the property text)."""
import json, sys
pid = sys.argv[1]; n = sys.argv[2] if len(sys.argv) > 2 else ''
wt = '/tmp/wt/%s%s' % (pid, n)
for l in open('/verif/properties.jsonl'):
    d = json.loads(l)
    if d['id'] == pid: break
print(f"""You are helping test a verification effort for OpenSMT2 (a C++ CDCL(T) SMT solver). Your job: craft ONE realistic source change (a plausible regression a developer could introduce: a refactor gone wrong, an over-eager optimisation, a dropped bookkeeping step, a mis-ordered pair of calls) that BREAKS the property below, while the project still compiles and ALL existing unit tests still pass.

PROPERTY {d['id']}: {d['title']}
{d['statement']}
Quantified over: {d['quantifier']['text']}

WORKSPACE
- Your own git worktree of the repository: {wt} (detached HEAD of the pinned commit). Work ONLY inside {wt} (and {wt}-scratch for temporary files). Do NOT read or touch /repo, /verif or any other /tmp/wt/* directory. Do not commit; leave your change as uncommitted edits to tracked files under {wt}/src.
- No network. Build (about 2-6 minutes): 
    cd {wt} && cmake -G Ninja -S . -B _build -DCMAKE_BUILD_TYPE=RelWithDebInfo -DCMAKE_CXX_FLAGS=-Wno-error -DFETCHCONTENT_SOURCE_DIR_GOOGLETEST=/usr/src/googletest -DFETCHCONTENT_UPDATES_DISCONNECTED=ON >/dev/null && cmake --build _build -j 8 2>&1 | tail -3
  Tests (seconds): ctest --test-dir {wt}/_build -j8 --timeout 900 2>&1 | tail -5      -> must report 100% passed with your change.
  The executable is {wt}/_build/opensmt (reads a .smt2 file argument, or stdin with -p for pipe mode). The library is {wt}/_build/src/api/libopensmt.a / lib/libopensmt.so; API headers are under {wt}/src.

REQUIREMENTS FOR THE CHANGE
1. It must be subtle: it must need something specific to manifest -- a particular multi-step command sequence, an unusual input or option combination, a code path the unit tests never take, a particular interleaving, or two cooperating edits that each look fine alone. A change that ordinary use or the existing tests expose at once is NOT acceptable. Keep it small (typically 1-15 changed lines) and natural-looking; no comments announcing the bug, no dead code, no special-casing of a magic input.
2. It must really violate the property as stated (observable wrong behaviour through the executable or the public API), not merely change internals.
3. Provide a DEMONSTRATION: a .smt2 script (preferred; plus the command line and expected vs. actual output) or a small C++ program against the API, that FAILS (shows the property violation) with your change and PASSES on the pinned tree without it. Verify both directions yourself: build the unmodified tree first (or use `git stash` / `git diff > patch; git checkout -- .; rebuild`), run the demonstration, then with the change.
4. Read the relevant source first so the change sits in code that actually implements the mechanism behind the property.

DELIVERABLES (write them to {wt}-out/, create the directory):
- patch.diff   : output of `git -C {wt} diff` (the change, applying cleanly to the pinned commit with `git apply`)
- demo.smt2 or demo.cc (+ demo.sh: exact commands that run the demonstration against a given build directory passed as $1 and exit non-zero when the property is violated)
- NOTES.md     : what the change does, why tests still pass, what it needs in order to manifest, the outputs you observed with and without the change, and the ctest summary line with the change applied.
When finished, leave the worktree with the change applied and built. Reply with a short summary (files changed, how it manifests, test result). If after real effort you cannot find a change meeting all requirements, say so plainly rather than delivering a weak one.""")
