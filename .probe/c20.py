import json,re,collections,itertools
CLASSES=['(',')',';','|','"','\\','\n','x']   # x = any other byte
# ---------- pipe machine: abstract interpretation of the extracted loop body ----------
d=json.load(open('/tmp/proto/fdb2/_repo_src_api_Interpret.cc.json'))
fn=[f for f in d['functions'] if f['name']=='opensmt::Interpret::interpPipe'][0]
def find_loop(s):
    if isinstance(s,dict):
        if s.get('k')=='loop' and s.get('kind')=='for': return s
        for v in s.values():
            r=find_loop(v)
            if r: return r
    elif isinstance(s,list):
        for v in s:
            r=find_loop(v)
            if r: return r
L=find_loop(fn['body']); body=L['body']
class Unsupported(Exception): pass
class Cont(Exception): pass
def ev(e,env):
    k=e['k']
    if k=='ref':
        if e['n'] in env: return env[e['n']]
        raise Unsupported('var '+e['n'])
    if k=='lit': return e['v']
    if k=='chr': return chr(e['v'])
    if k=='un' and e['op']=='!': return not ev(e['e'],env)
    if k=='bin':
        op=e['op']
        if op=='||': return ev(e['l'],env) or ev(e['r'],env)
        if op=='&&': return ev(e['l'],env) and ev(e['r'],env)
        if op in('==','!='):
            l=ev(e['l'],env); r=ev(e['r'],env)
            # comparison of abstract char class with a literal char
            if isinstance(l,str) and isinstance(r,str):
                lc=l if l in CLASSES else 'x'; rc=r if r in CLASSES else 'x'
                if lc=='x' and rc=='x': raise Unsupported('compare with non-framing literal')
                return (lc==rc) if op=='==' else (lc!=rc)
            return (l==r) if op=='==' else (l!=r)
        if op=='=':
            v=ev(e['r'],env); env[e['l']['n']]=v; return v
    if k=='idx': return env['<c>']   # buf[i]
    raise Unsupported(k+' '+str(e.get('op')))
def run(s,env,out):
    k=s['k']
    if k=='seq':
        for c in s['c']: run(c,env,out)
    elif k=='decl':
        if s['n']=='c': env['c']=env['<c>']
        else: raise Unsupported('decl '+s['n'])
    elif k=='e':
        e=s['e']
        if s.get('as') or e.get('k')=='cond': return
        if e['k']=='un' and e['op'] in('++','--') and e['e'].get('n')=='par': out.append('open' if e['op']=='++' else 'close'); return
        ev(e,env)
    elif k=='if':
        if s.get('as'): return
        c=s['cond']
        # the framing action: "if (par == 0) {...}" and "if (par < 0)" are outputs' consequences, not state
        if c.get('k')=='bin' and c['l'].get('n')=='par': return
        if ev(c,env): run(s['then'],env,out)
        elif s.get('else'): run(s['else'],env,out)
    elif k=='continue': raise Cont()
    else: raise Unsupported('stmt '+k)
flags=['inComment','inQuotedSymbol','inString']
def pipe_step(state,c):
    env=dict(zip(flags,state)); env['<c>']=c; out=[]
    try: run(body,env,out)
    except Cont: pass
    return tuple(env[f] for f in flags), (out[0] if out else None)
# ---------- lexer machine from the .ll rules ----------
ll=open('/repo/src/parsers/smt2new/smt2newlexer.ll').read()
rules=ll.split('%%')[1]
def unesc(p):
    return p.replace('\\\\','\\').replace('\\"','"').replace('\\|','|').replace('\;',';').replace('\\n','\n')
# INITIAL: recognise the framing rules
assert re.search(r'^\\;\.\*',rules,re.M), 'comment rule'
assert re.search(r'^\\"\s+\{ yy_push_state\(STR',rules,re.M)
assert re.search(r'^\\\|\s+\{ yy_push_state\(PSYM',rules,re.M)
assert re.search(r'^\[\(\)\]\s+\{ return',rules,re.M)
def block(name):
    m=re.search(r'<%s>\{(.*?)\n\}'%name,rules,re.S); assert m
    out=[]
    for line in m.group(1).strip().split('\n'):
        line=line.strip()
        if not line or line.startswith('yy_pop') or line.startswith('{'): continue
        pat=line.split()[0]; act=line[len(pat):]
        out.append((pat,act))
    return out
STR=block('STR'); PSYM=block('PSYM')
def matches1(pat,c):
    # single-char pattern match over abstract classes (conservative for 'x')
    if pat.startswith('[^'):
        excl=unesc(pat[2:-1]).replace('\\t','\t'); return c not in excl and not (c=='x' and False)
    if pat.startswith('['):
        inc=unesc(pat[1:-1]).replace('\\t','\t'); return c in inc or (c=='x' and any(ch in ' \t' for ch in inc))
    u=unesc(pat); return len(u)==1 and u==c
def excl_state(rules_,close):
    # returns transition function: state in {'S','ESC'}; on class -> (next, pop?)
    two=[unesc(p) for p,a in rules_ if len(unesc(p))==2 and not p.startswith('[')]
    def step(st,c):
        if st=='ESC':
            # previous char was a backslash that starts some two-char rule
            if any(t[0]=='\\' and t[1]==c for t in two): return ('S',False)
            # no two-char rule matched: flex matched only the backslash (by a 1-char rule or the default rule); reprocess c
            return step('S',c)
        if c=='\\' and any(t[0]=='\\' for t in two): return ('ESC',False)
        for p,a in rules_:
            if len(unesc(p))==1 or p.startswith('['):
                if matches1(p,c):
                    return ('S','yy_pop_state' in a or ('TK_' in a and 'return' in a and 'pop' in a))
        return ('S',False)   # default rule: echo & skip
    return step
str_step=excl_state(STR,'"'); psym_step=excl_state(PSYM,'|')
def lex_step(state,c):
    mode,sub=state
    if mode=='I':
        if c=='(': return ('I','S'),'open'
        if c==')': return ('I','S'),'close'
        if c==';': return ('C','S'),None
        if c=='"': return ('STR','S'),None
        if c=='|': return ('PSYM','S'),None
        return ('I','S'),None       # other tokens / whitespace / error rule: no framing effect
    if mode=='C':
        return (('I','S') if c=='\n' else ('C','S')),None
    stepf=str_step if mode=='STR' else psym_step
    nxt,pop=stepf(sub,c)
    # pop rule: the closing delimiter pattern carries yy_pop_state in the *next line* of the action block; detect by delimiter
    if sub!='ESC' or nxt=='S':
        pass
    closing='"' if mode=='STR' else '|'
    if (sub=='S' or (sub=='ESC' and nxt=='S' and not any(True for _ in []))) and c==closing and not (sub=='ESC' and any(t==('\\'+c) for t in [unesc(p) for p,a in (STR if mode=='STR' else PSYM)])):
        return ('I','S'),None
    return (mode,nxt),None
# ---------- product exploration ----------
init=((False,False,False),('I','S'))
seen={init:None}; q=collections.deque([init]); trans=0; bad=None
while q and not bad:
    s=q.popleft(); ps,ls=s
    for c in CLASSES:
        trans+=1
        pn,po=pipe_step(ps,c); ln,lo=lex_step(ls,c)
        if po!=lo:
            w=[c]; cur=s
            while seen[cur] is not None: cur,ch=seen[cur]; w.append(ch)
            bad=(list(reversed(w)),po,lo,s); break
        n=(pn,ln)
        if n not in seen: seen[n]=(s,c); q.append(n)
print('product states',len(seen),'transitions',trans)
print('counterexample' if bad else 'equivalent', bad)
