import json,glob as G,collections,sys
F={}
for p in G.glob('/tmp/proto/fdb2/*.json'):
    d=json.load(open(p))
    for f in d['functions']: F.setdefault(f['id'],f)
byname=collections.defaultdict(list)
for f in F.values(): byname[f['name']].append(f)
over=collections.defaultdict(set)
for f in F.values():
    for b in f.get('overrides',[]): over[b].add(f['id'])
def targets(n):
    fid=n.get('id'); out=[fid] if fid in F else []
    if n.get('virt') and not n.get('qual'):
        st=[fid];seen=set()
        while st:
            x=st.pop()
            for o in over.get(x,()):
                if o not in seen: seen.add(o); st.append(o); out.append(o)
    return out
def path(e):
    if not isinstance(e,dict): return None
    k=e.get('k')
    if k=='this': return 'this'
    if k=='ref': return e['n']
    if k=='mem':
        b=path(e['b']); return (b+'.' if b else '')+e['n']
    if k=='call' and e.get('op') in ('->','*') : return path(e.get('recv'))
    if k=='un' and e['op']=='*': return path(e['e'])
    return None
# base mutators: (callee qualified name prefix) optionally with receiver path
MUT={
 'opensmt::MainSolver::insertFormula','opensmt::MainSolver::addAssertion','opensmt::MainSolver::tryAddTermNameFor','opensmt::MainSolver::tryAddNamedAssertion',
 'opensmt::MainSolver::push','opensmt::MainSolver::pop','opensmt::DefinedFunctions::insert','opensmt::DefinedFunctions::pushScope','opensmt::DefinedFunctions::popScope',
 'opensmt::Logic::declareFun','opensmt::Logic::declareSortSymbol','opensmt::SMTConfig::setOption','opensmt::SMTConfig::setInfo','opensmt::Interpret::initializeLogic',
}
MUT_RECV={('this.assertions','push'),('this.user_declarations','push')}
def is_reject(n):
    f=n.get('f') or ''
    if f=='opensmt::Interpret::notify_formatted':
        a=n.get('a',[])
        return bool(a) and a[0].get('k')=='lit' and a[0].get('v') is True
    return f=='opensmt::Interpret::reportError'
def is_mut(n):
    f=n.get('f') or ''
    if f in MUT: return f
    r=path(n.get('recv')) if n.get('recv') else None
    if r and (r,f.split('::')[-1]) in MUT_RECV: return r+'.'+f.split('::')[-1]
    return None
# summaries: M may mutate; R may reject; MR may (mutate then reject); T may throw (approx: has throw or calls T fn not caught)
S={i:{'M':set(),'R':False,'MR':[], 'MT':False,'T':False} for i in F}
SCOPE=[i for i,f in F.items() if f['name'].startswith(('opensmt::Interpret::','opensmt::MainSolver::','opensmt::Logic::','opensmt::ArithLogic::','opensmt::SMTConfig::','opensmt::DefinedFunctions::','opensmt::TermNames::','opensmt::PtStore::','opensmt::LetRecords'))]
def analyse(i):
    f=F[i]; res={'M':set(),'R':False,'MR':[], 'MT':False,'T':False}
    lams=f.get('lambdas',[])
    # state: set of dirty sites (frozenset); returns set of states at exit
    def ev_expr(e,st,hs):
        # evaluate calls inside expression in (approx) evaluation order: args first then call
        if isinstance(e,list):
            for x in e: st=ev_expr(x,st,hs)
            return st
        if not isinstance(e,dict): return st
        k=e.get('k')
        if k=='lambda': return st   # lambdas analysed when invoked: approximated as not executed here
        if k=='throw':
            res['T']=True
            if st: res['MT']=True
            return st
        for key in ('recv','a','l','r','e','b','i','c','t','f','callee','init'):
            v=e.get(key)
            if isinstance(v,(dict,list)) and not (k=='call' and key=='f'): st=ev_expr(v,st,hs)
        if k=='call' and not e.get('as'):
            m=is_mut(e)
            if is_reject(e):
                res['R']=True
                if st: res['MR'].append((e.get('ln'),sorted(st)))
            if m:
                st=st|{'%s@%s'%(m,e.get('ln'))}; res['M'].add(m)
            for t in targets(e):
                if t==i or t not in S: continue
                s=S[t]
                if s['R'] and st: res['MR'].append((e.get('ln'),sorted(st)+['(reject inside %s)'%F[t]['name']]))
                if s['MR']: res['MR'].append((e.get('ln'),['(inside %s: %s)'%(F[t]['name'],s['MR'][0])]))
                if s['R']: res['R']=True
                if s['M']:
                    st=st|{'%s@%s'%(F[t]['name'].split('::')[-1],e.get('ln'))}; res['M']|=s['M']
                if s['T']:
                    # may throw: if an enclosing handler reports -> reject event with current st (+callee MT)
                    caught=False
                    for hl in hs:
                        for (ht,hrej) in hl:
                            caught=True
                            if hrej and (st or s['MT']): res['MR'].append((e.get('ln'),sorted(st)+(['(mutate-then-throw in %s)'%F[t]['name']] if s['MT'] else [])+['-> catch reports']))
                    if not caught:
                        res['T']=True
                        if st or s['MT']: res['MT']=True
        return st
    def handler_rejects(h):
        found=[False]
        def w(n):
            if isinstance(n,list):
                for x in n: w(x)
            elif isinstance(n,dict):
                if n.get('k')=='call' and is_reject(n): found[0]=True
                for v in n.values():
                    if isinstance(v,(dict,list)): w(v)
        w(h['body']); return found[0]
    def ev(s,st,hs):
        if s is None: return st
        k=s['k']
        if k=='seq':
            for c in s['c']: st=ev(c,st,hs)
            return st
        if k in ('e','ret'): return ev_expr(s.get('e'),st,hs)
        if k=='decl': return ev_expr(s.get('init'),st,hs)
        if k=='if':
            st=ev_expr(s.get('cond'),st,hs)
            a=ev(s.get('then'),st,hs); b=ev(s.get('else'),st,hs) if s.get('else') else st
            return a|b
        if k=='loop':
            st=ev_expr(s.get('cond'),st,hs); 
            for _ in range(2):
                st=st|ev(s.get('body'),st,hs); st=ev_expr(s.get('cond'),st,hs)
            return st
        if k=='switch':
            st=ev_expr(s.get('cond'),st,hs)
            body=s['body']; out=st
            if body and body['k']=='seq':
                for c in body['c']: out=out|ev(c,st,hs)   # each case from switch entry state (no fallthrough modelling)
            return out
        if k in ('case','default','label'): return ev(s.get('body'),st,hs)
        if k=='try':
            hl=[(h['t'],handler_rejects(h)) for h in s['h']]
            a=ev(s['body'],st,hs+[hl])
            for h in s['h']: a=a|ev(h['body'],a,hs)
            return a
        return st
    ev(f['body'],frozenset(),[])
    return res
changed=True;it=0
while changed and it<12:
    changed=False;it+=1
    for i in SCOPE:
        r=analyse(i)
        key=(frozenset(r['M']),r['R'],len(r['MR'])>0,r['MT'],r['T'])
        old=S[i]; okey=(frozenset(old['M']),old['R'],len(old['MR'])>0,old['MT'],old['T'])
        if key!=okey: changed=True
        S[i]=r
print('iterations',it)
for nm in ['opensmt::Interpret::interp','opensmt::Interpret::pop','opensmt::Interpret::push','opensmt::Interpret::parseTerm','opensmt::Interpret::defineFun','opensmt::Interpret::declareFun','opensmt::Interpret::declareConst','opensmt::Interpret::checkSat','opensmt::Interpret::getValue','opensmt::Interpret::getInterpolants','opensmt::Interpret::setOption']:
    for f in byname[nm]:
        s=S[f['id']]
        print('==',nm,'M=',sorted(x.split('::')[-1] for x in s['M']),'R=',s['R'],'T=',s['T'],'MT=',s['MT'])
        seen=set()
        for ln,why in s['MR']:
            k=(ln,tuple(why))
            if k in seen: continue
            seen.add(k); print('   reject@%s after %s'%(ln,why))
