#include <common/numbers/FastRational.h>
using namespace opensmt;
// force emission of the inline word-path functions
void use_all(FastRational & d, FastRational const & a, FastRational const & b) {
  addition(d,a,b); subtraction(d,a,b); multiplication(d,a,b); division(d,a,b);
  additionAssign(d,a); subtractionAssign(d,a); multiplicationAssign(d,a); divisionAssign(d,a);
  d = a.inverse(); d = -a; d.negate(); (void)a.compare(b); d = a.ceil(); d = a.floor();
  FastRational x(3, 4u); (void)x;
}
