import json,glob,sys,collections,time
t0=time.time()
F={}; R={}
for p in glob.glob('/tmp/proto/fdb/*.json'):
    d=json.load(open(p))
    for f in d['functions']: F.setdefault(f['id'],f)
    for r in d['records']: R.setdefault(r['name'],r)
print('functions',len(F),'records',len(R),'load %.1fs'%(time.time()-t0))
# overriders
over=collections.defaultdict(set)
for f in F.values():
    for b in f.get('overrides',[]): over[b].add(f['id'])
def all_over(i,seen=None):
    seen=seen or set()
    for o in over.get(i,()):
        if o not in seen: seen.add(o); all_over(o,seen)
    return seen
STD={'std::runtime_error':'std::exception','std::logic_error':'std::exception','std::out_of_range':'std::logic_error','std::invalid_argument':'std::logic_error','std::overflow_error':'std::runtime_error','std::underflow_error':'std::runtime_error','std::bad_alloc':'std::exception'}
def norm(t): return t.replace('class ','').replace('struct ','').replace('const ','').strip()
def bases(t):
    t=norm(t); out=[t]
    while True:
        if t in STD: t=STD[t]; out.append(t); continue
        r=R.get(t) or R.get('opensmt::'+t)
        if r and r['bases']: t=norm(r['bases'][0]); out.append(t); continue
        break
    return out
def caught(t,handlers):
    if '...' in handlers: return True
    bs=bases(t)
    # private inheritance not modelled in prototype
    return any(norm(h) in bs or ('opensmt::'+norm(h)) in bs for h in handlers)
LIBTHROW={'std::stoi':['std::invalid_argument','std::out_of_range'],'std::stoul':['std::invalid_argument','std::out_of_range'],'std::stol':['std::invalid_argument','std::out_of_range']}
# collect per function: list of (kind, payload, handlerstack)
def walk(n,hs,out,lams):
    if n is None: return
    if isinstance(n,list):
        for x in n: walk(x,hs,out,lams)
        return
    if not isinstance(n,dict): return
    k=n.get('k')
    if k=='try':
        hts=[h['t'] for h in n['h']]
        walk(n['body'],hs+[hts],out,lams)
        for h in n['h']: walk(h['body'],hs,out,lams)
        return
    if k=='throw':
        out.append(('throw',n['t'],hs,n.get('ln')))
    if k=='call':
        fid=n.get('id')
        if fid: out.append(('call',(fid,n.get('virt') and not n.get('qual'),n.get('f')),hs,n.get('ln')))
        fn=n.get('f') or ''
        if fn and any(fn.startswith(p) for p in LIBTHROW):
            for p,ts in LIBTHROW.items():
                if fn.startswith(p):
                    for t in ts: out.append(('throw',t,hs,n.get('ln')))
        if fn.endswith('::at'):
            out.append(('throw','std::out_of_range',hs,n.get('ln')))
    if k=='new' and n.get('id'): out.append(('call',(n['id'],False,n.get('t')),hs,n.get('ln')))
    if k=='lambda': walk(lams[n['id']]['body'],hs,out,lams)
    for key,v in n.items():
        if key in ('k',): continue
        if isinstance(v,(dict,list)): walk(v,hs,out,lams)
EV={}
for i,f in F.items():
    out=[]; walk(f['body'],[],out,f.get('lambdas',[])); 
    for ini in f.get('inits',[]): walk(ini['e'],[],out,f.get('lambdas',[]))
    EV[i]=out
esc={i:{} for i in F}   # type -> witness (line, via)
changed=True; it=0
while changed:
    changed=False; it+=1
    for i,evs in EV.items():
        for kind,pl,hs,ln in evs:
            if kind=='throw':
                if pl=='<rethrow>': continue
                ts=[(pl,None)]
            else:
                fid,virt,name=pl
                tg=[fid]+(list(all_over(fid)) if virt else [])
                ts=[]
                for g in tg:
                    for t in esc.get(g,{}): ts.append((t,g))
            for t,via in ts:
                if any(caught(t,h) for h in hs): continue
                if t not in esc[i]:
                    esc[i][t]=(ln,via); changed=True
print('fixpoint iterations',it,'%.1fs'%(time.time()-t0))
def chain(i,t,depth=0):
    out=[]
    while i is not None and depth<25:
        ln,via=esc[i][t]; out.append('%s:%s'%(F[i]['name'],ln)); i=via; depth+=1
    return ' -> '.join(out)
for name in ['main','opensmt::Interpret::interp','opensmt::Interpret::interpPipe','opensmt::MainSolver::check']:
    for i,f in F.items():
        if f['name']==name:
            print('==',name,sorted(esc[i]))
            for t in sorted(esc[i]): print('   ',t,':',chain(i,t))
