#!/bin/sh
o=/tmp/proto/fdb2/$(echo $1 | tr / _)
/tmp/proto/facts2 -o $o.json $1 -- -std=gnu++20 -I/repo/src -I/repo/_build/src/parsers/smt2new -I/repo/src/parsers/smt2new -UNDEBUG '-DOPENSMT_GIT_DESCRIPTION="x"' -Wno-everything -resource-dir /usr/lib/llvm-14/lib/clang/14.0.6 2>$o.err || echo FAIL $1
