import json,glob,collections
F={};G={}
for p in glob.glob('/tmp/proto/fdb2/*.json'):
    d=json.load(open(p))
    for f in d['functions']: F.setdefault(f['id'],f)
    for g in d['globals']: G.setdefault(g['name'],g)
print('globals',len(G))
cand={n:g for n,g in G.items() if not g['const'] and not g['constexpr']}
print('non-const non-constexpr',len(cand), 'tls',sum(1 for g in cand.values() if g['tls']))
def root(e):
    # return global name if access path rooted at a global ref
    while isinstance(e,dict):
        k=e.get('k')
        if k=='ref': return e['n'] if e.get('d')=='global' else None
        if k=='mem': e=e['b']; continue
        if k=='idx': e=e['b']; continue
        if k=='cast': e=e['e']; continue
        if k=='un' and e['op'] in ('*','&'): e=e['e']; continue
        return None
    return None
muts=collections.defaultdict(list)
ASSIGN={'=','+=','-=','*=','/=','|=','&=','^=','<<=','>>=','%='}
def walk(n,fn,lams):
    if isinstance(n,list):
        for x in n: walk(x,fn,lams)
        return
    if not isinstance(n,dict): return
    k=n.get('k')
    if k=='bin' and n['op'] in ASSIGN:
        r=root(n['l'])
        if r: muts[r].append((fn,n.get('ln'),'assign'))
    if k=='un' and n['op'] in ('++','--'):
        r=root(n['e'])
        if r: muts[r].append((fn,None,'incdec'))
    if k=='call':
        if n.get('recv') is not None and not n.get('mc') and not n.get('ms'):
            r=root(n['recv'])
            if r: muts[r].append((fn,n.get('ln'),'nonconst-call '+str(n.get('f'))))
        for a,pt in zip(n.get('a',[]),n.get('pt',[])):
            r=root(a)
            if r and ('&' in pt or '*' in pt) and 'const' not in pt:
                muts[r].append((fn,n.get('ln'),'nonconst-arg to '+str(n.get('f'))))
    if k=='lambda': walk(lams[n['id']]['body'],fn,lams)
    for key,v in n.items():
        if isinstance(v,(dict,list)): walk(v,fn,lams)
for f in F.values():
    walk(f['body'],f['name'],f.get('lambdas',[]))
    for ini in f.get('inits',[]): walk(ini['e'],f['name'],f.get('lambdas',[]))
rep=[]
for n,g in sorted(cand.items()):
    if n in muts:
        rep.append((n,g))
print('with mutating use outside own initializer:',len(rep))
for n,g in rep:
    ms=muts[n]
    print('%-60s %-28s tls=%s  %s:%s'%(n,g['t'][:28],g['tls'],g['file'].replace('/repo/src/',''),g['line']))
    for m in ms[:3]: print('      ',m)
