import json,glob as G,collections
F={}
for p in G.glob('/tmp/proto/fdb2/*.json'):
    d=json.load(open(p))
    for f in d['functions']: F.setdefault(f['id'],f)
over=collections.defaultdict(set)
for f in F.values():
    for b in f.get('overrides',[]): over[b].add(f['id'])
SCOPE={i for i,f in F.items() if f['name'].startswith(('opensmt::CoreSMTSolver::','opensmt::SimpSMTSolver::','opensmt::LookaheadSMTSolver::','opensmt::GhostSMTSolver::'))}
def cname(n): return (n.get('f') or '')
EVENT={'opensmt::ResolutionProof::beginChain':'begin','opensmt::ResolutionProof::addResolutionStep':'step','opensmt::ResolutionProof::endChain':'end'}
# predicate partial evaluation under "proof logging is on"
def pe(e,env):
    """returns True/False/None"""
    if e is None: return None
    k=e.get('k')
    if k=='call':
        f=cname(e)
        if f.endswith('::logsResolutionProof'): return True
        return None
    if k=='ref':
        return env.get(e['n'])
    if k=='un' and e['op']=='!':
        v=pe(e['e'],env); return None if v is None else (not v)
    if k=='bin' and e['op'] in('&&','||'):
        l=pe(e['l'],env); r=pe(e['r'],env)
        if e['op']=='&&':
            if l is False or r is False: return False
            if l is True and r is True: return True
            return None
        else:
            if l is True or r is True: return True
            if l is False and r is False: return False
            return None
    return None
ERR=[]
# summary: map from entry state -> set of exit states ; states: 'C' closed, 'O' open
S={i:{'C':{'C'},'O':{'O'}} for i in SCOPE}
def targets(n):
    fid=n.get('id'); out=[fid] if fid in SCOPE else []
    if n.get('virt') and not n.get('qual'):
        st=[fid];seen=set()
        while st:
            x=st.pop()
            for o in over.get(x,()):
                if o not in seen and o in SCOPE: seen.add(o); st.append(o); out.append(o)
    return out
def analyse(i,report):
    f=F[i]; lams=f.get('lambdas',[])
    exits=set()
    def ex(e,sts,env):
        if isinstance(e,list):
            for x in e: sts=ex(x,sts,env)
            return sts
        if not isinstance(e,dict): return sts
        k=e.get('k')
        if k=='lambda':
            return sts
        if k=='bin' and e['op'] in ('&&','||'):
            sts=ex(e['l'],sts,env)
            l=pe(e['l'],env)
            if (e['op']=='&&' and l is False) or (e['op']=='||' and l is True): return sts
            return sts|ex(e['r'],sts,env) if l is None else ex(e['r'],sts,env)
        if k=='cond':
            sts=ex(e['c'],sts,env); c=pe(e['c'],env)
            a=ex(e['t'],sts,env) if c is not False else set(); b=ex(e['f'],sts,env) if c is not True else set()
            return a|b
        for key in ('recv','a','l','r','e','b','i','init','callee'):
            v=e.get(key)
            if isinstance(v,(dict,list)): sts=ex(v,sts,env)
        if k=='call' and not e.get('as'):
            ev=EVENT.get(cname(e))
            if ev:
                out=set()
                for s in sts:
                    if ev=='begin':
                        if s=='O': report and ERR.append((f['name'],e['ln'],'beginChain while a chain is open'))
                        out.add('O')
                    elif ev=='step':
                        if s=='C': report and ERR.append((f['name'],e['ln'],'addResolutionStep with no open chain'))
                        out.add('O')
                    else:
                        if s=='C': report and ERR.append((f['name'],e['ln'],'endChain with no open chain'))
                        out.add('C')
                return out
            ts=targets(e)
            if ts:
                out=set()
                for t in ts:
                    for s in sts: out|=S[t][s]
                return out
        return sts
    def st(s,sts,env):
        if s is None or not sts: return sts
        k=s['k']
        if k=='seq':
            for c in s['c']: sts=st(c,sts,env)
            return sts
        if k=='e': return ex(s['e'],sts,env)
        if k=='decl':
            sts=ex(s.get('init'),sts,env)
            if s['t']=='bool': env[s['n']]=pe(s.get('init'),env)
            return sts
        if k=='ret':
            sts=ex(s.get('e'),sts,env); exits.update(sts); return set()
        if k=='if':
            if s.get('as'): return sts
            sts=ex(s['cond'],sts,env); c=pe(s['cond'],env)
            a=st(s['then'],set(sts),dict(env)) if c is not False else set()
            b=(st(s['else'],set(sts),dict(env)) if s.get('else') else set(sts)) if c is not True else set()
            return a|b
        if k=='loop':
            sts=st(s.get('init'),sts,env) if isinstance(s.get('init'),dict) and s['init'].get('k') in('decl','seq','e') else sts
            acc=set(sts)
            for _ in range(3):
                cur=ex(s.get('cond'),set(acc),env) if s.get('cond') else set(acc)
                body=st(s['body'],set(cur),dict(env))
                body=ex(s.get('inc'),body,env) if s.get('inc') else body
                new=acc|body|cur
                if new==acc: break
                acc=new
            return acc
        if k=='switch':
            sts=ex(s['cond'],sts,env); out=set(sts)
            b=s['body']
            if b and b['k']=='seq':
                for c in b['c']: out|=st(c,set(sts),dict(env))
            return out
        if k in('case','default','label'): return st(s.get('body'),sts,env)
        if k=='try':
            a=st(s['body'],set(sts),dict(env))
            for h in s['h']: a|=st(h['body'],set(sts)|a,dict(env))
            return a
        if k in('break','continue','goto'): return sts   # coarse: treated as fallthrough (over-approx of states)
        return sts
    res={}
    for entry in ('C','O'):
        exits.clear()
        out=st(f['body'],{entry},{})
        res[entry]=set(exits)|set(out)
        if not res[entry]: res[entry]={entry}
    return res
changed=True;it=0
while changed and it<15:
    changed=False;it+=1
    for i in SCOPE:
        r=analyse(i,False)
        if r!=S[i]: S[i]=r; changed=True
print('rounds',it)
for i in SCOPE:
    if S[i]!={'C':{'C'},'O':{'O'}}: print('%-70s C->%s O->%s'%(F[i]['name'],sorted(S[i]['C']),sorted(S[i]['O'])))
# report pass: entry state closed for API-level functions
ERR.clear()
for i in SCOPE: 
    analyse(i,True)
seen=set()
for e in ERR:
    if e not in seen: seen.add(e); print('ERR',e)
