// Throw-away prototype of the osmt-facts extractor: structured mini-AST per function as JSON.
#include "clang/AST/ASTConsumer.h"
#include "clang/AST/ASTContext.h"
#include "clang/AST/DeclCXX.h"
#include "clang/AST/DeclTemplate.h"
#include "clang/AST/ExprCXX.h"
#include "clang/AST/Mangle.h"
#include "clang/AST/RecursiveASTVisitor.h"
#include "clang/AST/StmtCXX.h"
#include "clang/Frontend/CompilerInstance.h"
#include "clang/Frontend/FrontendAction.h"
#include "clang/Lex/Lexer.h"
#include "clang/Tooling/CommonOptionsParser.h"
#include "clang/Tooling/Tooling.h"
#include "llvm/Support/CommandLine.h"
#include "llvm/Support/JSON.h"
#include "llvm/Support/raw_ostream.h"
#include <set>
using namespace clang;
using namespace clang::tooling;
namespace json = llvm::json;
static llvm::cl::OptionCategory Cat("facts");
static llvm::cl::opt<std::string> OutFile("o", llvm::cl::desc("output json"), llvm::cl::cat(Cat));
static llvm::cl::opt<std::string> Root("root", llvm::cl::init("/repo/src"), llvm::cl::cat(Cat));

struct Conv {
    ASTContext & C;
    SourceManager & SM;
    std::unique_ptr<MangleContext> MC;
    json::Array lambdas;
    Conv(ASTContext & C) : C(C), SM(C.getSourceManager()), MC(C.createMangleContext()) {}

    std::string ty(QualType T) { return T.getAsString(C.getPrintingPolicy()); }
    int line(SourceLocation L) { return SM.getExpansionLineNumber(L); }
    std::string file(SourceLocation L) { return SM.getFilename(SM.getExpansionLoc(L)).str(); }
    bool inAssert(SourceLocation L) {
        while (L.isMacroID()) {
            StringRef n = Lexer::getImmediateMacroName(L, SM, C.getLangOpts());
            if (n == "assert") return true;
            L = SM.getImmediateMacroCallerLoc(L);
        }
        return false;
    }
    std::string mangled(const FunctionDecl * FD) {
        std::string s;
        llvm::raw_string_ostream os(s);
        if (isa<CXXConstructorDecl>(FD) || isa<CXXDestructorDecl>(FD)) return FD->getQualifiedNameAsString() + "#" + ty(FD->getType());
        if (MC->shouldMangleDeclName(FD)) { MC->mangleName(GlobalDecl(FD), os); return os.str(); }
        return FD->getQualifiedNameAsString();
    }
    json::Value expr(const Expr * E) {
        if (!E) return nullptr;
        E = E->IgnoreParenImpCasts();
        if (auto * X = dyn_cast<ExprWithCleanups>(E)) return expr(X->getSubExpr());
        if (auto * X = dyn_cast<CXXBindTemporaryExpr>(E)) return expr(X->getSubExpr());
        if (auto * X = dyn_cast<MaterializeTemporaryExpr>(E)) return expr(X->getSubExpr());
        if (auto * X = dyn_cast<CXXFunctionalCastExpr>(E)) return expr(X->getSubExpr());
        if (auto * X = dyn_cast<ExplicitCastExpr>(E))
            return json::Object{{"k", "cast"}, {"to", ty(X->getType())}, {"e", expr(X->getSubExpr())}};
        if (isa<CXXThisExpr>(E)) return json::Object{{"k", "this"}};
        if (auto * X = dyn_cast<DeclRefExpr>(E)) {
            const ValueDecl * D = X->getDecl();
            std::string kind = "other";
            if (auto * V = dyn_cast<VarDecl>(D)) kind = isa<ParmVarDecl>(V) ? "param" : V->hasGlobalStorage() ? "global" : "local";
            else if (isa<FunctionDecl>(D)) kind = "func";
            else if (isa<EnumConstantDecl>(D)) kind = "enum";
            return json::Object{{"k", "ref"}, {"n", kind == "local" || kind == "param" ? D->getNameAsString() : D->getQualifiedNameAsString()}, {"d", kind}, {"t", ty(D->getType())}};
        }
        if (auto * X = dyn_cast<MemberExpr>(E))
            return json::Object{{"k", "mem"}, {"b", expr(X->getBase())}, {"n", X->getMemberDecl()->getNameAsString()}, {"t", ty(X->getType())}};
        if (auto * X = dyn_cast<IntegerLiteral>(E)) return json::Object{{"k", "lit"}, {"v", (int64_t)X->getValue().getLimitedValue()}};
        if (auto * X = dyn_cast<CharacterLiteral>(E)) return json::Object{{"k", "chr"}, {"v", (int64_t)X->getValue()}};
        if (auto * X = dyn_cast<CXXBoolLiteralExpr>(E)) return json::Object{{"k", "lit"}, {"v", X->getValue()}};
        if (auto * X = dyn_cast<StringLiteral>(E)) return json::Object{{"k", "str"}, {"v", X->getBytes().str()}};
        if (auto * X = dyn_cast<UnaryOperator>(E))
            return json::Object{{"k", "un"}, {"op", UnaryOperator::getOpcodeStr(X->getOpcode()).str()}, {"e", expr(X->getSubExpr())}};
        if (auto * X = dyn_cast<BinaryOperator>(E))
            return json::Object{{"k", "bin"}, {"op", X->getOpcodeStr().str()}, {"l", expr(X->getLHS())}, {"r", expr(X->getRHS())}, {"ln", line(X->getOperatorLoc())}};
        if (auto * X = dyn_cast<ConditionalOperator>(E))
            return json::Object{{"k", "cond"}, {"c", expr(X->getCond())}, {"t", expr(X->getTrueExpr())}, {"f", expr(X->getFalseExpr())}};
        if (auto * X = dyn_cast<ArraySubscriptExpr>(E)) return json::Object{{"k", "idx"}, {"b", expr(X->getBase())}, {"i", expr(X->getIdx())}};
        if (auto * X = dyn_cast<LambdaExpr>(E)) {
            int id = lambdas.size();
            lambdas.push_back(nullptr);
            json::Value b = stmt(X->getBody());
            lambdas[id] = json::Object{{"id", id}, {"line", line(X->getBeginLoc())}, {"body", std::move(b)}};
            return json::Object{{"k", "lambda"}, {"id", id}};
        }
        if (auto * X = dyn_cast<InitListExpr>(E)) {
            json::Array a;
            for (auto * I : X->inits()) a.push_back(expr(I));
            return json::Object{{"k", "init"}, {"t", ty(X->getType())}, {"e", std::move(a)}};
        }
        if (auto * X = dyn_cast<CXXStdInitializerListExpr>(E)) return expr(X->getSubExpr());
        if (auto * X = dyn_cast<CXXConstructExpr>(E)) {
            json::Array a;
            for (auto * I : X->arguments()) if (!isa<CXXDefaultArgExpr>(I)) a.push_back(expr(I));
            if (X->getConstructor()->isCopyOrMoveConstructor() && a.size() == 1) return std::move(a[0]);
            return json::Object{{"k", "new"}, {"t", ty(X->getType())}, {"id", mangled(X->getConstructor())}, {"a", std::move(a)}, {"ln", line(X->getBeginLoc())}};
        }
        if (auto * X = dyn_cast<CXXThrowExpr>(E))
            return json::Object{{"k", "throw"}, {"t", X->getSubExpr() ? ty(X->getSubExpr()->getType().getNonReferenceType().getUnqualifiedType()) : std::string("<rethrow>")}, {"ln", line(X->getThrowLoc())}};
        if (auto * X = dyn_cast<CallExpr>(E)) {
            json::Object o{{"k", "call"}, {"ln", line(X->getBeginLoc())}};
            if (inAssert(X->getBeginLoc())) o["as"] = true;
            const FunctionDecl * FD = X->getDirectCallee();
            unsigned firstArg = 0;
            if (FD) {
                o["f"] = FD->getQualifiedNameAsString();
                o["id"] = mangled(FD);
                if (auto * MD = dyn_cast<CXXMethodDecl>(FD)) if (MD->isVirtual()) o["virt"] = true;
            } else {
                o["f"] = nullptr;
                o["callee"] = expr(X->getCallee());
            }
            if (auto * M = dyn_cast<CXXMemberCallExpr>(X)) {
                o["recv"] = expr(M->getImplicitObjectArgument());
                if (auto * ME = dyn_cast<MemberExpr>(M->getCallee()->IgnoreParenImpCasts()))
                    if (ME->hasQualifier()) o["qual"] = true; // Base::method() form: non-virtual dispatch
            } else if (auto * O = dyn_cast<CXXOperatorCallExpr>(X)) {
                o["op"] = getOperatorSpelling(O->getOperator());
                if (FD && isa<CXXMethodDecl>(FD) && O->getNumArgs() > 0) { o["recv"] = expr(O->getArg(0)); firstArg = 1; }
            }
            json::Array a;
            for (unsigned i = firstArg; i < X->getNumArgs(); ++i)
                if (!isa<CXXDefaultArgExpr>(X->getArg(i))) a.push_back(expr(X->getArg(i)));
            o["a"] = std::move(a);
            return std::move(o);
        }
        if (auto * X = dyn_cast<CXXNewExpr>(E)) return json::Object{{"k", "heapnew"}, {"t", ty(X->getAllocatedType())}, {"e", expr(X->getConstructExpr())}};
        if (auto * X = dyn_cast<CXXDeleteExpr>(E)) return json::Object{{"k", "delete"}, {"e", expr(X->getArgument())}};
        // generic fallback: keep children so nested calls are not lost
        json::Array ch;
        for (const Stmt * S : E->children()) if (auto * CE = dyn_cast_or_null<Expr>(S)) ch.push_back(expr(CE));
        return json::Object{{"k", "x"}, {"cls", E->getStmtClassName()}, {"c", std::move(ch)}};
    }
    json::Value stmt(const Stmt * S) {
        if (!S) return nullptr;
        if (auto * X = dyn_cast<CompoundStmt>(S)) {
            json::Array a;
            for (auto * c : X->body()) a.push_back(stmt(c));
            return json::Object{{"k", "seq"}, {"c", std::move(a)}};
        }
        if (auto * X = dyn_cast<IfStmt>(S)) {
            json::Object o{{"k", "if"}, {"ln", line(X->getIfLoc())}, {"cond", expr(X->getCond())}, {"then", stmt(X->getThen())}, {"else", stmt(X->getElse())}};
            if (X->getInit()) o["init"] = stmt(X->getInit());
            if (X->getConditionVariableDeclStmt()) o["cvar"] = stmt(X->getConditionVariableDeclStmt());
            if (inAssert(X->getIfLoc())) o["as"] = true;
            return std::move(o);
        }
        if (auto * X = dyn_cast<WhileStmt>(S)) return json::Object{{"k", "loop"}, {"kind", "while"}, {"ln", line(X->getWhileLoc())}, {"cond", expr(X->getCond())}, {"body", stmt(X->getBody())}};
        if (auto * X = dyn_cast<DoStmt>(S)) return json::Object{{"k", "loop"}, {"kind", "do"}, {"ln", line(X->getDoLoc())}, {"cond", expr(X->getCond())}, {"body", stmt(X->getBody())}};
        if (auto * X = dyn_cast<ForStmt>(S)) return json::Object{{"k", "loop"}, {"kind", "for"}, {"ln", line(X->getForLoc())}, {"init", stmt(X->getInit())}, {"cond", expr(X->getCond())}, {"inc", expr(X->getInc())}, {"body", stmt(X->getBody())}};
        if (auto * X = dyn_cast<CXXForRangeStmt>(S)) return json::Object{{"k", "loop"}, {"kind", "range"}, {"ln", line(X->getForLoc())}, {"var", X->getLoopVariable()->getNameAsString()}, {"vt", ty(X->getLoopVariable()->getType())}, {"range", expr(X->getRangeInit())}, {"body", stmt(X->getBody())}};
        if (auto * X = dyn_cast<SwitchStmt>(S)) return json::Object{{"k", "switch"}, {"ln", line(X->getSwitchLoc())}, {"cond", expr(X->getCond())}, {"body", stmt(X->getBody())}};
        if (auto * X = dyn_cast<CaseStmt>(S)) return json::Object{{"k", "case"}, {"v", expr(X->getLHS())}, {"body", stmt(X->getSubStmt())}};
        if (auto * X = dyn_cast<DefaultStmt>(S)) return json::Object{{"k", "default"}, {"body", stmt(X->getSubStmt())}};
        if (auto * X = dyn_cast<CXXTryStmt>(S)) {
            json::Array h;
            for (unsigned i = 0; i < X->getNumHandlers(); ++i) {
                auto * H = X->getHandler(i);
                h.push_back(json::Object{{"t", H->getExceptionDecl() ? ty(H->getCaughtType().getNonReferenceType().getUnqualifiedType()) : std::string("...")}, {"body", stmt(H->getHandlerBlock())}});
            }
            return json::Object{{"k", "try"}, {"ln", line(X->getTryLoc())}, {"body", stmt(X->getTryBlock())}, {"h", std::move(h)}};
        }
        if (auto * X = dyn_cast<ReturnStmt>(S)) return json::Object{{"k", "ret"}, {"ln", line(X->getReturnLoc())}, {"e", expr(X->getRetValue())}};
        if (isa<BreakStmt>(S)) return json::Object{{"k", "break"}};
        if (isa<ContinueStmt>(S)) return json::Object{{"k", "continue"}};
        if (auto * X = dyn_cast<GotoStmt>(S)) return json::Object{{"k", "goto"}, {"l", X->getLabel()->getNameAsString()}};
        if (auto * X = dyn_cast<LabelStmt>(S)) return json::Object{{"k", "label"}, {"l", X->getName()}, {"body", stmt(X->getSubStmt())}};
        if (auto * X = dyn_cast<DeclStmt>(S)) {
            json::Array a;
            for (auto * D : X->decls())
                if (auto * V = dyn_cast<VarDecl>(D)) {
                    json::Object o{{"k", "decl"}, {"n", V->getNameAsString()}, {"t", ty(V->getType())}, {"ln", line(V->getLocation())}, {"init", expr(V->getInit())}};
                    if (V->isStaticLocal()) o["static"] = true;
                    a.push_back(std::move(o));
                }
            if (a.size() == 1) return std::move(a[0]);
            return json::Object{{"k", "seq"}, {"c", std::move(a)}};
        }
        if (isa<NullStmt>(S)) return json::Object{{"k", "seq"}, {"c", json::Array{}}};
        if (auto * X = dyn_cast<AttributedStmt>(S)) return stmt(X->getSubStmt());
        if (auto * X = dyn_cast<Expr>(S)) {
            json::Object o{{"k", "e"}, {"e", expr(X)}};
            if (inAssert(X->getBeginLoc())) o["as"] = true;
            return std::move(o);
        }
        return json::Object{{"k", "stmt?"}, {"cls", S->getStmtClassName()}};
    }
};

struct V : RecursiveASTVisitor<V> {
    ASTContext & C;
    SourceManager & SM;
    json::Array funcs, records, globals, enums;
    std::set<std::string> seenF, seenR;
    V(ASTContext & C) : C(C), SM(C.getSourceManager()) {}
    bool shouldVisitTemplateInstantiations() const { return true; }
    bool shouldVisitImplicitCode() const { return false; }
    bool inRoot(SourceLocation L) { return SM.getFilename(SM.getExpansionLoc(L)).startswith(Root); }
    bool VisitFunctionDecl(FunctionDecl * D) {
        if (!D->doesThisDeclarationHaveABody() || !inRoot(D->getLocation())) return true;
        if (D->isDependentContext()) return true; // only instantiations / non-templates
        Conv cv(C);
        std::string id = cv.mangled(D);
        if (!seenF.insert(id).second) return true;
        json::Object o{{"name", D->getQualifiedNameAsString()}, {"id", id}, {"file", cv.file(D->getLocation())}, {"line", cv.line(D->getLocation())}, {"ret", cv.ty(D->getReturnType())}};
        json::Array ps;
        for (auto * P : D->parameters()) ps.push_back(json::Object{{"n", P->getNameAsString()}, {"t", cv.ty(P->getType())}});
        o["params"] = std::move(ps);
        if (auto * M = dyn_cast<CXXMethodDecl>(D)) {
            o["class"] = M->getParent()->getQualifiedNameAsString();
            if (M->isVirtual()) o["virtual"] = true;
            if (M->isConst()) o["const"] = true;
            json::Array ov;
            for (auto * B : M->overridden_methods()) ov.push_back(cv.mangled(B));
            if (!ov.empty()) o["overrides"] = std::move(ov);
        }
        if (auto * CD = dyn_cast<CXXConstructorDecl>(D)) {
            json::Array inits;
            for (auto * I : CD->inits())
                if (I->isWritten()) inits.push_back(json::Object{{"m", I->getMember() ? I->getMember()->getNameAsString() : std::string("<base>")}, {"e", cv.expr(I->getInit())}});
            o["inits"] = std::move(inits);
        }
        o["body"] = cv.stmt(D->getBody());
        o["lambdas"] = std::move(cv.lambdas);
        funcs.push_back(std::move(o));
        return true;
    }
    bool VisitCXXRecordDecl(CXXRecordDecl * D) {
        if (!D->isThisDeclarationADefinition() || !inRoot(D->getLocation()) || D->isDependentContext() || D->isLambda()) return true;
        Conv cv(C);
        std::string n = D->getQualifiedNameAsString();
        if (auto * S = dyn_cast<ClassTemplateSpecializationDecl>(D)) { llvm::raw_string_ostream os(n); n.clear(); S->getNameForDiagnostic(os, C.getPrintingPolicy(), true); }
        if (!seenR.insert(n).second) return true;
        json::Array bases, fields;
        for (auto & B : D->bases()) bases.push_back(cv.ty(B.getType()));
        for (auto * F : D->fields()) fields.push_back(json::Object{{"n", F->getNameAsString()}, {"t", cv.ty(F->getType())}, {"ct", cv.ty(F->getType().getCanonicalType())}, {"mutable", F->isMutable()}});
        records.push_back(json::Object{{"name", n}, {"file", cv.file(D->getLocation())}, {"line", cv.line(D->getLocation())}, {"bases", std::move(bases)}, {"fields", std::move(fields)}});
        return true;
    }
    bool VisitVarDecl(VarDecl * D) {
        if (!D->hasGlobalStorage() || !inRoot(D->getLocation()) || isa<ParmVarDecl>(D)) return true;
        if (D->getDeclContext()->isDependentContext()) return true;
        if (!D->isThisDeclarationADefinition() && !D->isStaticDataMember()) return true;
        Conv cv(C);
        QualType T = D->getType();
        globals.push_back(json::Object{{"name", D->getQualifiedNameAsString()}, {"t", cv.ty(T)}, {"ct", cv.ty(T.getCanonicalType())}, {"const", T.isConstQualified()}, {"constexpr", D->isConstexpr()},
                                       {"tls", D->getTLSKind() != VarDecl::TLS_None}, {"local", D->isStaticLocal()}, {"file", cv.file(D->getLocation())}, {"line", cv.line(D->getLocation())}});
        return true;
    }
    bool VisitEnumDecl(EnumDecl * D) {
        if (!D->isThisDeclarationADefinition() || !inRoot(D->getLocation())) return true;
        json::Array es;
        for (auto * E : D->enumerators()) es.push_back(E->getNameAsString());
        enums.push_back(json::Object{{"name", D->getQualifiedNameAsString()}, {"e", std::move(es)}});
        return true;
    }
};
struct Cons : ASTConsumer {
    void HandleTranslationUnit(ASTContext & C) override {
        V v(C);
        v.TraverseDecl(C.getTranslationUnitDecl());
        std::error_code EC;
        llvm::raw_fd_ostream os(OutFile.empty() ? "-" : OutFile.getValue(), EC);
        json::Object root{{"functions", std::move(v.funcs)}, {"records", std::move(v.records)}, {"globals", std::move(v.globals)}, {"enums", std::move(v.enums)}};
        os << json::Value(std::move(root)) << "\n";
    }
};
struct Act : ASTFrontendAction {
    std::unique_ptr<ASTConsumer> CreateASTConsumer(CompilerInstance &, StringRef) override { return std::make_unique<Cons>(); }
};
int main(int argc, const char ** argv) {
    auto P = CommonOptionsParser::create(argc, argv, Cat);
    if (!P) { llvm::errs() << P.takeError(); return 1; }
    ClangTool T(P->getCompilations(), P->getSourcePathList());
    return T.run(newFrontendActionFactory<Act>().get());
}
