"""Primitive E: interprocedural exception-escape analysis (DESIGN 2.4-E).

escapes(F) = types thrown in F  ∪  escapes of every possible callee (CHA)  ∪  frozen table of throwing
library calls, minus what enclosing handlers catch (class-hierarchy and access aware; `catch(...)`;
`throw;` re-raises what its handler caught).  Solved by synchronous rounds so that the recorded witness
of each (function, type) is a shortest call chain.
"""
from facts import walk

STD_BASE = {
    'std::runtime_error': 'std::exception', 'std::logic_error': 'std::exception',
    'std::out_of_range': 'std::logic_error', 'std::invalid_argument': 'std::logic_error',
    'std::domain_error': 'std::logic_error', 'std::length_error': 'std::logic_error',
    'std::overflow_error': 'std::runtime_error', 'std::underflow_error': 'std::runtime_error',
    'std::range_error': 'std::runtime_error', 'std::bad_alloc': 'std::exception',
    'std::bad_function_call': 'std::exception', 'std::bad_cast': 'std::exception',
    'std::bad_variant_access': 'std::exception', 'std::bad_optional_access': 'std::exception',
    'std::system_error': 'std::runtime_error', 'std::ios_base::failure': 'std::system_error',
}

# library calls that throw on bad *values* (allocation failure is excluded by stated assumption)
LIB_THROW_PREFIX = {
    'std::stoi': ['std::invalid_argument', 'std::out_of_range'],
    'std::stol': ['std::invalid_argument', 'std::out_of_range'],
    'std::stoll': ['std::invalid_argument', 'std::out_of_range'],
    'std::stoul': ['std::invalid_argument', 'std::out_of_range'],
    'std::stoull': ['std::invalid_argument', 'std::out_of_range'],
    'std::stod': ['std::invalid_argument', 'std::out_of_range'],
    'std::stof': ['std::invalid_argument', 'std::out_of_range'],
}
LIB_THROW_METHOD_SUFFIX = {
    '::at': ['std::out_of_range'],
    '::substr': ['std::out_of_range'],
}


def clean(t):
    t = t.replace('class ', '').replace('struct ', '')
    if t.startswith('const '):
        t = t[6:]
    return t.strip().rstrip('&').strip()


class Escape:
    def __init__(self, facts, model_at=True):
        self.fx = facts
        self.model_at = model_at
        self.F = facts.F
        self._pub_bases = {}
        self.ev = {i: self._events(f) for i, f in self.F.items()}
        self.esc = {i: {} for i in self.F}
        self.rounds = 0
        self.terminate = {}     # fid -> {type: witness} for noexcept functions
        self.unresolved_calls = 0
        self._solve()

    # ---- catchability ----
    def pub_bases(self, t):
        """t plus every base reachable through *public* inheritance only"""
        r = self._pub_bases.get(t)
        if r is not None:
            return r
        out, st = [t], [t]
        while st:
            c = st.pop()
            if c in STD_BASE:
                b = STD_BASE[c]
                if b not in out:
                    out.append(b); st.append(b)
                continue
            rec = self.fx.R.get(c)
            if rec:
                for b in rec['bases']:
                    if b['acc'] == 'public' and b['n'] not in out:
                        out.append(b['n']); st.append(b['n'])
        self._pub_bases[t] = out
        return out

    def catches(self, handler_t, thrown_t):
        if handler_t == '...':
            return True
        return clean(handler_t) in self.pub_bases(clean(thrown_t))

    # ---- event trees ----
    def _events(self, f):
        lams = f.get('lambdas', [])

        def ev_of(n, out):
            if n is None:
                return
            if isinstance(n, list):
                for x in n:
                    ev_of(x, out)
                return
            if not isinstance(n, dict):
                return
            k = n.get('k')
            if k == 'try':
                body = []
                ev_of(n['body'], body)
                hs = []
                for h in n['h']:
                    hb = []
                    ev_of(h['body'], hb)
                    hs.append((h['t'], hb))
                out.append(('try', body, hs, n.get('ln')))
                return
            if k == 'lambda':
                lb = lams[n['id']]
                if lb:
                    ev_of(lb['body'], out)
                return
            # children first (argument evaluation precedes the call) -- order is irrelevant for a may-set
            for key, v in n.items():
                if key == 'k':
                    continue
                if isinstance(v, (dict, list)):
                    ev_of(v, out)
            if k == 'throw':
                out.append(('throw', clean(n['t']) if n['t'] != '<rethrow>' else '<rethrow>', n.get('ln')))
            elif k == 'call':
                fn = n.get('f') or ''
                if n.get('id'):
                    out.append(('call', tuple(self.fx.targets(n)), n.get('ln'), fn))
                elif not n.get('f'):
                    self.unresolved_calls = getattr(self, 'unresolved_calls', 0) + 1
                for p, ts in LIB_THROW_PREFIX.items():
                    if fn == p or fn.startswith(p + '<'):
                        for t in ts:
                            out.append(('throw', t, n.get('ln'), fn))
                if fn.startswith('std::') and self.model_at:
                    for sfx, ts in LIB_THROW_METHOD_SUFFIX.items():
                        if fn.endswith(sfx):
                            for t in ts:
                                out.append(('throw', t, n.get('ln'), fn))
            elif k == 'new' and n.get('id'):
                out.append(('call', (n['id'],), n.get('ln'), n.get('t')))

        out = []
        for ini in f.get('inits', []):
            ev_of(ini['e'], out)
        ev_of(f['body'], out)
        return out

    def _eval(self, evs, prev, rethrow=None):
        """escape set {type: (line, via)} of an event list under the previous round's summaries"""
        res = {}
        for e in evs:
            if e[0] == 'throw':
                if e[1] == '<rethrow>':
                    for t, w in (rethrow or {}).items():
                        res.setdefault(t, (e[2], w[1]))
                else:
                    res.setdefault(e[1], (e[2], None))
            elif e[0] == 'call':
                for g in e[1]:
                    for t in prev.get(g, ()):
                        res.setdefault(t, (e[2], g))
            else:
                _, body, hs, _ln = e
                b = self._eval(body, prev, rethrow)
                remaining = dict(b)
                for ht, hevs in hs:
                    caught = {t: w for t, w in remaining.items() if self.catches(ht, t)}
                    for t in caught:
                        del remaining[t]
                    if caught or True:
                        hres = self._eval(hevs, prev, caught)
                        for t, w in hres.items():
                            res.setdefault(t, w)
                for t, w in remaining.items():
                    res.setdefault(t, w)
        return res

    def _solve(self):
        changed = True
        while changed and self.rounds < 60:
            changed = False
            self.rounds += 1
            prev = {i: dict(s) for i, s in self.esc.items()}
            for i, evs in self.ev.items():
                if not evs:
                    continue
                r = self._eval(evs, prev)
                f = self.F[i]
                if f.get('noexcept'):
                    if r:
                        self.terminate[i] = r
                    continue
                cur = self.esc[i]
                for t, w in r.items():
                    if t not in cur:
                        cur[t] = w
                        changed = True

    # ---- reporting ----
    def chain(self, fid, t, limit=30):
        out = []
        src = self.esc
        while fid is not None and len(out) < limit:
            w = src.get(fid, {}).get(t)
            if w is None:
                w = self.terminate.get(fid, {}).get(t)
            if w is None:
                break
            f = self.F.get(fid)
            out.append('%s (%s:%s)' % (f['name'] if f else fid, self.fx.rel(f['file']) if f else '?', w[0]))
            fid = w[1]
        return out

    def origin(self, fid, t):
        """name of the function containing the throw at the end of the witness chain"""
        seen = 0
        last = fid
        while fid is not None and seen < 60:
            w = self.esc.get(fid, {}).get(t) or self.terminate.get(fid, {}).get(t)
            if w is None:
                break
            last = fid
            fid = w[1]
            seen += 1
        f = self.F.get(last)
        return f['name'] if f else str(last)
