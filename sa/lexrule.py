"""Coverage of the exclusive start conditions of the SMT-LIB lexer (C18).

In an exclusive flex start condition only the rules of that condition apply.  A character that none of them matches is handled by flex's default rule: it is
copied to standard output and dropped from the token - the input problem is not reported and the response channel receives text no command produced.  End of
input without an <<EOF>> rule silently ends the token: an unterminated string or quoted symbol is accepted.  The lexer specification is read on every run.
"""
import os
import re

from build import AnalysisBroken


def single_char_set(pat):
    """set of characters matched by a pattern that matches exactly one character; None for longer / unsupported patterns"""
    def unesc(s):
        table = {'n': '\n', 't': '\t', 'r': '\r', '\\': '\\', '"': '"', '|': '|', ']': ']', '[': '[', '^': '^', '-': '-', ' ': ' '}
        out, i = [], 0
        while i < len(s):
            if s[i] == '\\' and i + 1 < len(s):
                out.append(table.get(s[i + 1], s[i + 1]))
                i += 2
            else:
                out.append(s[i])
                i += 1
        return out
    allc = {chr(c) for c in range(1, 128)}
    if pat == '.':
        return allc - {'\n'}
    m = re.fullmatch(r'\[(\^?)((?:\\.|[^\]\\])*)\]', pat)
    if m:
        chars = set(unesc(m.group(2)))
        return (allc - chars) if m.group(1) else chars
    if re.fullmatch(r'\\.', pat):
        return set(unesc(pat))
    if len(pat) == 1 and pat not in '.[](){}*+?|^$/"':
        return {pat}
    return None


def lexer_rule(fx, res, src_root, floor=2):
    path = os.path.join(src_root, 'parsers', 'smt2new', 'smt2newlexer.ll')
    if not os.path.exists(path):
        raise AnalysisBroken('lexer specification not found: %s' % path)
    text = open(path).read()
    parts = text.split('\n%%')
    if len(parts) < 2:
        raise AnalysisBroken('lexer specification: rules section not found')
    defs, rules = parts[0], parts[1]
    excl = re.findall(r'^%x\s+(\w+)', defs, re.M)
    if not excl:
        raise AnalysisBroken('lexer specification: no exclusive start condition found (anchor: STR, PSYM)')
    nodefault = re.search(r'^%option\s+.*\bnodefault\b', defs, re.M) is not None
    r = res.rule('lexer-states-total', 'every exclusive start condition of the lexer (string literal, quoted symbol) has a rule for every single character and for end of input: nothing falls '
                 'through to flex\'s default rule (echo to standard output) and an unterminated literal is reported', floor=floor)
    rel = os.path.relpath(path, os.path.dirname(src_root.rstrip('/')))
    for st in excl:
        m = re.search(r'^<(?:[\w,]*,)?%s(?:,[\w,]*)?>\{\n(.*?)^\}' % st, rules, re.M | re.S)
        body = m.group(1) if m else ''
        line0 = rules[:m.start()].count('\n') + defs.count('\n') + 2 if m else 0
        pats = []
        for ln in body.splitlines():
            ln = ln.strip()
            if not ln:
                continue
            mm = re.match(r'((?:\\.|\[(?:\\.|[^\]])*\]|<<EOF>>|[^\s{])+)\s*\{', ln)
            if mm:
                pats.append(mm.group(1))
        # rules written as <ST>pattern outside a block
        for mm in re.finditer(r'^<(?:[\w,]*,)?%s(?:,[\w,]*)?>((?:\\.|\[(?:\\.|[^\]])*\]|<<EOF>>|[^\s{])+)\s*\{' % st, rules, re.M):
            pats.append(mm.group(1))
        if not pats:
            raise AnalysisBroken('lexer specification: no rules found for start condition %s' % st)
        covered = set()
        for p_ in pats:
            s_ = single_char_set(p_)
            if s_:
                covered |= s_
        gap = sorted({chr(c) for c in range(1, 128)} - covered)
        where = '%s:%d' % (rel, line0)
        if gap and not nodefault:
            shown = ', '.join(repr(c) for c in gap[:6])
            res.bad(r, 'lexer-state-gap:%s' % st, where, 'start condition %s of the lexer has no rule for the single character(s) %s: flex\'s default rule copies such a character to standard output '
                    'while the literal is being read (for example a backslash that is not part of an escape), so output appears that no command produced and the literal loses the character' % (st, shown))
        else:
            res.ok(r, 'start condition %s: every character has a rule' % st)
        if '<<EOF>>' in pats:
            res.ok(r, 'start condition %s: end of input has a rule' % st)
        else:
            res.bad(r, 'lexer-state-eof:%s' % st, where, 'start condition %s of the lexer has no <<EOF>> rule: input that ends inside the literal is accepted silently (the commands read so far are '
                    'executed, exit status 0) instead of being reported as a syntax error' % st)
    return r
