"""Load per-unit facts, merge by mangled id, class hierarchy, CHA call resolution, tree helpers."""
import collections
import hashlib
import json
import os
import pickle
import time

from build import AnalysisBroken, CACHE, build_facts


class Facts:
    """Facts of one source root.  A scratch copy made by the self-test carries `<root>/../.overlay.json`
    ({"base": "/repo/src", "changed": [relative paths]}): then only the units that see a changed file are
    re-extracted from the copy and laid over the base root's facts (mutated code wins)."""

    def __init__(self, src_root='/repo/src', only=None, quiet=False):
        self.src_root = os.path.abspath(src_root)
        self.alt_roots = []
        ov = os.path.join(os.path.dirname(self.src_root), '.overlay.json')
        if os.path.exists(ov):
            self._init_overlay(json.load(open(ov)), quiet)
        else:
            self._init_plain(only, quiet)
        self._index()

    def _init_overlay(self, spec, quiet):
        base = Facts(spec['base'], quiet=True)
        changed = [os.path.join(base.src_root, c) for c in spec['changed']]
        gen_changed = any(c.endswith(('.yy', '.ll')) for c in spec['changed'])
        affected = []
        for u in base.units:
            meta = json.load(open(base.paths[u] + '.meta'))
            if any(c in meta['deps'] for c in changed) or (gen_changed and u.startswith(base.gen_dir)):
                affected.append(u)
        only = []
        for u in affected:
            only.append(os.path.basename(u) if u.startswith(base.gen_dir) else os.path.relpath(u, base.src_root))
        # units newly named by a changed CMakeLists are not supported in overlay mode (not needed by the self-tests)
        F, R, G, E, fun_unit = {}, {}, {}, {}, {}
        self.stats = dict(base.stats)
        self.gen_dir = base.gen_dir
        if only:
            paths, stats = build_facts(self.src_root, only=['/' + o for o in only], quiet=quiet)
            self.gen_dir = stats['gen_dir']
            for u in sorted(paths):
                d = json.load(open(paths[u]))
                for f in d['functions']:
                    F.setdefault(f['id'], f); fun_unit.setdefault(f['id'], u)
                for r in d['records']:
                    R.setdefault(r['name'], r)
                for g in d['globals']:
                    if g['name'] not in G or (g.get('def') and not G[g['name']].get('def')):
                        G[g['name']] = g
                for e in d['enums']:
                    E.setdefault(e['name'], e)
            self.stats['overlay_units'] = len(paths)
            self._overlay_typedefs = [t for u in paths for t in json.load(open(paths[u])).get('typedefs', [])]
        aff = set(affected)
        for i, f in base.F.items():
            if i not in F and base.fun_unit.get(i) not in aff:
                F[i] = f; fun_unit[i] = base.fun_unit.get(i)
        for n, r in base.R.items():
            R.setdefault(n, r)
        for n, g in base.G.items():
            G.setdefault(n, g)
        for n, e in base.E.items():
            E.setdefault(n, e)
        self.F, self.R, self.G, self.E, self.fun_unit = F, R, G, E, fun_unit
        self.T = dict(base.T)
        for t in getattr(self, '_overlay_typedefs', []):
            self.T[t['name']] = t['ct']
        self.units = base.units
        self.paths = base.paths
        self.alt_roots = [(base.src_root, 'src/'), (base.gen_dir, 'gen/')]
        self.load_s = 0

    def _init_plain(self, only, quiet):
        paths, stats = build_facts(self.src_root, only=only, quiet=quiet)
        self.paths = paths
        self.stats = stats
        self.gen_dir = stats['gen_dir']
        t0 = time.time()
        key = hashlib.sha256()
        for u in sorted(paths):
            meta = json.load(open(paths[u] + '.meta'))
            key.update(u.encode()); key.update(meta['dephash'].encode()); key.update(meta['tool'].encode())
        pk = os.path.join(CACHE, 'merged-%s.pkl' % key.hexdigest()[:16])
        data = None
        if os.path.exists(pk):
            try:
                data = pickle.load(open(pk, 'rb'))
            except Exception:
                data = None
        if data is None:
            F, R, G, E = {}, {}, {}, {}
            T = {}
            fun_unit = {}
            for u in sorted(paths):
                d = json.load(open(paths[u]))
                for t in d.get('typedefs', []):
                    T.setdefault(t['name'], t['ct'])
                for f in d['functions']:
                    if f['id'] not in F:
                        F[f['id']] = f
                        fun_unit[f['id']] = u
                for r in d['records']:
                    R.setdefault(r['name'], r)
                for g in d['globals']:
                    k = g['name']
                    if k not in G or (g.get('def') and not G[k].get('def')):
                        G[k] = g
                for e in d['enums']:
                    E.setdefault(e['name'], e)
            data = (F, R, G, E, fun_unit, T)
            # keep only the newest few merged caches
            try:
                olds = sorted((p for p in os.listdir(CACHE) if p.startswith('merged-')), key=lambda p: os.path.getmtime(os.path.join(CACHE, p)))
                for p in olds[:-3]:
                    os.remove(os.path.join(CACHE, p))
                pickle.dump(data, open(pk + '.tmp', 'wb'), protocol=pickle.HIGHEST_PROTOCOL)
                os.replace(pk + '.tmp', pk)
            except OSError:
                pass
        self.F, self.R, self.G, self.E, self.fun_unit = data[:5]
        self.T = data[5] if len(data) > 5 else {}
        self.units = sorted(paths)
        self.load_s = round(time.time() - t0, 2)

    def _index(self):
        self.by_name = collections.defaultdict(list)
        for i, f in self.F.items():
            self.by_name[f['name']].append(i)
        self.over = collections.defaultdict(set)
        for f in self.F.values():
            for b in f.get('overrides', []):
                self.over[b].add(f['id'])
        # overriders declared in records but possibly without extracted bodies
        for r in self.R.values():
            for m in r.get('methods', []):
                for b in m.get('overrides', []):
                    self.over[b].add(m['id'])
        self._allover = {}

    # ---------- lookup ----------
    def rel(self, path):
        if path.startswith(self.src_root):
            return 'src/' + os.path.relpath(path, self.src_root)
        if path.startswith(self.gen_dir):
            return 'gen/' + os.path.basename(path)
        for root, pre in self.alt_roots:
            if path.startswith(root):
                return pre + os.path.relpath(path, root)
        return path

    def loc(self, f, ln=None):
        return '%s:%s' % (self.rel(f['file']), ln if ln else f['line'])

    def funcs(self, name):
        """all bodies (incl. template instantiations / overloads) with this qualified name"""
        return [self.F[i] for i in self.by_name.get(name, [])]

    def func(self, name, nparams=None, pred=None):
        c = self.funcs(name)
        if nparams is not None:
            c = [f for f in c if len(f['params']) == nparams]
        if pred:
            c = [f for f in c if pred(f)]
        if not c:
            raise AnalysisBroken('anchor function vanished: %s' % name)
        if len(c) > 1:
            raise AnalysisBroken('anchor function ambiguous: %s (%d bodies)' % (name, len(c)))
        return c[0]

    def record(self, name):
        r = self.R.get(name)
        if r is None:
            raise AnalysisBroken('anchor class vanished: %s' % name)
        return r

    def enum(self, name):
        e = self.E.get(name)
        if e is None:
            raise AnalysisBroken('anchor enum vanished: %s' % name)
        return e

    def all_overriders(self, fid):
        r = self._allover.get(fid)
        if r is None:
            r = set()
            st = [fid]
            while st:
                x = st.pop()
                for o in self.over.get(x, ()):
                    if o not in r:
                        r.add(o); st.append(o)
            self._allover[fid] = r
        return r

    def targets(self, call):
        """possible callee ids of a call node (CHA for virtual calls not written Base::f())"""
        fid = call.get('id')
        if not fid:
            return []
        out = [fid]
        if call.get('virt') and not call.get('qual'):
            out += sorted(self.all_overriders(fid))
        return out

    def expand_typedefs(self, t):
        """replace typedef names of the repository inside a written type by their canonical types (two rounds)"""
        import re
        for _ in range(2):
            def rep(m):
                w = m.group(0)
                for cand in (w, 'opensmt::' + w):
                    if cand in self.T:
                        return self.T[cand]
                return w
            t = re.sub(r'[A-Za-z_][A-Za-z_0-9:]*', rep, t)
        return t

    # ---------- class hierarchy ----------
    def bases_of(self, cls, public_only=False):
        """transitive bases (names) of a record"""
        out, st = [], [cls]
        while st:
            c = st.pop()
            r = self.R.get(c)
            if not r:
                continue
            for b in r['bases']:
                if public_only and b['acc'] != 'public':
                    continue
                if b['n'] not in out:
                    out.append(b['n']); st.append(b['n'])
        return out

    def subclasses(self, cls):
        out = set()
        changed = True
        while changed:
            changed = False
            for n, r in self.R.items():
                if n in out:
                    continue
                if any(b['n'] == cls or b['n'] in out for b in r['bases']):
                    out.add(n); changed = True
        return out


# ---------- tree helpers ----------
def norm_type(t):
    return t.replace('class ', '').replace('struct ', '').replace('const ', '').replace(' const', '').replace('&', '').strip()


def walk(n, lambdas=None, into_lambdas=True):
    """pre-order generator over every dict node of a mini-AST (optionally descending into lambda bodies)"""
    st = [n]
    while st:
        x = st.pop()
        if isinstance(x, list):
            st.extend(reversed(x))
        elif isinstance(x, dict):
            yield x
            if x.get('k') == 'lambda' and into_lambdas and lambdas is not None:
                lb = lambdas[x['id']]
                if lb:
                    st.append(lb['body'])
            for k, v in reversed(list(x.items())):
                if isinstance(v, (dict, list)):
                    st.append(v)


def walk_macro(n, lambdas=None, macro=None):
    """pre-order (node, enclosing-macro-name) pairs; the macro name comes from the nearest enclosing
    statement that the extractor tagged as expanded from a function-like macro"""
    if isinstance(n, list):
        for x in n:
            yield from walk_macro(x, lambdas, macro)
        return
    if not isinstance(n, dict):
        return
    m = n.get('macro') or macro
    yield n, m
    if n.get('k') == 'lambda' and lambdas is not None and lambdas[n['id']]:
        yield from walk_macro(lambdas[n['id']]['body'], lambdas, m)
    for k, v in n.items():
        if isinstance(v, (dict, list)):
            yield from walk_macro(v, lambdas, m)


def fwalk(f, into_lambdas=True):
    """all nodes of a function: body, ctor initialisers (and lambdas)"""
    lams = f.get('lambdas', [])
    for ini in f.get('inits', []):
        yield from walk(ini['e'], lams, into_lambdas)
    yield from walk(f['body'], lams, into_lambdas)


def calls_in(n, lambdas=None):
    for x in walk(n, lambdas):
        if x.get('k') == 'call':
            yield x


def callee(n):
    return n.get('f') or ''


def see_through(e):
    """strip smart-pointer derefs, casts, & and * so that paths compare structurally"""
    while isinstance(e, dict):
        k = e.get('k')
        if k == 'call' and e.get('op') in ('->', '*') and e.get('recv') is not None and not e.get('a'):      # unary: a binary member operator* is a product
            e = e['recv']; continue
        if k == 'call' and callee(e).endswith(('::get', '::operator->', '::operator*')) and e.get('recv') is not None and 'unique_ptr' in (e.get('cls') or ''):
            e = e['recv']; continue
        if k == 'cast':
            e = e['e']; continue
        if k == 'un' and e.get('op') in ('*', '&'):
            e = e['e']; continue
        break
    return e


def path_of(e):
    """access path string of an lvalue-ish expression: 'this.frames', 'cr', 'this.smt_solver', or None"""
    e = see_through(e)
    if not isinstance(e, dict):
        return None
    k = e.get('k')
    if k == 'this':
        return 'this'
    if k == 'ref':
        return e['n']
    if k == 'mem':
        b = path_of(e['b'])
        return (b + '.' + e['n']) if b else None
    if k == 'idx':
        b = path_of(e['b'])
        return (b + '[]') if b else None
    if k == 'call' and e.get('op') == '[]' and e.get('recv') is not None:
        b = path_of(e['recv'])
        return (b + '[]') if b else None
    return None


def root_global(e):
    """name of the static-storage variable an access path is rooted at, else None"""
    while isinstance(e, dict):
        e = see_through(e)
        k = e.get('k')
        if k == 'ref':
            return e['n'] if e.get('d') == 'global' else None
        if k in ('mem', 'idx'):
            e = e['b']; continue
        if k == 'call' and e.get('op') == '[]' and e.get('recv') is not None:
            e = e['recv']; continue
        return None
    return None


def recv_path(call):
    r = call.get('recv')
    return path_of(r) if r is not None else None


def switch_arms(sw):
    """normalise a switch body into [(labels, [stmts], falls_through)] ; label None = default"""
    body = sw.get('body')
    items = body['c'] if body and body.get('k') == 'seq' else ([body] if body else [])
    arms = []
    cur = None
    for s in items:
        labels = []
        x = s
        while isinstance(x, dict) and x.get('k') in ('case', 'default'):
            labels.append(x.get('v') if x['k'] == 'case' else None)
            x = x.get('body')
        if labels:
            cur = {'labels': labels, 'stmts': [x] if x is not None else [], 'ln': s.get('ln')}
            arms.append(cur)
        elif cur is not None:
            cur['stmts'].append(s)
    return arms


def enum_label(v):
    v = see_through(v)
    if isinstance(v, dict):
        if v.get('k') == 'ref' and v.get('d') == 'enum':
            return v['n'].split('::')[-1]
        if v.get('k') == 'lit':
            return v['v']
        if v.get('k') == 'chr':
            return v['v']
    return None


def ends_abruptly(stmts):
    """does this statement list always leave (return/throw/break/continue/goto/noreturn call)?"""
    for s in reversed(stmts):
        if not isinstance(s, dict):
            continue
        k = s.get('k')
        if k in ('ret', 'break', 'continue', 'goto'):
            return True
        if k == 'e':
            e = s.get('e')
            if isinstance(e, dict) and (e.get('k') == 'throw' or (e.get('k') == 'call' and e.get('noret'))):
                return True
            return False
        if k == 'seq':
            return ends_abruptly(s['c'])
        if k == 'if':
            return bool(s.get('else')) and ends_abruptly([s['then']]) and ends_abruptly([s['else']])
        return False
    return False
