"""Analysis primitives built on the path engine (DESIGN 2.4): MUST-CALL, LOCKSTEP typestate, scope-pair tables,
EXHAUSTIVE switch coverage, WHO-MAY-CALL."""
from facts import callee, path_of, recv_path, see_through, switch_arms, enum_label, fwalk, walk
from walk import Client, Engine

PUSH_POP = {'push': ('pop',), 'pushScope': ('popScope',), 'pushInternal': ('popInternal',),
            'pushBacktrackPoint': ('popBacktrackPoint', 'popBacktrackPoints'), 'push_back': ('pop_back',),
            'emplace_back': ('pop_back',)}


def mname(call):
    return callee(call).split('::')[-1]


def is_call(n, method=None, recv=None, qual=None):
    """match a call node by short method name, receiver access path and/or full qualified name"""
    if not isinstance(n, dict) or n.get('k') != 'call':
        return False
    if method is not None and mname(n) != method:
        return False
    if qual is not None and callee(n) != qual:
        return False
    if recv is not None and recv_path(n) != recv:
        return False
    return True


def as_assign(n):
    """(lhs, rhs) of a built-in or class-type (operator=) assignment node, else None"""
    if n.get('k') == 'bin' and n.get('op') == '=':
        return n['l'], n['r']
    if n.get('k') == 'call' and n.get('op') == '=' and n.get('recv') is not None and len(n.get('a', [])) == 1:
        return n['recv'], n['a'][0]
    return None


def ret_value(ret):
    """literal value of a return statement: True/False/int/enum-name or None"""
    e = see_through(ret.get('e')) if ret else None
    if not isinstance(e, dict):
        return None
    if e.get('k') == 'lit':
        return e['v']
    if e.get('k') == 'ref' and e.get('d') in ('enum', 'global'):
        return e['n'].split('::')[-1]
    return None


class MustClient(Client):
    """state = frozenset of satisfied requirement names; reqs: name -> predicate(node) on call/assign nodes.
    pred_vars: requirement-independent tracking of boolean locals bound to named predicates so that
    conditions on those locals refine like the predicate itself."""

    def __init__(self, reqs, cond_flags=None):
        self.reqs = reqs
        self.cond_flags = cond_flags or {}    # name -> predicate(atom) ; state gets 'name=T'/'name=F'
        self.exits = []                       # (kind, node, state)

    def _apply(self, n, s):
        # a write to / non-const call on a receiver invalidates the pure-predicate facts remembered about it
        tgt = None
        if n.get('k') == 'call' and not n.get('mc') and n.get('recv') is not None:
            tgt = recv_path(n)
        elif n.get('k') == 'bin':
            tgt = path_of(n.get('l'))
        elif n.get('k') == 'un':
            tgt = path_of(n.get('e'))
        if tgt:
            pre = 'p:%s.' % tgt
            if any(x.startswith(pre) for x in s):
                s = frozenset(x for x in s if not x.startswith(pre))
        add = [name for name, p in self.reqs.items() if name not in s and p(n)]
        return (s | frozenset(add),) if add else (s,)

    on_call = _apply
    on_assign = _apply

    def on_decl(self, n, s):
        init = n.get('init')
        for name, p in self.cond_flags.items():
            if isinstance(init, dict) and p(see_through(init)):
                s = frozenset(x for x in s if not x.startswith('var:%s=' % n['n'])) | {'var:%s=%s' % (n['n'], name)}
        return self._apply(n, s)

    def on_cond(self, atom, s, branch):
        atom = see_through(atom)
        for name, p in self.cond_flags.items():
            hit = p(atom)
            if not hit and isinstance(atom, dict) and atom.get('k') == 'ref' and ('var:%s=%s' % (atom['n'], name)) in s:
                hit = True
            if hit:
                t, f = name + '=T', name + '=F'
                if (t if not branch else f) in s:
                    return None     # contradicts an earlier evaluation on this path
                s = s | {t if branch else f}
        # generic path sensitivity on repeated pure predicates: x.empty(), x.size() == 0 ... (const, argument-free method on an access path)
        key = None
        if isinstance(atom, dict) and atom.get('k') == 'call' and atom.get('mc') and not atom.get('a') and recv_path(atom):
            key = 'p:%s.%s' % (recv_path(atom), mname(atom))
        elif isinstance(atom, dict) and atom.get('k') == 'bin' and atom.get('op') in ('==', '!='):
            l, r = see_through(atom['l']), see_through(atom['r'])
            c, lit = (l, r) if isinstance(r, dict) and r.get('k') == 'lit' else ((r, l) if isinstance(l, dict) and l.get('k') == 'lit' else (None, None))
            if isinstance(c, dict) and c.get('k') == 'call' and c.get('mc') and not c.get('a') and recv_path(c):
                key = 'p:%s.%s%s%s' % (recv_path(c), mname(c), '==', lit.get('v'))
                if atom['op'] == '!=':
                    branch = not branch
        if key:
            t, f = key + '=T', key + '=F'
            if (f if branch else t) in s:
                return None
            s = s | {t if branch else f}
        return s

    def on_exit(self, kind, node, s):
        self.exits.append((kind, node, s))


def must_call(func, reqs, cond_flags=None):
    """run the MUST client over func; returns list of (kind, node, state) for every normal/throw exit"""
    c = MustClient(reqs, cond_flags)
    eng = Engine(func, c)
    eng.run([frozenset()])
    return c.exits, eng


class Lockstep(Client):
    """typestate for pairs that must alternate: events[0] then events[1], repeatedly; never events[1] first,
    never leave with events[0] pending.  `result_guard`: if True, event A may fail: a condition on the variable
    that received A's result (or directly on the call) being false cancels the pending obligation."""

    def __init__(self, a, b, result_guard=False):
        self.a, self.b, self.result_guard = a, b, result_guard
        self.errors = []
        self.counts = {'a': 0, 'b': 0}

    def on_call(self, n, s):
        st, var = s
        if self.a(n):
            self.counts['a'] += 1
            if st == 'pending':
                self.errors.append((n.get('ln'), 'first event repeated before its partner'))
            return (('pending', '<call>'),)
        if self.b(n):
            self.counts['b'] += 1
            if st != 'pending':
                self.errors.append((n.get('ln'), 'second event without a preceding first event'))
            return (('idle', None),)
        return (s,)

    def on_assign(self, n, s):
        st, var = s
        if st == 'pending' and var == '<call>' and n.get('k') == 'bin' and self.a(see_through(n.get('r'))):
            return (('pending', path_of(n['l'])),)
        return (s,)

    def on_decl(self, n, s):
        st, var = s
        if st == 'pending' and var == '<call>' and isinstance(n.get('init'), dict) and self.a(see_through(n['init'])):
            return (('pending', n['n']),)
        return (s,)

    def on_cond(self, atom, s, branch):
        st, var = s
        if not self.result_guard or st != 'pending':
            return s
        atom = see_through(atom)
        if (isinstance(atom, dict) and ((atom.get('k') == 'ref' and atom['n'] == var) or self.a(atom))):
            return s if branch else ('idle', None)
        return s

    def on_exit(self, kind, node, s):
        if s[0] == 'pending':
            self.errors.append((node.get('ln') if isinstance(node, dict) else None, 'function left (%s) with the first event not followed by its partner' % kind))


def lockstep(func, a, b, result_guard=False):
    c = Lockstep(a, b, result_guard)
    eng = Engine(func, c)
    eng.run([('idle', None)])
    # loop back-edges: states at loop head include 'pending' only if an iteration can end pending -> caught at exit or by next 'a'
    return c, eng


def member_scope_calls(func):
    """(receiver path, method) of push-like calls on members of *this, plus ++/-- on members"""
    out = []
    for n in fwalk(func):
        if n.get('as'):
            continue
        if n.get('k') == 'call' and mname(n) in PUSH_POP:
            rp = recv_path(n)
            if rp and rp.startswith('this.'):
                out.append((rp, mname(n), n.get('ln'), len(n.get('a', []))))
        if n.get('k') == 'un' and n['op'] in ('++',):
            p = path_of(n['e'])
            if p and p.startswith('this.'):
                out.append((p, '++', n.get('ln'), 0))
    return out


def exhaustive_switch(sw, enum_names, handled_default_ok=False):
    """returns (handled set, default_kind) for a switch over an enum; an arm consisting only of assert(false)/
    unreachable counts as not handling"""
    handled = set()
    default_kind = None
    for a in switch_arms(sw):
        real = [s for s in a['stmts'] if isinstance(s, dict) and not s.get('as') and not (s.get('k') == 'seq' and not s['c'])]
        only_break = all(s.get('k') == 'break' for s in real)
        for lab in a['labels']:
            if lab is None:
                default_kind = 'empty' if (not real or only_break) else 'code'
            else:
                nm = enum_label(lab)
                if nm is not None:
                    handled.add(nm)
    return handled, default_kind


def callers_of(fx, qual_name=None, pred=None):
    """[(caller function, call node)] for every call whose resolved callee matches"""
    out = []
    for f in fx.F.values():
        for n in fwalk(f):
            if n.get('k') == 'call' and ((qual_name and callee(n) == qual_name) or (pred and pred(n))):
                out.append((f, n))
    return out


def find_calls(func, pred):
    return [n for n in fwalk(func) if n.get('k') == 'call' and pred(n)]
