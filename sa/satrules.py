"""Rules shared by C01 / C02 / C03 / C05: CNF templates, dispatch, sat exits, complete checks, SatELite guards."""
from build import AnalysisBroken
from facts import fwalk, walk, callee, path_of, recv_path, see_through
from prims import mname, is_call, as_assign, must_call
from walk import Client, Engine
import tseitin


# ------------------------------------------------------------------ CNF templates
def gate_templates(fx):
    """{gate: (arity spec, op, Template)}; raises AnalysisBroken when an encoder leaves the understood subset"""
    out = {}
    for g, (ar, op) in tseitin.GATES.items():
        f = fx.func('opensmt::Tseitin::' + g)
        try:
            t = tseitin.GateInterp(f).run()
        except tseitin.Unmodelled as e:
            raise AnalysisBroken('Tseitin::%s: %s (encoder outside the modelled statement forms)' % (g, e))
        out[g] = (ar, op, t, f)
    return out


def template_rule(res, fx, direction):
    """direction 'sound': every emitted clause is a consequence of v <-> op(args); 'complete': the clauses together imply the definition"""
    r = res.rule('cnf-templates-' + direction,
                 ('every clause a gate encoder emits is a consequence of the gate definition v <-> op(a_0..a_n-1)' if direction == 'sound' else
                  'the clauses a gate encoder emits together imply the gate definition v <-> op(a_0..a_n-1)') +
                 ' (clause templates extracted from the encoders, instantiated for arities 1..4 of n-ary gates, checked by exhaustive truth table)', floor=12)
    tm = gate_templates(fx)
    for g, (ar, op, t, f) in tm.items():
        for n in ([1, 2, 3, 4] if ar == 'nary' else [ar]):
            try:
                cls = t.instantiate(n)
                unsound, incomplete = tseitin.check_template(cls, n, op)
            except tseitin.Unmodelled as e:
                raise AnalysisBroken('Tseitin::%s: %s' % (g, e))
            if direction == 'sound':
                if unsound:
                    res.bad(r, 'unsound-clause:%s' % g, fx.loc(f), 'Tseitin::%s (arity %d) emits %s, which is not implied by the gate definition: a satisfiable formula can become unsatisfiable'
                            % (g, n, ', '.join(tseitin.show(c) for c in unsound)), [tseitin.show(c) for c in cls])
                else:
                    res.ok(r, '%s/%d: %s' % (g, n, ' '.join(tseitin.show(c) for c in cls)))
            else:
                if incomplete:
                    e0 = incomplete[0]
                    res.bad(r, 'incomplete-encoding:%s' % g, fx.loc(f), 'Tseitin::%s (arity %d): the emitted clauses %s admit the assignment %s, which violates the gate definition: an unsatisfiable formula can become satisfiable'
                            % (g, n, ' '.join(tseitin.show(c) for c in cls), {k: int(v) for k, v in e0.items()}))
                else:
                    res.ok(r, '%s/%d complete' % (g, n))
    return tm


DISPATCH = {'isAnd': 'cnfizeAnd', 'isOr': 'cnfizeOr', 'isXor': 'cnfizeXor', 'isIff': 'cnfizeIff', 'isImplies': 'cnfizeImplies'}
# Boolean connectives that never reach the CNF dispatch, with the construct that guarantees it (checked below where structural)
NOT_DISPATCHED = {
    'not': 'recursed through: the literal of (not t) is the negated literal of t (TermMapper::getTerm), children are pushed',
    'ite': 'Boolean ite is removed by IteHandler(...).rewrite before the formula is stored (MainSolver::insertFormula, checked)',
    'distinct': 'Logic::mkDistinct reduces Boolean distinct (2 args -> not(=), more -> false); non-Boolean distinct is a theory atom',
}


def dispatch_rule(res, fx):
    r = res.rule('cnf-dispatch', 'Tseitin::cnfize sends each Boolean connective to the encoder of the same connective, pushes the children of every connective, '
                 'and the connectives that are not dispatched are eliminated earlier', floor=7)
    f = fx.func('opensmt::Tseitin::cnfize')
    pairs = {}

    def collect(n):
        if isinstance(n, dict) and n.get('k') == 'if' and not n.get('as'):
            c = see_through(n['cond'])
            if isinstance(c, dict) and c.get('k') == 'call' and mname(c) in DISPATCH:
                calls = [mname(x) for x in walk(n['then']) if x.get('k') == 'call' and mname(x).startswith('cnfize')]
                pairs[mname(c)] = calls
    for n in walk(f['body']):
        collect(n)
    for pred, enc in DISPATCH.items():
        got = pairs.get(pred)
        if got == [enc]:
            res.ok(r, '%s -> %s' % (pred, enc))
        elif got is None:
            res.bad(r, 'dispatch-missing:%s' % pred, fx.loc(f), 'Tseitin::cnfize no longer dispatches %s terms to %s: the gate variable stays unconstrained' % (pred, enc))
        else:
            res.bad(r, 'dispatch-wrong:%s' % pred, fx.loc(f), 'Tseitin::cnfize sends %s terms to %s instead of %s' % (pred, got, enc))
    # children recursion: a loop pushing every child to the work list, reached from every gate branch (only atoms jump over it)
    loops = [n for n in walk(f['body']) if n.get('k') == 'loop' and n.get('kind') == 'range' and any(is_call(x, 'push') for x in walk(n['body']))]
    gotos = [n for n in walk(f['body']) if n.get('k') == 'goto']
    guarded = True
    for n in walk(f['body']):
        if n.get('k') == 'if' and any(x.get('k') == 'goto' for x in walk(n['then'])):
            c = str(n['cond'])
            guarded = guarded and ('isNot' in c)
    if len(loops) == 1 and len(gotos) <= 1 and guarded:
        res.ok(r, 'children of every connective are pushed; only atoms skip the recursion')
    else:
        res.bad(r, 'children-not-pushed', fx.loc(f), 'Tseitin::cnfize no longer pushes the children of every Boolean connective (some sub-formula would stay undefined)')
    # ite removed before storing the formula
    ins = fx.func('opensmt::MainSolver::insertFormula')
    exits, eng = must_call(ins, {'ite': lambda n: n.get('k') == 'call' and mname(n) == 'rewrite' and 'IteHandler' in str(n.get('recv')) or (n.get('k') == 'call' and callee(n).startswith('opensmt::IteHandler::rewrite')),
                                 'store': lambda n: is_call(n, 'add', 'this.frames')})
    bad = [1 for k, nd, st in exits if k != 'throw' and 'store' in st and 'ite' not in st]
    if bad:
        res.bad(r, 'ite-not-removed', fx.loc(ins), 'MainSolver::insertFormula can store a formula without the IteHandler rewrite: a Boolean ite would reach a CNF layer that has no encoder for it')
    else:
        res.ok(r, 'insertFormula: IteHandler(...).rewrite precedes frames.add on every path')
    for k, v in NOT_DISPATCHED.items():
        res.notes.append('connective %s not dispatched: %s' % (k, v))


def toplevel_rule(res, fx):
    """top-level emitters: unit for the root literal, de Morgan clause, literal/clause passthrough, literal sign"""
    r = res.rule('cnf-toplevel', 'top-level emitters: cnfizeAndAssert asserts the root literal and encodes the formula; deMorganize emits exactly the negated conjunct literals; '
                 'retrieveClause collects exactly the disjunct literals and isClause recognises exactly what it can collect; the literal of (not^k t) has sign k mod 2', floor=6)
    ca = fx.func('opensmt::Cnfizer::cnfizeAndAssert')
    p = ca['params'][0]['n']
    units = []
    for n in fwalk(ca):
        if is_call(n, 'addClause') and not n.get('as'):
            try:
                gi = tseitin.GateInterp(ca)
                units.append(gi.clause_from_init(n['a'][0], None))
            except tseitin.Unmodelled as e:
                raise AnalysisBroken('cnfizeAndAssert: %s' % e)
    enc = [n for n in fwalk(ca) if n.get('k') == 'call' and mname(n) == 'cnfize' and n.get('a') and path_of(n['a'][0]) == p]
    if units == [[(True, 'v')]] and enc:
        res.ok(r, 'cnfizeAndAssert: addClause({lit(formula)}); cnfize(formula)')
    else:
        res.bad(r, 'toplevel-unit', fx.loc(ca), 'Cnfizer::cnfizeAndAssert emits %s and %s the formula: the asserted formula is not what the solver receives'
                % ([tseitin.show(c) for c in units], 'encodes' if enc else 'does not encode'))
    dm = fx.func('opensmt::Cnfizer::deMorganize')
    pushes = [n for n in fwalk(dm) if n.get('k') == 'call' and mname(n) == 'push' and recv_path(n) == 'clause' and not n.get('as')]
    okdm = len(pushes) == 1
    if okdm:
        a = see_through(pushes[0]['a'][0])
        okdm = isinstance(a, dict) and a.get('k') == 'call' and a.get('op') == '~' and any(is_call(x, 'getOrCreateLiteralFor') for x in walk(a))
        inloop = any(lp.get('k') == 'loop' and any(y is pushes[0] for y in walk(lp['body'])) for lp in walk(dm['body']))
        okdm = okdm and inloop and any(is_call(x, 'retrieveConjuncts') for x in fwalk(dm)) and any(is_call(x, 'addClause') for x in fwalk(dm))
    if okdm:
        res.ok(r, 'deMorganize: clause = { ~lit(c) : c conjunct }')
    else:
        res.bad(r, 'demorgan-clause', fx.loc(dm), 'Cnfizer::deMorganize no longer emits exactly the negated literals of the conjuncts of not(and ...)')
    rc = fx.func('opensmt::Cnfizer::retrieveClause')
    pushes = [n for n in fwalk(rc) if n.get('k') == 'call' and mname(n) == 'push' and not n.get('as')]
    okrc = len(pushes) == 1 and is_call(see_through(pushes[0]['a'][0]), 'getOrCreateLiteralFor') and any(is_call(x, 'retrieveClause') for x in fwalk(rc))
    if okrc:
        res.ok(r, 'retrieveClause: positive literal of every disjunct leaf, recursion through nested or')
    else:
        res.bad(r, 'retrieve-clause', fx.loc(rc), 'Cnfizer::retrieveClause no longer collects exactly the literals of the disjuncts')
    # the recogniser must look as deep as the consumer: retrieveClause descends into nested `or`s and keeps only literals,
    # so isClause has to descend into nested `or`s too and reject on any non-literal leaf
    ic = fx.func('opensmt::Cnfizer::isClause')
    deep = False
    for lp in (x for x in walk(ic['body']) if x.get('k') == 'loop'):
        for n in walk(lp['body']):
            if n.get('k') == 'if' and not n.get('as') and any(is_call(x, 'isOr') for x in walk(n['cond'])):
                descends = any(x.get('k') == 'call' and mname(x) in ('push', 'push_back', 'isClause') for x in walk(n['then']))
                els = n.get('else')
                rejects = els is not None and any(y.get('k') == 'if' and any(is_call(z, 'isLiteral') for z in walk(y['cond'])) and
                                                  any(z.get('k') == 'ret' and isinstance(see_through(z.get('e')), dict) and see_through(z['e']).get('v') is False for z in walk(y['then']))
                                                  for y in walk(els))
                if descends and rejects:
                    deep = True
    recursive = any(is_call(x, 'isClause') for x in fwalk(ic))
    if deep or recursive:
        res.ok(r, 'isClause descends through nested `or` and rejects any non-literal leaf (as deep as retrieveClause)')
    else:
        res.bad(r, 'clause-recogniser-shallow', fx.loc(ic), 'Cnfizer::isClause no longer inspects the members of nested disjunctions, but retrieveClause descends into them and keeps only the literals: '
                'a non-literal member is silently dropped from the clause and the assertion is strengthened')
    gt = fx.func('opensmt::TermMapper::getTerm')
    sgn = next((prm['n'] for prm in gt['params'] if 'bool' in prm['t']), None)
    assigns = []
    for n in fwalk(gt):
        aa = as_assign(n)
        if aa and path_of(aa[0]) == sgn:
            rv = see_through(aa[1])
            inloop = any(lp.get('k') == 'loop' and any(y is n for y in walk(lp['body'])) for lp in walk(gt['body']))
            if isinstance(rv, dict) and rv.get('k') == 'lit':
                assigns.append(('lit', rv['v'], inloop))
            elif isinstance(rv, dict) and rv.get('k') == 'un' and rv.get('op') == '!' and path_of(rv['e']) == sgn:
                assigns.append(('flip', None, inloop))
            else:
                assigns.append(('other', None, inloop))
    loop_on_not = any(lp.get('k') == 'loop' and 'getSym_not' in str(lp.get('cond')) for lp in walk(gt['body']))
    if sorted(assigns, key=str) == sorted([('lit', False, False), ('flip', None, True)], key=str) and loop_on_not:
        res.ok(r, 'TermMapper::getTerm: sign starts false and flips once per peeled `not`')
    else:
        res.bad(r, 'literal-sign', fx.loc(gt), 'TermMapper::getTerm no longer computes the sign of a literal as the parity of the peeled negations (%s)' % assigns)
    gl = fx.func('opensmt::TermMapper::getOrCreateLit')
    oksg = False
    for n in fwalk(gl):
        if n.get('k') == 'call' and callee(n).endswith('mkLit') and len(n.get('a', [])) == 2:
            sv = path_of(n['a'][1])
            oksg = any(is_call(x, 'getTerm') and len(x.get('a', [])) == 3 and path_of(x['a'][2]) == sv for x in fwalk(gl))
    if oksg:
        res.ok(r, 'TermMapper::getOrCreateLit: mkLit(var, sign computed by getTerm)')
    else:
        res.bad(r, 'literal-sign-use', fx.loc(gl), 'TermMapper::getOrCreateLit no longer builds the literal with the sign computed by getTerm')


# ------------------------------------------------------------------ let: parallel binding
class LetOrder(Client):
    def __init__(self):
        self.bad = []

    def on_call(self, n, s):
        if is_call(n, 'addBinding'):
            return ('bound',)
        if is_call(n, 'parseTerm') and s == 'bound':
            self.bad.append(n.get('ln'))
        return (s,)


def let_rule(res, fx):
    r = res.rule('let-parallel-binding', 'Interpret::addLetFrame parses every binding term of a let before it inserts any of the bindings (SMT-LIB let binds in parallel)', floor=1)
    f = fx.func('opensmt::Interpret::addLetFrame')
    c = LetOrder()
    eng = Engine(f, c)
    eng.run(['clean'])
    if not any(is_call(n, 'addBinding') for n in fwalk(f)) or not any(is_call(n, 'parseTerm') for n in fwalk(f)):
        raise AnalysisBroken('addLetFrame no longer calls parseTerm / addBinding')
    if c.bad:
        res.bad(r, 'let-sequential', fx.loc(f, c.bad[0]), 'Interpret::addLetFrame parses a binding term (line %s) after an earlier binding of the same let was inserted: '
                '(let ((x t1) (y x)) ...) then reads the new x instead of the outer one (let* semantics)' % sorted(set(c.bad)))
    else:
        res.ok(r, fx.loc(f))


# ------------------------------------------------------------------ SatELite guards
def elimination_rule(res, fx):
    r = res.rule('elimination-guard', 'SatELite never eliminates a frozen variable: eliminateVar is called only under !frozen[v]; asymmVar runs with the variable temporarily frozen; '
                 'theory atoms, mapper-frozen variables, assumptions, frame variables and variables announced without a clause are frozen; no clause is added after an elimination that stays switched on', floor=7)
    el = fx.func('opensmt::SimpSMTSolver::eliminate')
    calls = [n for n in fwalk(el) if is_call(n, 'eliminateVar') and not n.get('as')]
    if not calls:
        raise AnalysisBroken('SimpSMTSolver::eliminate no longer calls eliminateVar')
    for c in calls:
        arg = path_of(c['a'][0])
        guarded = False
        # find the innermost && chain / if condition containing the call and an earlier !frozen[arg]
        for n in walk(el['body']):
            if n.get('k') == 'if' and not n.get('as') and any(y is c for y in walk(n['cond'])):
                conj = []

                def flat(e):
                    e = see_through(e)
                    if isinstance(e, dict) and e.get('k') == 'bin' and e.get('op') == '&&':
                        flat(e['l']); flat(e['r'])
                    else:
                        conj.append(e)
                flat(n['cond'])
                idx = next((i for i, e in enumerate(conj) if any(y is c for y in walk(e))), None)
                for e in conj[:idx if idx is not None else 0]:
                    e = see_through(e)
                    if isinstance(e, dict) and e.get('k') == 'un' and e.get('op') == '!' and (path_of(e['e']) or '').startswith('this.frozen') and arg in str(e['e']):
                        guarded = True
            if n.get('k') == 'if' and not n.get('as') and any(y is c for y in walk(n['then'])):
                if '!' in str(n['cond']) and 'frozen' in str(n['cond']):
                    guarded = True
        if guarded:
            res.ok(r, 'eliminate: eliminateVar(%s) under !frozen[%s]' % (arg, arg))
        else:
            res.bad(r, 'eliminate-unguarded', fx.loc(el, c['ln']), 'SimpSMTSolver::eliminate calls eliminateVar(%s) without the !frozen[%s] test: theory atoms, assumption and named-term variables can be resolved away' % (arg, arg))
    # asymmVar idiom
    av = [n for n in fwalk(el) if is_call(n, 'asymmVar') and not n.get('as')]
    for c in av:
        arg = path_of(c['a'][0])
        seq_ok = False
        for blk in (b for b in walk(el['body']) if b.get('k') == 'seq'):
            items = blk['c']
            idx = next((i for i, s in enumerate(items) if isinstance(s, dict) and any(y is c for y in walk(s))), None)
            if idx is None:
                continue
            before = items[:idx]
            after = items[idx + 1:]
            set_true = any(as_assign(see_through(s.get('e'))) and 'frozen' in (path_of(as_assign(see_through(s['e']))[0]) or '') and str(see_through(as_assign(see_through(s['e']))[1]).get('v')) == 'True'
                           for s in before if isinstance(s, dict) and s.get('k') == 'e' and isinstance(see_through(s.get('e')), dict))
            restored = any(as_assign(see_through(s.get('e'))) and 'frozen' in (path_of(as_assign(see_through(s['e']))[0]) or '')
                           for s in after if isinstance(s, dict) and s.get('k') == 'e' and isinstance(see_through(s.get('e')), dict))
            if set_true and restored:
                seq_ok = True
        if seq_ok:
            res.ok(r, 'eliminate: asymmVar(%s) bracketed by frozen[%s] = true / restore' % (arg, arg))
        else:
            res.bad(r, 'asymm-unbracketed', fx.loc(el, c['ln']), 'asymmVar is no longer bracketed by freezing and restoring the variable')
    ao = fx.func('opensmt::SimpSMTSolver::addOriginalSMTClause')
    okf = False
    for n in walk(ao['body']):
        if n.get('k') == 'if' and not n.get('as') and any(is_call(x, 'setFrozen') for x in walk(n['then'])):
            c = see_through(n['cond'])
            names = {mname(x) for x in walk(c) if x.get('k') == 'call'}
            okf = isinstance(c, dict) and c.get('k') == 'bin' and c.get('op') == '||' and {'isTheoryTerm', 'isFrozen'} <= names
    if okf:
        res.ok(r, 'addOriginalSMTClause: setFrozen(v) if isTheoryTerm(tr) || isFrozen(v), for every literal of the clause')
    else:
        res.bad(r, 'freeze-on-add', fx.loc(ao), 'SimpSMTSolver::addOriginalSMTClause no longer freezes the variables of theory atoms and mapper-frozen terms')
    # variables announced to the SAT solver outside a clause (Boolean terms nested in uninterpreted functions) must be frozen too: they have no clause,
    # an unfrozen one is eliminated at once, never decided, and the congruence closure never learns its value
    n_announce = 0
    for f in sorted(fx.F.values(), key=lambda f: f['name']):
        if not f.get('body') or '/smtsolvers/' in f['file']:
            continue
        for blk in (b for b in walk(f['body'], f.get('lambdas')) if b.get('k') == 'seq'):
            items = [x for x in blk['c'] if isinstance(x, dict)]
            for st in items:
                for c in ([see_through(st['e'])] if st.get('k') == 'e' and isinstance(see_through(st.get('e')), dict) else []):
                    if is_call(c, 'addVar') and (c.get('cls') or '').endswith('SMTSolver') and c.get('a'):
                        n_announce += 1
                        def shape(e):
                            return {k_: (shape(v_) if isinstance(v_, dict) else [shape(y_) if isinstance(y_, dict) else y_ for y_ in v_] if isinstance(v_, list) else v_)
                                    for k_, v_ in e.items() if k_ not in ('ln', 'col')} if isinstance(e, dict) else e
                        arg = shape(c['a'][0])
                        frozen_here = any(is_call(x, 'setFrozen') and (x.get('cls') or '').endswith('SMTSolver') and x.get('a') and shape(x['a'][0]) == arg and
                                          str(see_through(x['a'][1]).get('v')) == 'True' for y in items for x in walk(y))
                        if frozen_here:
                            res.ok(r, '%s: variable announced with addVar is frozen in the same block' % f['name'].replace('opensmt::', ''))
                        else:
                            res.bad(r, 'announced-variable-not-frozen', fx.loc(f, c.get('ln')), '%s announces a variable to the SAT solver (addVar) without freezing it: with :incremental false the '
                                    'variable of a Boolean term nested in an uninterpreted function that occurs in no clause is eliminated, never decided, and the congruence closure never '
                                    'learns its value (sat on unsatisfiable input)' % f['name'].replace('opensmt::', ''))
    if n_announce == 0:
        raise AnalysisBroken('elimination-guard: no addVar announcement outside the SAT solver found (anchor: MainSolver::solve)')
    ss = fx.func('opensmt::SimpSMTSolver::solve_', nparams=2)
    exits, eng = must_call(ss, {'freeze': lambda n: is_call(n, 'setFrozen') and str(see_through(n['a'][1]).get('v')) == 'True',
                                'elim': lambda n: is_call(n, 'eliminate')})
    order_ok = True
    seen = []
    for n in fwalk(ss):
        if n.get('k') == 'call' and mname(n) in ('setFrozen', 'eliminate') and not n.get('as'):
            seen.append(mname(n))
    if seen[:2] == ['setFrozen', 'eliminate'] and seen.count('setFrozen') >= 2:
        res.ok(r, 'solve_: assumptions frozen before eliminate, unfrozen afterwards')
    else:
        res.bad(r, 'assumptions-not-frozen', fx.loc(ss), 'SimpSMTSolver::solve_ no longer freezes the assumption variables before eliminate() and releases them afterwards (%s)' % seen)
    # elimination stays switched on across checks exactly when incremental mode is off (solve(assumps, !isIncremental(), isIncremental())):
    # then no clause may be added after the first check, because it could mention an eliminated variable (only asserted in addOriginalSMTClause)
    ms = fx.func('opensmt::MainSolver::solve_')
    keeps_elim = False
    for n in fwalk(ms):
        if is_call(n, 'solve') and len(n.get('a', [])) == 3:
            a1, a2 = str(n['a'][1]), str(n['a'][2])
            keeps_elim = 'isIncremental' in a1 and 'isIncremental' in a2
    if keeps_elim:
        ins = fx.func('opensmt::MainSolver::insertFormula')
        gate = False
        for n in walk(ins['body']):
            if n.get('k') == 'if' and not n.get('as') and any(x.get('k') == 'throw' for x in walk(n['then'])) and any(is_call(x, 'isIncremental') for x in walk(n['cond'])):
                gate = True
        guarded_add = False
        ao2 = fx.func('opensmt::SimpSMTSolver::addOriginalSMTClause')
        for n in walk(ao2['body']):
            if n.get('k') == 'if' and not n.get('as') and any(is_call(x, 'isEliminated') for x in walk(n['cond'])) and any(x.get('k') in ('throw', 'ret') for x in walk(n['then'])):
                guarded_add = True
        if gate or guarded_add:
            res.ok(r, 'with incremental mode off elimination persists across checks; %s' % ('insertFormula rejects assertions after the first check' if gate else 'addOriginalSMTClause rejects eliminated variables'))
        else:
            res.bad(r, 'clause-after-elimination', fx.loc(ins), 'with :incremental false MainSolver::solve_ keeps variable elimination switched on after a check, but assertions made after that check are '
                    'still accepted and may mention eliminated variables (addOriginalSMTClause only asserts !isEliminated): the second check-sat answers from a formula that lost their clauses')
    else:
        res.ok(r, 'MainSolver::solve_ does not keep elimination on across checks')
    nf = fx.func('opensmt::MainSolver::newFrameTerm')
    if any(is_call(n, 'setFrozen') for n in fwalk(nf)) and any(is_call(n, 'addAssumptionVar') for n in fwalk(nf)):
        res.ok(r, 'newFrameTerm: frame variable frozen in the term mapper and registered as assumption variable')
    else:
        res.bad(r, 'frame-var-not-frozen', fx.loc(nf), 'MainSolver::newFrameTerm no longer freezes the frame variable')


# ------------------------------------------------------------------ sat exits
TRAIL_CHANGERS = {'propagate', 'uncheckedEnqueue', 'cancelUntil', 'newDecisionLevel', 'analyze'}


class SatExit(Client):
    """state = (complete-checked?, env of local bools / ==lit_Undef facts)"""

    def __init__(self, complete_checkers, clearing, sat_pred):
        self.cc, self.clearing, self.sat_pred = complete_checkers, clearing, sat_pred
        self.sat_exits = []

    def on_call(self, n, s):
        ck, env = s
        aa = as_assign(n)
        if aa:
            return self.on_assign(n, s)
        m = mname(n)
        if m in self.cc and self.cc[m](n):
            return ((True, env),)
        if self.clearing and m in TRAIL_CHANGERS:
            return ((False, env),)
        return (s,)

    def on_assign(self, n, s):
        ck, env = s
        aa = as_assign(n)
        if not aa:
            return (s,)
        p = path_of(aa[0])
        if p is None:
            return (s,)
        env = frozenset(x for x in env if x[0] != p)
        rv = see_through(aa[1])
        if isinstance(rv, dict) and rv.get('k') == 'lit' and isinstance(rv.get('v'), bool):
            env = env | {(p, rv['v'])}
        return ((ck, env),)

    def on_decl(self, n, s):
        ck, env = s
        env = frozenset(x for x in env if x[0] != n['n'])
        rv = see_through(n.get('init')) if n.get('init') is not None else None
        if isinstance(rv, dict) and rv.get('k') == 'lit' and isinstance(rv.get('v'), bool):
            env = env | {(n['n'], rv['v'])}
        return ((ck, env),)

    def on_cond(self, atom, s, branch):
        ck, env = s
        a = see_through(atom)
        key = None
        if isinstance(a, dict) and a.get('k') == 'ref' and a.get('d') == 'local':
            key, val = a['n'], branch
        elif isinstance(a, dict) and a.get('k') in ('call', 'bin') and a.get('op') in ('==', '!='):
            l = a.get('recv') if a.get('k') == 'call' else a.get('l')
            rr = (a.get('a') or [None])[0] if a.get('k') == 'call' else a.get('r')
            if a.get('k') == 'call' and l is None and len(a.get('a', [])) == 2:
                l, rr = a['a'][0], a['a'][1]
            for x, y in ((l, rr), (rr, l)):
                px = path_of(x)
                if px and 'lit_Undef' in str(y) and isinstance(see_through(x), dict) and see_through(x).get('d') == 'local':
                    key, val = px + '==undef', (branch if a.get('op') == '==' else not branch)
        if key:
            d = dict(env)
            if key in d and d[key] != val:
                return None
            env = frozenset(x for x in env if x[0] != key) | {(key, val)}
            # an assignment to the variable drops the fact (handled in on_assign through the path prefix)
        return (ck, env)

    def on_exit(self, kind, node, s):
        if kind == 'return' and self.sat_pred(node):
            self.sat_exits.append((node.get('ln'), s[0]))


def _drop_undef_facts(env, p):
    return frozenset(x for x in env if x[0] not in (p, p + '==undef'))


def sat_exit_walk(f, complete_checkers, clearing, sat_pred):
    c = SatExit(complete_checkers, clearing, sat_pred)
    # make assignments drop the ==undef facts as well
    orig = c.on_assign

    def on_assign(n, s):
        aa = as_assign(n)
        if aa and path_of(aa[0]):
            s = (s[0], _drop_undef_facts(s[1], path_of(aa[0])))
        return orig(n, s)
    c.on_assign = on_assign
    eng = Engine(f, c)
    eng.run([(False, frozenset())])
    if eng.broken:
        raise AnalysisBroken('%s: %s' % (f['name'], eng.broken))
    return c.sat_exits


def is_true_lit(e):
    e = see_through(e)
    return isinstance(e, dict) and e.get('k') == 'lit' and e.get('v') is True


def lbool_is(e, which):
    e = see_through(e)
    if isinstance(e, dict) and e.get('k') == 'new' and (e.get('t') or '').endswith('lbool') and e.get('a'):
        a = see_through(e['a'][0])
        if isinstance(a, dict) and a.get('k') == 'new' and a.get('a'):
            a = see_through(a['a'][0])
        return isinstance(a, dict) and a.get('k') == 'lit' and a.get('v') == which
    return False


def complete_check_rules(res, fx):
    """C02 clause 2 (shared with C05): every sat exit of every engine is preceded by a complete theory check on the final trail"""
    r = res.rule('complete-check-before-sat', 'every exit of a search engine that reports "model found" is preceded, on every path, by a complete theory check '
                 '(checkTheory(true) or laPropagateWrapper, whose own sat exit is checked the same way); in the CDCL loop and the propagate wrapper no trail change lies between the check and the exit', floor=5)
    cc = {'checkTheory': lambda n: n.get('a') and is_true_lit(n['a'][0])}
    cc_la = dict(cc)
    cc_la['laPropagateWrapper'] = lambda n: True
    se = fx.func('opensmt::CoreSMTSolver::search')
    ex = sat_exit_walk(se, cc, True, lambda nd: lbool_is(nd.get('e'), 0))
    if not ex:
        raise AnalysisBroken('CoreSMTSolver::search: no `return l_True` exit found')
    for ln, ok in sorted(set(ex)):
        if ok:
            res.ok(r, 'search: return l_True (line %s) after checkTheory(true, ...) with no trail change in between' % ln)
        else:
            res.bad(r, 'sat-without-complete-check:search', fx.loc(se, ln), 'CoreSMTSolver::search can return l_True (line %s) on a path without a complete theory check of the final assignment: '
                    'a theory-inconsistent Boolean model is reported as sat' % ln)
    lw = fx.func('opensmt::LookaheadSMTSolver::laPropagateWrapper')
    ex = sat_exit_walk(lw, cc, True, lambda nd: lbool_is(nd.get('e'), 0))
    if not ex:
        raise AnalysisBroken('laPropagateWrapper: no `return l_True` exit found')
    for ln, ok in sorted(set(ex)):
        if ok:
            res.ok(r, 'laPropagateWrapper: return l_True (line %s) only after checkTheory(true) found nothing to propagate' % ln)
        else:
            res.bad(r, 'sat-without-complete-check:laPropagateWrapper', fx.loc(lw, ln), 'laPropagateWrapper can return l_True (line %s) without a complete theory check of the final trail' % ln)
    ll = fx.func('opensmt::LookaheadSMTSolver::lookaheadLoop')
    ex = sat_exit_walk(ll, cc_la, False, lambda nd: 'la_sat' in str(nd.get('e')))
    if len(set(ex)) < 3:
        raise AnalysisBroken('lookaheadLoop: expected three la_sat exits, found %d' % len(set(ex)))
    for ln, ok in sorted(set(ex)):
        if ok:
            res.ok(r, 'lookaheadLoop: la_sat (line %s) after a complete check' % ln)
        else:
            res.bad(r, 'sat-without-complete-check:lookaheadLoop', fx.loc(ll, ln), 'lookaheadLoop reports la_sat (line %s) on a path without checkTheory(true) / laPropagateWrapper' % ln)

    # ---- checkTheory itself
    r = res.rule('checktheory-decide', 'CoreSMTSolver::checkTheory answers Decide without asking the theory only under the !complete skip heuristic; otherwise Decide comes from '
                 'handleSat() after theory_handler.check(complete), to which `complete` is forwarded unchanged down to every theory solver', floor=4)
    ct = fx.func('opensmt::CoreSMTSolver::checkTheory', nparams=2)
    cpar = ct['params'][0]['n']

    class CT(Client):
        """state = (complete?, theory asked?, known enum value of locals as frozenset((var, enumerator)), last condition-expression branch)"""

        def __init__(self):
            self.bad = []
            self.n_decide = 0

        def on_cond(self, atom, s, branch):
            a = see_through(atom)
            comp, chk, env, lastc = s
            if isinstance(a, dict) and a.get('k') == 'ref' and a.get('n') == cpar:
                if comp is not None and comp != branch:
                    return None
                return (branch, chk, env, lastc)
            if isinstance(atom, dict) and atom.get('k') == 'case':
                known = dict(env).get(path_of(atom.get('sw')))
                if known is not None:
                    def lab(v):
                        v = see_through(v)
                        return v['n'].split('::')[-1] if isinstance(v, dict) and v.get('k') == 'ref' else None
                    if atom.get('v') is not None:
                        if lab(atom['v']) is not None and lab(atom['v']) != known:
                            return None
                    elif known in [lab(o) for o in atom.get('others', [])]:
                        return None
                return s
            if isinstance(a, dict) and a.get('k') == 'call' and not a.get('op'):
                return (comp, chk, env, (a.get('ln'), mname(a), branch))
            # comparison of a local with an enumerator whose value is known on this path
            if isinstance(a, dict) and a.get('k') in ('bin', 'call') and a.get('op') in ('==', '!='):
                l = a.get('l') if a.get('k') == 'bin' else (a.get('recv') if a.get('recv') is not None else (a.get('a') or [None, None])[0])
                rr = a.get('r') if a.get('k') == 'bin' else ((a.get('a') or [None])[0] if a.get('recv') is not None else (a.get('a') or [None, None])[1])
                for x, y in ((l, rr), (rr, l)):
                    px = path_of(x)
                    y = see_through(y)
                    if px and isinstance(y, dict) and y.get('k') == 'ref' and y.get('d') == 'enum':
                        known = dict(env).get(px)
                        if known is not None:
                            eq = (known == y['n'].split('::')[-1])
                            truth = eq if a.get('op') == '==' else not eq
                            if truth != branch:
                                return None
            return s

        def on_decl(self, n, s):
            comp, chk, env, lastc = s
            init = see_through(n.get('init')) if n.get('init') is not None else None
            env = frozenset(x for x in env if x[0] != n['n'])
            if isinstance(init, dict) and init.get('k') == 'cond' and lastc is not None:
                arm = see_through(init['t'] if lastc[2] else init['f'])
                if isinstance(arm, dict) and arm.get('k') == 'ref' and arm.get('d') == 'enum':
                    env = env | {(n['n'], arm['n'].split('::')[-1])}
            return ((comp, chk, env, lastc),)

        def on_call(self, n, s):
            if is_call(n, 'check') and (recv_path(n) or '').endswith('theory_handler'):
                return ((s[0], True, s[2], s[3]),)
            return (s,)

        def on_exit(self, kind, node, s):
            if kind != 'return' or node.get('e') is None:
                return
            e = see_through(node['e'])
            if isinstance(e, dict) and e.get('k') == 'ref' and e.get('d') == 'enum' and e['n'].endswith('Decide'):
                self.n_decide += 1
                comp, chk = s[0], s[1]
                if comp is not False and not chk:
                    self.bad.append(node.get('ln'))
    c = CT()
    eng = Engine(ct, c)
    eng.run([(None, False, frozenset(), None)])
    if eng.broken:
        raise AnalysisBroken('checkTheory: %s' % eng.broken)
    if c.bad:
        res.bad(r, 'decide-without-check', fx.loc(ct, c.bad[0]), 'CoreSMTSolver::checkTheory can return Decide (line %s) for a complete call without having asked the theory solvers: '
                'search() then takes the Boolean model for a theory model' % sorted(set(c.bad)))
    else:
        res.ok(r, 'checkTheory: literal Decide only under !complete or after theory_handler.check (%d exits)' % c.n_decide)
    calls = [n for n in fwalk(ct) if is_call(n, 'check') and (recv_path(n) or '').endswith('theory_handler')]
    if calls and all(path_of(n['a'][0]) == cpar for n in calls):
        res.ok(r, 'checkTheory forwards `complete` to theory_handler.check')
    else:
        res.bad(r, 'complete-not-forwarded:checkTheory', fx.loc(ct), 'checkTheory no longer passes its `complete` flag to theory_handler.check')
    for fname in ('opensmt::THandler::check', 'opensmt::TSolverHandler::check'):
        f = fx.func(fname)
        pn = f['params'][0]['n']
        calls = [n for n in fwalk(f) if is_call(n, 'check') and not n.get('as')]
        if calls and all(n.get('a') and path_of(n['a'][0]) == pn for n in calls):
            res.ok(r, '%s forwards `%s`' % (fname, pn))
        else:
            res.bad(r, 'complete-not-forwarded:%s' % fname, fx.loc(f), '%s no longer forwards the `complete` flag unchanged to the solvers it schedules' % fname)
    la = fx.func('opensmt::LASolver::check')
    pn = la['params'][0]['n']
    okla = False
    for n in walk(la['body']):
        if n.get('k') == 'if' and not n.get('as') and any(x.get('k') == 'ref' and x.get('n') == pn for x in walk(n['cond'])) and any(is_call(x, 'checkIntegersAndSplit') for x in walk(n['then'])):
            # the guard may only combine `complete` with local results of this check (no further option / state narrows it)
            okla = all(x.get('k') in ('bin', 'ref', 'cast') and (x.get('k') != 'ref' or x.get('d') in ('param', 'local')) and (x.get('k') != 'bin' or x.get('op') == '&&') for x in walk(n['cond']))
    if okla:
        res.ok(r, 'LASolver::check: checkIntegersAndSplit on the complete, simplex-consistent path')
    else:
        res.bad(r, 'no-integer-check', fx.loc(la), 'LASolver::check no longer runs checkIntegersAndSplit for a complete check: a rational model is accepted for integer variables')
    # UNKNOWN never reaches checkTheory for a complete check
    unk = []
    for f in fx.F.values():
        if f['name'].endswith('::check') and (f.get('class') or '').startswith('opensmt::') and f.get('ret', '').endswith('TRes'):
            for n in walk(f['body']):
                if n.get('k') == 'ret' and isinstance(see_through(n.get('e')), dict) and see_through(n['e']).get('k') == 'ref' and see_through(n['e'])['n'].endswith('UNKNOWN'):
                    unk.append(f['name'])
    ci = fx.func('opensmt::LASolver::checkIntegersAndSplit')
    leak = False
    for n in walk(ci['body']):
        if n.get('k') == 'ret' and n.get('e') is not None:
            e = see_through(n['e'])
            if isinstance(e, dict) and e.get('k') == 'ref' and e.get('d') == 'local':
                # returned variable must be guarded by `!= UNKNOWN`
                guarded = any(g.get('k') == 'if' and 'UNKNOWN' in str(g.get('cond')) and any(y is n for y in walk(g['then'])) for g in walk(ci['body']))
                leak = leak or not guarded
            if isinstance(e, dict) and e.get('k') == 'ref' and e['n'].endswith('UNKNOWN'):
                leak = True
    if unk or leak:
        res.bad(r, 'unknown-reaches-decide', fx.loc(ct), 'a theory check can return TRes::UNKNOWN (%s) and checkTheory maps UNKNOWN to Decide: an undecided complete check ends the search with sat' % (unk or 'checkIntegersAndSplit'))
    else:
        res.ok(r, 'no TSolver::check returns UNKNOWN; cutFromProof\'s UNKNOWN is consumed in checkIntegersAndSplit')


# ------------------------------------------------------------------ conflict-clause minimisation scratch state
def minimisation_rule(res, fx):
    r = res.rule('minimisation-scratch-restored', 'CoreSMTSolver::litRedundant un-marks every `seen` entry it set (from `top` on) and shrinks analyze_toclear before every exit that answers '
                 '"not redundant": marks of an aborted walk must not make later literals of the same learnt clause look implied', floor=2)
    f = fx.func('opensmt::CoreSMTSolver::litRedundant')

    def unmark(n):
        aa = as_assign(n)
        if not aa:
            return False
        p = path_of(aa[0]) or ''
        rv = see_through(aa[1])
        return p.startswith('this.seen') and isinstance(rv, dict) and rv.get('k') == 'lit' and rv.get('v') in (0, False)
    # every `return false` inside the walk loop: its block must first run the un-mark loop (from `top`) and shrink analyze_toclear
    loops = [n for n in walk(f['body']) if n.get('k') == 'loop' and n.get('kind') == 'while']
    if not loops:
        raise AnalysisBroken('litRedundant: walk loop not found')
    n_false = 0
    bad = []
    for blk in (b for b in walk(loops[0]['body']) if b.get('k') == 'seq'):
        items = [x for x in blk['c'] if isinstance(x, dict)]
        for i, st in enumerate(items):
            if st.get('k') == 'ret' and isinstance(see_through(st.get('e')), dict) and see_through(st['e']).get('v') is False:
                n_false += 1
                before = items[:i]
                has_unmark = any(b.get('k') == 'loop' and any(unmark(y) for y in walk(b['body']) if isinstance(y, dict)) and 'top' in str(b.get('init')) for b in before)
                has_shrink = any(is_call(y, 'shrink', 'this.analyze_toclear') for b in before for y in walk(b))
                if not (has_unmark and has_shrink):
                    bad.append(st.get('ln'))
    # a `return false` that is the sole statement of an if-branch (no block) has no cleanup at all
    for n in walk(loops[0]['body']):
        if n.get('k') == 'if':
            for br in (n.get('then'), n.get('else')):
                if isinstance(br, dict) and br.get('k') == 'ret' and isinstance(see_through(br.get('e')), dict) and see_through(br['e']).get('v') is False:
                    n_false += 1
                    bad.append(br.get('ln'))
    if n_false == 0:
        raise AnalysisBroken('litRedundant: no `return false` exit inside the walk loop')
    if bad:
        res.bad(r, 'minimisation-marks-leak', fx.loc(f, bad[0]), 'CoreSMTSolver::litRedundant returns false at line %s without un-marking the `seen` entries of the aborted walk: a later literal of the same '
                'conflict is then dropped as "implied" although it is not, the learnt clause is unsound and a satisfiable input can be answered unsat (only under configurations that minimise)' % sorted(set(bad)))
    else:
        res.ok(r, 'litRedundant: %d negative exits inside the walk, all after un-marking from `top` and shrinking' % n_false)
    # analyze clears every mark at its end
    an = fx.func('opensmt::CoreSMTSolver::analyze')
    if any(x.get('k') == 'loop' and any(unmark(y) for y in walk(x['body']) if isinstance(y, dict)) and 'analyze_toclear' in str(x) for x in walk(an['body'])):
        res.ok(r, 'analyze: clears seen[] for all of analyze_toclear at its end')
    else:
        res.bad(r, 'analyze-marks-leak', fx.loc(an), 'CoreSMTSolver::analyze no longer clears the seen[] marks of analyze_toclear before returning')


# ------------------------------------------------------------------ difference logic: label-correcting searches re-queue improved vertices
def requeue_rule(res, fx):
    r = res.rule('label-correcting-requeue', 'in the shortest-path searches of the difference-logic solver (STPGraphManager::dfsSearch, STPModel::bellmanFord) every block that '
                 'improves the distance label of a vertex also puts that vertex back on the work list: otherwise vertices expanded from it keep too-long distances, '
                 'consequences are missed and a negative cycle is accepted (the STP solver has no other consistency check)', floor=2)
    from walk import Client, Engine

    class Relax(Client):
        """one iteration of the edge loop: (lines of the label writes on this path, re-queued?)"""

        def __init__(self, worklists, costly):
            self.worklists, self.costly = worklists, set(costly)
            self.exits = set()

        def cost_derived(self, e):
            return any(x.get('k') == 'mem' and x.get('n') == 'cost' or (x.get('k') == 'ref' and x.get('n') in self.costly) for x in [e] + list(walk(e)) if isinstance(x, dict))

        def write(self, n, s):
            aa = as_assign(n)
            if aa and (path_of(aa[0]) or '').endswith('[]') and self.cost_derived(aa[1]):
                return (s[0] | {n.get('ln')}, s[1])
            return s

        def on_assign(self, n, s):
            return (self.write(n, s),)

        def on_decl(self, n, s):
            if n.get('init') is not None and self.cost_derived(n['init']):
                self.costly.add(n['n'])
            return (s,)

        def on_call(self, n, s):
            s = self.write(n, s)
            if mname(n) in ('push', 'push_back', 'emplace', 'emplace_back') and (recv_path(n) or '') in self.worklists:
                s = (s[0], True)
            return (s,)

        def on_exit(self, kind, node, s):
            self.exits.add(s)

    n_sites = 0
    for f in sorted(fx.F.values(), key=lambda f: f['name']):
        short = f['name'].split('::')[-1]
        if short not in ('dfsSearch', 'bellmanFord') or '/stpsolver/' not in f['file'] or not f.get('body'):
            continue
        outer = [l for l in walk(f['body']) if l.get('k') == 'loop' and l.get('kind') == 'while' and any(is_call(x, 'empty') for x in walk(l.get('cond') or {}))]
        if len(outer) != 1:
            raise AnalysisBroken('%s: work-list loop not found' % f['name'])
        worklists = {recv_path(x) for x in walk(outer[0]['cond']) if is_call(x, 'empty')}
        inner = [l for l in walk(outer[0]['body']) if l.get('k') == 'loop']
        if len(inner) != 1:
            raise AnalysisBroken('%s: edge loop not found' % f['name'])
        c = Relax(worklists, [])
        pseudo = {'body': {'k': 'loop', 'kind': 'do', 'cond': {'k': 'lit', 'v': False, 't': 'bool'}, 'body': inner[0]['body'], 'ln': inner[0].get('ln')}, 'lambdas': f.get('lambdas', [])}
        eng = Engine(pseudo, c)
        eng.run([(frozenset(), False)])
        if eng.broken:
            raise AnalysisBroken('%s: %s' % (f['name'], eng.broken))
        lines = sorted({ln for st in c.exits for ln in st[0]})
        for ln in lines:
            n_sites += 1
            lost = [st for st in c.exits if ln in st[0] and not st[1]]
            if lost:
                res.bad(r, 'relaxation-without-requeue:%s' % short, fx.loc(f, ln), '%s: a path through one edge improves a distance label (line %s) without putting the vertex back on the work '
                        'list: distances of vertices already expanded from it stay too long' % (f['name'].replace('opensmt::', ''), ln))
            else:
                res.ok(r, '%s line %s: every path that writes the label re-queues the vertex' % (f['name'].replace('opensmt::', ''), ln))
    if n_sites < 2:
        raise AnalysisBroken('label-correcting-requeue: expected label writes in dfsSearch and bellmanFord, found %d' % n_sites)


# ---------------------------------------------------------------------------------------------------------------------
def interface_terms_rule(res, fx):
    """C02 (theory combination): which terms are exchanged between the UF/array side and the arithmetic side.  Two independent seeds made numerals under uninterpreted
    symbols interface terms only if they also occur in an arithmetic atom; the arithmetic solver knows the value of every numeral whether or not it occurs there."""
    import itertools
    from boolctor import Interp, Unmodelled, Thrown
    r = res.rule('interface-terms-complete', 'CollectInterfaceVariablesConfig::visit / updateOccurrenceUsingType: after any sequence of visited parent terms, a numeric variable is an interface term '
                 'iff it occurs under an arithmetic symbol and under an uninterpreted symbol / equality / select / store, and a numeral is an interface term as soon as it occurs under an '
                 'uninterpreted symbol / equality / select / store (its value is known to the arithmetic solver without occurring in an arithmetic atom)', floor=50)
    cls = 'opensmt::CollectInterfaceVariablesConfig'
    vis = [f for f in fx.F.values() if f['name'].endswith('CollectInterfaceVariablesConfig::visit') and f.get('body')]
    upd = [f for f in fx.F.values() if f['name'].endswith('CollectInterfaceVariablesConfig::updateOccurrenceUsingType') and f.get('body')]
    if len(vis) != 1 or len(upd) != 1:
        raise AnalysisBroken('CollectInterfaceVariablesConfig::visit / updateOccurrenceUsingType not found (%d, %d)' % (len(vis), len(upd)))
    vis, upd = vis[0], upd[0]
    parent_kinds = ['arith', 'uf', 'eq', 'select', 'store', 'bool']
    children = [('numvar', 'x'), ('numconst', '3')]

    def run_sequence(seq):
        occ, iv = {}, []

        def update(i, a, n):
            it2 = Interp(fx, upd, '?', {})
            it2.oracle = {
                'peek': lambda i2, a2, n2: (i2.env.__setitem__(see_through(n2['a'][1])['n'], occ[a2[0]]) or True) if a2[0] in occ else False,
                'insert': lambda i2, a2, n2: occ.__setitem__(a2[0], a2[1]),
                'push': lambda i2, a2, n2: iv.append(a2[0]),
            }
            env = {upd['params'][0]['n']: a[0], upd['params'][1]['n']: a[1], 'this.occurrences': occ, 'this.interfaceVars': iv}
            try:
                it2.run_env(env)
            except Unmodelled as e:
                if 'falls off the end' not in str(e):
                    raise
            return None
        for pk, child in seq:
            it = Interp(fx, vis, '?', {})
            it.oracle = {
                'getSymRef': lambda i, a, n, pk=pk: ('sym', pk),
                'isArithmeticSymbol': lambda i, a, n: a[-1] == ('sym', 'arith'),
                'isUninterpreted': lambda i, a, n: a[-1] == ('sym', 'uf'),
                'isEquality': lambda i, a, n: a[-1] == ('sym', 'eq'),
                'isArraySelect': lambda i, a, n: a[-1] == ('sym', 'select'),
                'isArrayStore': lambda i, a, n: a[-1] == ('sym', 'store'),
                'getPterm': lambda i, a, n, child=child: [child],
                'isVar': lambda i, a, n: a[0][0] == 'numvar',
                'isNumVar': lambda i, a, n: a[0][0] == 'numvar',
                'isNumConst': lambda i, a, n: a[0][0] == 'numconst',
                'updateOccurrenceUsingType': update,
            }
            try:
                it.run_env({vis['params'][0]['n']: ('term', pk), 'this.logic': ('logic',)})
            except Unmodelled as e:
                if 'falls off the end' not in str(e):
                    raise
        return iv
    n = 0
    bad = None
    try:
        for ln in (1, 2, 3):
            for seq in itertools.product([(pk, ch) for pk in parent_kinds for ch in children], repeat=ln):
                n += 1
                iv = run_sequence(seq)
                want = set()
                for ch in children:
                    under_arith = any(pk == 'arith' and c == ch for pk, c in seq)
                    under_unint = any(pk in ('uf', 'eq', 'select', 'store') and c == ch for pk, c in seq)
                    if (ch[0] == 'numconst' and under_unint) or (under_arith and under_unint):
                        want.add(ch)
                if set(iv) != want or len(iv) != len(set(iv)):
                    bad = bad or (seq, iv, want)
    except Unmodelled as e:
        raise AnalysisBroken('CollectInterfaceVariablesConfig is outside the modelled subset: %s' % e)
    r['instances'] += n
    if bad:
        seq, iv, want = bad
        r['instances'] -= 1
        res.bad(r, 'interface-term-missed', fx.loc(vis), 'CollectInterfaceVariablesConfig: after visiting %s the interface terms are %s, they must be %s: an equality between a term and this one '
                'is never handed from the arithmetic side to the UF / array side, and a complete check answers sat for an unsatisfiable combination'
                % ([('%s(%s)' % (pk, c[1])) for pk, c in seq], [c[1] for c in iv], sorted(c[1] for c in want)))
    else:
        r['sites'].append('%d visit sequences of length 1-3 over %d parent kinds and a numeric variable / a numeral' % (n, len(parent_kinds)))
