"""Special-purpose interpreter: clause templates of the CNF encoders (DESIGN 3-C01 / 3-C02).

Reads the mini-AST of a gate encoder (Tseitin::cnfizeAnd/Or/Xor/Iff/Ifthenelse/Implies) or a top-level emitter and
builds a *clause template*: fixed clauses over {v, a0, a1, a2}, per-argument clauses over {v, a_i} emitted in the loop over
the gate's arguments, and accumulated clauses (a vec<Lit> pushed outside / inside the loop and emitted once).  Nothing is
executed: the template is a symbolic object, instantiated for arities 1..4 and compared with the gate's definition by an
exhaustive truth table.  Any statement outside the understood subset raises Unmodelled (=> ANALYSIS-BROKEN, never a verdict).
"""
import itertools

from facts import see_through, callee, path_of, recv_path
from prims import mname


class Unmodelled(Exception):
    pass


class Template:
    def __init__(self):
        self.fixed = []        # list of clauses; clause = tuple of (sign, sym) with sym in 'v','a0','a1','a2'
        self.per_arg = []      # clauses over 'v' and 'ai'
        self.acc = {}          # name -> {'fixed': [lits], 'per': [lits], 'emitted': bool}
        self.emitted = []      # names of accumulated clauses emitted, in order
        self.calls = []        # other calls seen (name)

    def instantiate(self, n):
        out = [tuple(c) for c in self.fixed]
        for i in range(n):
            for c in self.per_arg:
                out.append(tuple((s, ('a%d' % i) if x == 'ai' else x) for s, x in c))
        for name in self.emitted:
            a = self.acc[name]
            cl = list(a['fixed'])
            for i in range(n):
                cl += [(s, ('a%d' % i) if x == 'ai' else x) for s, x in a['per']]
            out.append(tuple(cl))
        return out


class GateInterp:
    """param: name of the PTRef parameter holding the gate term"""

    def __init__(self, func):
        self.f = func
        self.param = func['params'][0]['n'] if func['params'] else None
        self.t = Template()
        self.lits = {}       # local Lit variable -> (sign, sym)
        self.terms = {}      # local PTRef variable -> sym
        self.ints = set()
        self.pterm_aliases = set()

    # ---- symbolic terms
    def is_gate_pterm(self, base):
        base = see_through(base)
        if isinstance(base, dict) and base.get('k') == 'call' and mname(base) == 'getPterm' and base.get('a') and path_of(base['a'][0]) == self.param:
            return True
        return isinstance(base, dict) and base.get('k') == 'ref' and base['n'] in self.pterm_aliases

    def term_sym(self, e, loopvar=None):
        e = see_through(e)
        if not isinstance(e, dict):
            raise Unmodelled('term expression')
        if e.get('k') == 'ref':
            if e['n'] == self.param:
                return 'v'
            if e['n'] in self.terms:
                return self.terms[e['n']]
            raise Unmodelled('unknown term variable %s' % e['n'])
        if e.get('k') == 'call' and e.get('op') == '[]':
            base = see_through(e['recv'])
            if self.is_gate_pterm(base):
                idx = see_through(e['a'][0])
                if isinstance(idx, dict) and idx.get('k') == 'lit':
                    return 'a%d' % idx['v']
                if isinstance(idx, dict) and idx.get('k') == 'ref' and idx['n'] == loopvar:
                    return 'ai'
            raise Unmodelled('indexing at line %s' % e.get('ln'))
        raise Unmodelled('term expression kind %s at line %s' % (e.get('k'), e.get('ln')))

    def lit(self, e, loopvar=None):
        e = see_through(e)
        if not isinstance(e, dict):
            raise Unmodelled('literal expression')
        if e.get('k') == 'call' and e.get('op') == '~':
            inner = e['a'][0] if e.get('a') else e.get('recv')
            s, x = self.lit(inner, loopvar)
            return (not s, x)
        if e.get('k') == 'ref' and e['n'] in self.lits:
            return self.lits[e['n']]
        if e.get('k') == 'call' and mname(e) == 'getOrCreateLiteralFor':
            return (True, self.term_sym(e['a'][0], loopvar))
        if e.get('k') in ('new', 'init') and len(e.get('a') or e.get('e') or []) == 1:
            return self.lit((e.get('a') or e.get('e'))[0], loopvar)
        raise Unmodelled('literal expression kind %s at line %s' % (e.get('k'), e.get('ln')))

    def clause_from_init(self, e, loopvar):
        e = see_through(e)
        while isinstance(e, dict) and e.get('k') in ('new', 'init') and len(e.get('a') or e.get('e') or []) == 1 and \
                isinstance(see_through((e.get('a') or e.get('e'))[0]), dict) and see_through((e.get('a') or e.get('e'))[0]).get('k') == 'init':
            e = see_through((e.get('a') or e.get('e'))[0])
        if isinstance(e, dict) and e.get('k') in ('init', 'new'):
            parts = e.get('e') or e.get('a') or []
            return [self.lit(p, loopvar) for p in parts]
        raise Unmodelled('clause argument at line %s' % (e.get('ln') if isinstance(e, dict) else '?'))

    # ---- statements
    def run(self):
        body = self.f['body']
        if body.get('k') != 'seq':
            raise Unmodelled('function body')
        for st in body['c']:
            self.stmt(st, None)
        return self.t

    def stmt(self, st, loopvar):
        if not isinstance(st, dict) or st.get('as'):
            return
        k = st.get('k')
        if k == 'seq':
            for c in st['c']:
                self.stmt(c, loopvar)
            return
        if k == 'decl':
            ct = (st.get('ct') or st.get('t') or '')
            init = see_through(st.get('init')) if st.get('init') is not None else None
            if 'vec<opensmt::Lit>' in ct or 'vec<Lit>' in ct:
                if init is not None and (init.get('a') or init.get('e')):
                    raise Unmodelled('clause vector with initial contents at line %s' % st.get('ln'))
                self.t.acc[st['n']] = {'fixed': [], 'per': [], 'emitted': False}
                return
            if ct.endswith('Lit') or ct.endswith('Lit const') or 'opensmt::Lit' == ct.replace('const ', '').strip():
                self.lits[st['n']] = self.lit(init, loopvar)
                return
            if 'Pterm' in ct and self.is_gate_pterm(init):
                self.pterm_aliases.add(st['n'])
                return
            if 'PTRef' in ct:
                self.terms[st['n']] = self.term_sym(init, loopvar)
                return
            if ct in ('int', 'unsigned int', 'unsigned long', 'const int', 'std::size_t', 'size_t') or 'int' in ct:
                self.ints.add(st['n'])
                return
            raise Unmodelled('declaration of %s : %s at line %s' % (st['n'], ct, st.get('ln')))
        if k == 'e':
            e = see_through(st['e'])
            if not isinstance(e, dict) or e.get('k') != 'call':
                raise Unmodelled('expression statement at line %s' % st.get('ln'))
            m = mname(e)
            rp = recv_path(e)
            if m in ('push', 'push_back') and rp in self.t.acc:
                l = self.lit(e['a'][0], loopvar)
                self.t.acc[rp]['per' if loopvar else 'fixed'].append(l)
                return
            if m in ('capacity', 'reserve', 'growTo') and rp in self.t.acc:
                return
            if m == 'addClause':
                a = see_through(e['a'][0])
                if isinstance(a, dict) and a.get('k') == 'call' and callee(a).endswith('move') and a.get('a') and path_of(a['a'][0]) in self.t.acc:
                    if loopvar:
                        raise Unmodelled('accumulated clause emitted inside the loop at line %s' % st.get('ln'))
                    nm = path_of(a['a'][0])
                    self.t.emitted.append(nm)
                    return
                cl = self.clause_from_init(a, loopvar)
                (self.t.per_arg if loopvar else self.t.fixed).append(cl)
                return
            self.t.calls.append(callee(e))
            raise Unmodelled('call %s at line %s' % (callee(e), st.get('ln')))
        if k == 'loop':
            if loopvar:
                raise Unmodelled('nested loop at line %s' % st.get('ln'))
            lv = self.loop_var(st)
            self.stmt(st['body'], lv)
            return
        raise Unmodelled('statement kind %s at line %s' % (k, st.get('ln')))

    def loop_var(self, lp):
        """for (int i = 0; i < size; ++i) over all arguments of the gate, or for (PTRef arg : getPterm(gate))"""
        if lp.get('kind') == 'range':
            if not self.is_gate_pterm(lp.get('range')):
                raise Unmodelled('range loop over something other than the arguments of the gate (line %s)' % lp.get('ln'))
            var = lp.get('var') or (lp.get('decl') or {}).get('n')
            if not var:
                # the loop variable declaration is the first statement the extractor emits for the range loop
                raise Unmodelled('range loop variable not found (line %s)' % lp.get('ln'))
            self.terms[var] = 'ai'
            return '<range:%s>' % var
        if lp.get('kind') != 'for':
            raise Unmodelled('loop kind %s' % lp.get('kind'))
        init = lp.get('init')
        if not (isinstance(init, dict) and init.get('k') == 'decl' and isinstance(see_through(init.get('init')), dict) and see_through(init['init']).get('v') == 0):
            raise Unmodelled('loop does not start at 0 (line %s): the first argument would be skipped' % lp.get('ln'))
        i = init['n']
        c = see_through(lp.get('cond'))
        if not (isinstance(c, dict) and c.get('k') == 'bin' and c.get('op') == '<' and path_of(c['l']) == i and self.is_size(c['r'])):
            raise Unmodelled('loop bound is not `i < number of arguments` (line %s)' % lp.get('ln'))
        inc = see_through(lp.get('inc'))
        if not (isinstance(inc, dict) and inc.get('k') == 'un' and inc.get('op') == '++' and path_of(inc['e']) == i):
            raise Unmodelled('loop step is not ++i (line %s)' % lp.get('ln'))
        return i

    def is_size(self, e):
        e = see_through(e)
        if isinstance(e, dict) and e.get('k') == 'ref' and e['n'] in self.ints:
            # must have been initialised from getPterm(param).size()
            for st in self.f['body']['c']:
                if isinstance(st, dict) and st.get('k') == 'decl' and st['n'] == e['n']:
                    i = see_through(st.get('init'))
                    return isinstance(i, dict) and i.get('k') == 'call' and mname(i) in ('size', 'size_') and self.is_gate_pterm(i.get('recv'))
            return False
        return isinstance(e, dict) and e.get('k') == 'call' and mname(e) in ('size', 'size_') and self.is_gate_pterm(e.get('recv'))


GATES = {
    'cnfizeAnd': ('nary', lambda a: all(a)),
    'cnfizeOr': ('nary', lambda a: any(a)),
    'cnfizeXor': (2, lambda a: a[0] != a[1]),
    'cnfizeIff': (2, lambda a: a[0] == a[1]),
    'cnfizeImplies': (2, lambda a: (not a[0]) or a[1]),
    'cnfizeIfthenelse': (3, lambda a: a[1] if a[0] else a[2]),
}


def check_template(clauses, n, op):
    """returns (unsound clauses, missing assignments): truth-table comparison with v <-> op(a_0..a_{n-1})"""
    syms = ['v'] + ['a%d' % i for i in range(n)]
    for cl in clauses:
        for s, x in cl:
            if x not in syms:
                raise Unmodelled('clause mentions %s but the gate has %d argument(s)' % (x, n))
    unsound, incomplete = [], []
    for vals in itertools.product([False, True], repeat=n + 1):
        env = dict(zip(syms, vals))
        defined = env['v'] == bool(op([env['a%d' % i] for i in range(n)]))
        sat = [any(env[x] == s for s, x in cl) for cl in clauses]
        if defined:
            for cl, ok in zip(clauses, sat):
                if not ok and cl not in unsound:
                    unsound.append(cl)
        elif all(sat):
            incomplete.append(env)
    return unsound, incomplete


def show(cl):
    return '(' + ' | '.join(('' if s else '~') + x for s, x in cl) + ')'
