"""Assert / retract write-set coverage for theory solvers that keep derived caches (DESIGN 9.3-C22, `retract-restores-what-assert-changed`).

For a solver class with `assertLit(PtAsgn literal)` and a `popBacktrackPoint()` that pops its own literal stack:
  W(P)  = members that assertLit can mutate on a path on which the literal's polarity is P (P in {pos, neg}); reference aliases
          (`for (auto & x : member)`, `auto & y = x.field`) are followed back to the member, calls of the class's own methods are followed.
  R(P)  = members that popBacktrackPoint writes on EVERY path on which one literal of polarity P is retracted; Boolean locals computed from
          the retracted literal's polarity (flag |= (lit.sgn == l_True)) are tracked so that a reset guarded by such a flag counts exactly
          when the flag is known to be set.
Demand: W(P) minus the members popBacktrackPoint undoes literal by literal is contained in R(P).  A reset that is skipped when *no* literal
is retracted, or for a polarity under which assertLit does not touch the member, is accepted; a reset skipped for a polarity under which it
does is not: the retracted literal then leaves a trace in the cache.
"""
from facts import fwalk, walk, path_of, see_through, callee
from prims import mname, as_assign
from walk import Client, Engine

MUT = {'erase', 'push_back', 'emplace_back', 'pop_back', 'insert', 'clear', 'emplace', 'push', 'pop', 'resize', 'try_emplace', 'insert_or_assign', 'shrink', 'shrink_', 'growTo', 'reset'}


def aliases(f):
    al = {}
    nodes = list(fwalk(f))
    for _ in range(4):
        for n in nodes:
            src = name = None
            if n.get('k') == 'loop' and n.get('kind') == 'range' and n.get('var') and '&' in (n.get('vt') or ''):
                src, name = path_of(n.get('range')), n['var']
            elif n.get('k') == 'decl' and '&' in (n.get('t') or '') and n.get('init') is not None:
                src, name = path_of(n['init']), n['n']
            if not src or not name:
                continue
            if src.startswith('this.'):
                al[name] = src.split('.')[1].split('[')[0]
            else:
                b = src.split('.')[0].split('[')[0]
                if b in al:
                    al[name] = al[b]
    return al


def member_of(p, al):
    if not p:
        return None
    if p.startswith('this.'):
        return p.split('.')[1].split('[')[0]
    b = p.split('.')[0].split('[')[0]
    return al.get(b)


class WriteWalk(Client):
    """state: (frozenset of members written, frozenset of (flag, value) for Boolean locals known on this path)"""

    def __init__(self, fx, cls, func, pol_expr_is, polarity, must, depth=0, seen=None):
        self.fx, self.cls, self.f = fx, cls, func
        self.pol_expr_is = pol_expr_is      # expression -> 'pos' / 'neg' / None : which polarity a comparison asks for
        self.P = polarity
        self.must = must
        self.depth = depth
        self.seen = seen if seen is not None else set()
        self.al = aliases(func)
        self.exits = set()

    def add(self, s, m):
        return (s[0] | {m}, s[1]) if m else s

    def cond_value(self, e, s):
        """truth value of an expression on this path if it is determined by the polarity or by tracked flags, else None"""
        e = see_through(e)
        if not isinstance(e, dict):
            return None
        q = self.pol_expr_is(e)
        if q is not None:
            return q == self.P if self.P is not None else None
        if e.get('k') == 'ref':
            return dict(s[1]).get(e['n'])
        if e.get('k') == 'un' and e.get('op') == '!':
            v = self.cond_value(e['e'], s)
            return None if v is None else (not v)
        if e.get('k') == 'lit' and isinstance(e.get('v'), bool):
            return e['v']
        return None

    def on_cond(self, atom, s, branch):
        v = self.cond_value(atom, s)
        if v is not None and v != branch:
            return None
        a = see_through(atom)
        if isinstance(a, dict) and a.get('k') == 'ref' and a.get('t') == 'bool' and v is None:
            return (s[0], frozenset(x for x in s[1] if x[0] != a['n']) | {(a['n'], branch)})
        return s

    def on_decl(self, n, s):
        if 'bool' in (n.get('ct') or n.get('t') or '') and n.get('init') is not None:
            v = self.cond_value(n['init'], s)
            fl = frozenset(x for x in s[1] if x[0] != n['n'])
            return ((s[0], fl | ({(n['n'], v)} if v is not None else frozenset())),)
        return (s,)

    def on_assign(self, n, s):
        a = as_assign(n)
        if n.get('k') == 'bin' and n.get('op') in ('|=', '&=', '=') and isinstance(n.get('l'), dict) and n['l'].get('k') == 'ref' and n['l'].get('t') == 'bool':
            name = n['l']['n']
            old = dict(s[1]).get(name)
            rv = self.cond_value(n['r'], s)
            if n['op'] == '=':
                new = rv
            elif n['op'] == '|=':
                new = True if (old is True or rv is True) else (False if (old is False and rv is False) else None)
            else:
                new = False if (old is False or rv is False) else (True if (old is True and rv is True) else None)
            fl = frozenset(x for x in s[1] if x[0] != name)
            return ((s[0], fl | ({(name, new)} if new is not None else frozenset())),)
        if a:
            return (self.add(s, member_of(path_of(a[0]), self.al)),)
        if n.get('k') == 'un' and n.get('op') in ('++', '--'):
            return (self.add(s, member_of(path_of(n['e']), self.al)),)
        return (s,)

    def on_call(self, n, s):
        if mname(n) in MUT and n.get('recv') is not None and not n.get('mc'):
            s = self.add(s, member_of(path_of(n['recv']), self.al))
        a = as_assign(n)
        if a:
            s = self.add(s, member_of(path_of(a[0]), self.al))
        r = n.get('recv')
        if (r is None or (isinstance(see_through(r), dict) and see_through(r).get('k') == 'this')) and self.depth < 3:
            fid = n.get('id')
            cands = [fid] if fid in self.fx.F else []
            if n.get('virt') and not n.get('qual'):
                # dispatch on the dynamic class: the most derived override in the analysed class's hierarchy
                ov = [t for t in self.fx.all_overriders(fid) if self.fx.F.get(t, {}).get('class') == self.cls]
                cands = ov or cands
            outs = None
            for t in cands:
                g = self.fx.F.get(t)
                if not g or not g.get('body') or t in self.seen:
                    continue
                if not (g.get('class') == self.cls or g.get('class') in self.fx.bases_of(self.cls)):
                    continue
                w = write_sets(self.fx, self.cls, g, self.pol_expr_is, None, self.must, self.depth + 1, self.seen | {self.f['id']})
                cur = frozenset.intersection(*w) if (self.must and w) else (frozenset().union(*w) if w else frozenset())
                outs = cur if outs is None else ((outs & cur) if self.must else (outs | cur))
            if outs:
                s = (s[0] | outs, s[1])
        return (s,)

    def on_exit(self, kind, node, s):
        if kind != 'throw':
            self.exits.add(s[0])


def write_sets(fx, cls, func, pol_expr_is, polarity, must, depth=0, seen=None):
    """list of write sets, one per path"""
    c = WriteWalk(fx, cls, func, pol_expr_is, polarity, must, depth, seen)
    eng = Engine(func, c)
    eng.run([(frozenset(), frozenset())])
    if eng.broken:
        from build import AnalysisBroken
        raise AnalysisBroken('%s: %s' % (func['name'], eng.broken))
    return list(c.exits) or [frozenset()]


def polarity_reader(param_or_var_names):
    """returns pol_expr_is for comparisons `<x>.sgn == l_True / l_False` (and !=) where <x> is one of the given names"""
    def is_lbool_const(e):
        e = see_through(e)
        while isinstance(e, dict) and e.get('k') in ('new', 'init') and len(e.get('a') or e.get('e') or []) == 1:
            e = see_through((e.get('a') or e.get('e'))[0])
        if isinstance(e, dict) and e.get('k') == 'lit' and e.get('v') in (0, 1):
            return 'pos' if e['v'] == 0 else 'neg'       # l_True = lbool((uint8_t)0), l_False = lbool((uint8_t)1)
        return None

    def f(e):
        if not isinstance(e, dict) or e.get('op') not in ('==', '!='):
            return None
        if e.get('k') == 'bin':
            l, r = e['l'], e['r']
        elif e.get('k') == 'call':
            l = e['recv'] if e.get('recv') is not None else (e.get('a') or [None, None])[0]
            r = (e.get('a') or [None])[0] if e.get('recv') is not None else (e.get('a') or [None, None])[1]
        else:
            return None
        for x, y in ((l, r), (r, l)):
            px = path_of(x) or ''
            if px.endswith('.sgn') and px.split('.')[0] in param_or_var_names:
                c = is_lbool_const(y)
                if c:
                    return c if e['op'] == '==' else ('neg' if c == 'pos' else 'pos')
        return None
    return f
