"""Shared by C15 / C27: run the UB-obligation engine on the exact-arithmetic units and compare residuals with the justified table."""
import json
import re
import os
import shutil
import tempfile

import build
import ubsan_ir
from build import AnalysisBroken

VERIF = os.path.dirname(os.path.dirname(os.path.abspath(__file__)))

PROBE = r'''
#include <common/numbers/FastRational.h>
#include <tsolvers/stpsolver/SafeInt.h>
#include <tsolvers/stpsolver/IDLSolver.h>
using namespace opensmt;
// odr-use every inline word-path function so that its IR is emitted
void use_all(FastRational & d, FastRational const & a, FastRational const & b) {
  addition(d,a,b); subtraction(d,a,b); multiplication(d,a,b); division(d,a,b);
  additionAssign(d,a); subtractionAssign(d,a); multiplicationAssign(d,a); divisionAssign(d,a);
  d = a.inverse(); d = -a; d.negate(); (void)a.compare(b); d = a.ceil(); d = a.floor();
  FastRational x(3, 4u); (void)x; (void)(a < b); (void)(a == b); (void)a.sign();
  d = a / b; d = a * b; d = a + b; d = a - b; d += a; d -= a; d *= a; d /= a; { FastRational m(a); d = m % b; }
  d = gcd(a, b); d = lcm(a, b); d = fastrat_fdiv_q(a, b); d = divexact(a, b); d = abs(a);
}
SafeInt use_safeint(SafeInt a, SafeInt b) { SafeInt c = a + b; c -= b; c = c - a; c = -c; return Converter<SafeInt>::negate(c); }
'''

SCOPE_C15 = ('common/numbers/FastRational.h', 'common/numbers/FastRational.cc')
SCOPE_C27 = ('tsolvers/stpsolver/SafeInt.h', 'tsolvers/stpsolver/IDLSolver.h')
C27_FUNCS = ('fastrat_fdiv_q', 'divexact', 'FastRational::operator%', 'FastRational::ceil', 'FastRational::floor', 'fastrat_round_to_int', 'operator%')


def enclosing(fx, path, ln):
    best = None
    rel = fx.rel(path)
    for f in fx.F.values():
        if fx.rel(f['file']) == rel and f['line'] <= ln <= f.get('eline', f['line']):
            if best is None or (f['eline'] - f['line']) < (best['eline'] - best['line']):
                best = f
    return best['name'].replace('opensmt::', '') if best else '?'


def guard_present(tokens, text, window=220):
    """do all identifier/operator tokens of a guard occur together inside one window of the (whitespace-normalised) text?  Robust to
    re-formatting and operand order; a guard that is removed or tests other names is reported"""
    import re
    toks = tokens.split()
    first = toks[0]
    for m in re.finditer(re.escape(first), text):
        lo = max(0, m.start() - window)
        seg = text[lo:m.start() + window]
        if all(t in seg for t in toks):
            return True
    return False


def enclosing_obj(fx, path, ln):
    best = None
    rel = fx.rel(path)
    for f in fx.F.values():
        if fx.rel(f['file']) == rel and f['line'] <= ln <= f.get('eline', f['line']):
            if best is None or (f['eline'] - f['line']) < (best['eline'] - best['line']):
                best = f
    return best


def run_engine(fx):
    """returns (all obligations at -O0, residual obligations at -O2) restricted to repository files, as sets of (relpath, line, col, kind)"""
    tmp = tempfile.mkdtemp(prefix='osmt-ub-')
    try:
        probe = os.path.join(tmp, 'probe.cc')
        open(probe, 'w').write(PROBE)
        units = [probe, os.path.join(fx.src_root, 'common', 'numbers', 'FastRational.cc')]
        tot, res = set(), set()
        for u in units:
            for opt, acc in (('O0', tot), ('O2', res)):
                out = os.path.join(tmp, os.path.basename(u) + '.' + opt + '.ll')
                ubsan_ir.compile_ir(fx.src_root, fx.gen_dir, u, out, opt)
                acc |= ubsan_ir.obligations(out)
        def norm(s):
            out = set()
            for p, ln, col, k in s:
                ap = os.path.normpath(p)
                if ap.startswith(fx.src_root + '/'):
                    out.add((os.path.relpath(ap, fx.src_root), ln, col, k))
            return out
        return norm(tot), norm(res)
    finally:
        shutil.rmtree(tmp, ignore_errors=True)


def residual_rule(res, fx, rule_name, text, scope_files, func_filter=None, floor=5, min_total=0):
    table = json.load(open(os.path.join(VERIF, 'sa', 'tables', 'ub_residuals.json')))['entries']
    tot, resid = run_engine(fx)
    r = res.rule(rule_name, text, floor=floor)
    in_scope = lambda x: x[0] in scope_files
    n_tot = 0
    discharged = 0
    for x in sorted(tot):
        if not in_scope(x):
            continue
        fn = enclosing(fx, os.path.join(fx.src_root, x[0]), x[1])
        if func_filter and not func_filter(x[0], fn):
            continue
        n_tot += 1
        if x not in resid:
            discharged += 1
    res.extra.setdefault('ub_engine', {})[rule_name] = {'obligations_O0': n_tot, 'discharged_by_llvm_O2': discharged}
    # Residual obligations are paired with table entries per (function, kind): an exact source-line match first, the rest in source order.
    # The line text is therefore informational: renaming a local or splitting a statement does not turn a justified operation into a report;
    # one operation more than the table lists for that function and kind does.
    by_group = {}
    sites = set()
    for x in sorted(resid):
        if not in_scope(x):
            continue
        path = os.path.join(fx.src_root, x[0])
        fn = enclosing(fx, path, x[1])
        if func_filter and not func_filter(x[0], fn):
            continue
        txt = ubsan_ir.line_text(path, x[1])
        if (fn, x[3], x[0], x[1], txt) in sites:
            continue
        sites.add((fn, x[3], x[0], x[1], txt))
        by_group.setdefault((fn, x[3]), []).append((x, txt))
    entries = {}
    for e in table:
        entries.setdefault((e['fn'], e['kind']), []).append(e)
    for (fn, kind), obs in sorted(by_group.items()):
        avail = list(entries.get((fn, kind), []))
        pairs = []
        rest = []
        for x, txt in obs:
            m = next((e for e in avail if e['text'] == txt), None)
            if m is not None:
                avail.remove(m)
                pairs.append((x, txt, m))
            else:
                rest.append((x, txt))
        for x, txt in rest:
            if avail:
                pairs.append((x, txt, avail.pop(0)))
            else:
                pairs.append((x, txt, None))
        for x, txt, e in pairs:
            path = os.path.join(fx.src_root, x[0])
            if e is None:
                n_listed = len(entries.get((fn, kind), []))
                res.bad(r, 'unjustified-ub:%s:%s' % (fn, kind), 'src/%s:%d' % (x[0], x[1]),
                        '%s: %s at column %d of `%s` is neither discharged by LLVM\'s range analysis at -O2 nor covered by the justified table (which lists %d such operation(s) in this function): '
                        'an unguarded wrap-around / narrowing on the exact-arithmetic path' % (fn, kind, x[2], txt[:120], n_listed))
                continue
            req = e.get('requires', [])
            fobj = enclosing_obj(fx, path, x[1])
            lines = open(path, errors='replace').read().split('\n')
            before = ' '.join(' '.join(l.split()) for l in lines[(fobj['line'] - 1 if fobj else 0):x[1]])
            whole = ' '.join(' '.join(l.split()) for l in lines)
            missing = [g for g in req if not guard_present(g[1:] if g.startswith('@') else g, whole if g.startswith('@') else before)]
            # a justification that rests on a macro definition (@MACRO tokens...) covers only operations written through that macro
            missing += ['use of ' + g[1:].split()[0] for g in req if g.startswith('@') and re.match(r'^[A-Z][A-Z0-9_]+$', g[1:].split()[0]) and g[1:].split()[0] not in txt]
            if missing:
                res.bad(r, 'guard-removed:%s:%s' % (fn, kind), 'src/%s:%d' % (x[0], x[1]), '%s: the %s at `%s` was justified by the guard %s, which is no longer present before it' % (fn, kind, txt[:100], missing))
            else:
                res.ok(r, '%s:%d %s in %s: %s' % (x[0], x[1], kind, fn, e['why'][:140]))
    # the obligations LLVM discharged count as instances too
    for _ in range(discharged):
        r['instances'] += 1
    if n_tot < min_total:
        raise AnalysisBroken('%s: only %d sanitizer obligations found at -O0 (expected >= %d): the probe unit no longer instantiates the code in scope' % (rule_name, n_tot, min_total))
    return n_tot, discharged
