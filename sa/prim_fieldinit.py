"""Primitive FIELD-INIT: scalar data members that some constructor leaves indeterminate and some method reads.

A scalar (arithmetic / enum / pointer) member is *initialised by constructor C* if it has an in-class initialiser, appears in C's
member-initialiser list, is the target of an assignment in C's body or in a method C calls on `this` (depth <= 3), or C delegates
to a constructor that initialises it.  Aggregates / classes without any user constructor are skipped when every use site
value-initialises them ({} / ()), which the extractor shows as an init list."""
from facts import fwalk, walk, see_through, path_of
from prims import as_assign


def written_fields(fx, f, depth=0, seen=None):
    seen = seen if seen is not None else set()
    if f['id'] in seen:
        return set()
    seen.add(f['id'])
    w = set()
    for ini in f.get('inits', []):
        if ini['m'] not in ('<base>', '<delegate>'):
            w.add(ini['m'])
        if ini['m'] == '<delegate>':
            for x in walk(ini['e']):
                if x.get('k') == 'new' and x.get('id') in fx.F:
                    w |= written_fields(fx, fx.F[x['id']], depth + 1, seen)
    for n in fwalk(f):
        aa = as_assign(n)
        tgt = aa[0] if aa else (n['e'] if n.get('k') == 'un' and n.get('op') in ('++', '--') else None)
        if tgt is not None:
            p = path_of(tgt)
            if p and p.startswith('this.'):
                w.add(p.split('.')[1].replace('[]', ''))
        if n.get('k') == 'call':
            # strcpy(member, ...), memset(member, ...) style initialisation of arrays
            for a in n.get('a', [])[:1]:
                p = path_of(a)
                if p and p.startswith('this.') and (n.get('f') or '').split('::')[-1] in ('strcpy', 'memset', 'strncpy', 'memcpy', 'snprintf', 'sprintf'):
                    w.add(p.split('.')[1].replace('[]', ''))
            r = n.get('recv')
            if r is not None and isinstance(see_through(r), dict) and see_through(r).get('k') == 'this' and n.get('id') in fx.F and depth < 3:
                w |= written_fields(fx, fx.F[n['id']], depth + 1, seen)
    return w


def readers(fx, cls, field):
    """functions that read `field` of class `cls` (member expression not on the lhs of a plain assignment)"""
    out = []
    for f in fx.F.values():
        lhs = set()
        for n in fwalk(f):
            aa = as_assign(n)
            if aa and n.get('op') == '=' or (aa and n.get('k') == 'call'):
                lhs.add(id(see_through(aa[0])))
        for n in fwalk(f):
            if n.get('k') == 'mem' and n.get('n') == field and n.get('of') == cls and id(n) not in lhs and not n.get('as'):
                out.append((f, n))
                break
    return out


def uninitialised_fields(fx, cls):
    """[(field, [constructors leaving it indeterminate])] for scalar members of cls"""
    rec = fx.R.get(cls)
    if not rec:
        return None
    ctors = [f for f in fx.F.values() if f.get('class') == cls and f.get('ctor')]
    scalars = [fl for fl in rec['fields'] if fl.get('scalar') and not fl.get('init')]
    out = []
    for fl in scalars:
        bad = []
        for c in ctors:
            # copy / move constructors copy the member
            if len(c['params']) == 1 and cls.split('::')[-1] in c['params'][0]['t'] and '&' in c['params'][0]['t']:
                continue
            if fl['n'] not in written_fields(fx, c):
                bad.append(c)
        if bad or not ctors:
            out.append((fl, bad, not ctors))
    return out
