"""Rebuild the facts database from the repository's *current* working tree.

 - unit list: parsed from src/**/CMakeLists.txt (not a glob: the tree holds dead units)
 - generated parser/lexer: bison/flex into /verif/.cache/gen-<hash>/
 - one JSON per unit, cached and validated by the content hash of the unit's recorded
   dependency set (any edit to a file the unit sees invalidates exactly that unit)
"""
import concurrent.futures as cf
import hashlib
import json
import os
import re
import subprocess
import sys
import time

VERIF = os.path.dirname(os.path.dirname(os.path.abspath(__file__)))
CACHE = os.path.join(VERIF, '.cache')
EXTRACTOR = os.path.join(VERIF, '.build', 'osmt-facts')
RESOURCE_DIR = '/usr/lib/llvm-14/lib/clang/14.0.6'
MIN_UNITS = 89  # hand-confirmed on the pinned tree (matches build.ninja): 87 listed + 2 generated


class AnalysisBroken(Exception):
    """anchor vanished / extractor failed / construct outside the modelled subset: exit 2"""


def sha(b):
    return hashlib.sha256(b).hexdigest()[:16]


def file_hash(p):
    try:
        with open(p, 'rb') as f:
            return sha(f.read())
    except OSError:
        return 'missing'


def ensure_extractor():
    src = os.path.join(VERIF, 'tools', 'osmt-facts.cc')
    if os.path.exists(EXTRACTOR) and os.path.getmtime(EXTRACTOR) >= os.path.getmtime(src):
        return
    os.makedirs(os.path.dirname(EXTRACTOR), exist_ok=True)
    flags = subprocess.check_output(['llvm-config-14', '--cxxflags'], text=True).split()
    cmd = ['clang++'] + flags + ['-fno-rtti', '-O1', src, '-o', EXTRACTOR + '.tmp',
                                  '/usr/lib/llvm-14/lib/libclang-cpp.so.14', '/usr/lib/llvm-14/lib/libLLVM-14.so']
    r = subprocess.run(cmd, capture_output=True, text=True)
    if r.returncode != 0:
        raise AnalysisBroken('cannot build extractor: ' + r.stderr[-2000:])
    os.replace(EXTRACTOR + '.tmp', EXTRACTOR)


_CM_TOKEN = re.compile(r'"?\$\{CMAKE_CURRENT_(?:SOURCE|LIST)_DIR\}/([A-Za-z0-9_./+-]+\.(?:cc|cpp|C))"?')
_BARE = re.compile(r'(?<![A-Za-z0-9_./{}$])([A-Za-z0-9_+-]+\.(?:cc|cpp))\b')


def discover_units(src_root):
    """Parse CMakeLists.txt files the way the default configuration does."""
    units = []
    seen = set()
    off_options = {'PARALLEL', 'PACKAGE_BENCHMARKS'}

    def visit(cm_path, cur_dir):
        if cm_path in seen or not os.path.exists(cm_path):
            return
        seen.add(cm_path)
        skip_depth = 0
        depth_stack = []
        for raw in open(cm_path, encoding='utf-8', errors='replace'):
            line = raw.split('#', 1)[0].strip()
            if not line:
                continue
            m = re.match(r'if\s*\((.*)\)', line, re.I)
            if m:
                cond = m.group(1).strip()
                off = cond in off_options
                depth_stack.append(off)
                if off:
                    skip_depth += 1
                continue
            if re.match(r'else\s*\(', line, re.I) or re.match(r'elseif\s*\(', line, re.I):
                continue
            if re.match(r'endif\s*\(', line, re.I):
                if depth_stack and depth_stack.pop():
                    skip_depth -= 1
                continue
            if skip_depth:
                continue
            m = re.match(r'add_subdirectory\s*\(\s*([A-Za-z0-9_/.-]+)\s*\)', line)
            if m:
                d = os.path.join(cur_dir, m.group(1))
                visit(os.path.join(d, 'CMakeLists.txt'), d)
                continue
            m = re.match(r'include\s*\(\s*([A-Za-z0-9_/.-]+CMakeLists\.txt)\s*\)', line)
            if m:
                p = os.path.join(cur_dir, m.group(1))
                visit(p, os.path.dirname(p))
                continue
            for t in _CM_TOKEN.findall(line):
                units.append(os.path.normpath(os.path.join(os.path.dirname(cm_path), t)))
            if re.match(r'add_executable\s*\(', line):
                for t in _BARE.findall(line):
                    units.append(os.path.normpath(os.path.join(os.path.dirname(cm_path), t)))

    visit(os.path.join(src_root, 'CMakeLists.txt'), src_root)
    out = []
    for u in units:
        if u not in out:
            out.append(u)
    return out


def generate_parser(src_root):
    pdir = os.path.join(src_root, 'parsers', 'smt2new')
    yy, ll = os.path.join(pdir, 'smt2newparser.yy'), os.path.join(pdir, 'smt2newlexer.ll')
    h = sha((file_hash(yy) + file_hash(ll) + src_root).encode())
    gen = os.path.join(CACHE, 'gen-' + h)
    ok = os.path.join(gen, '.ok')
    if not os.path.exists(ok):
        os.makedirs(gen, exist_ok=True)
        r1 = subprocess.run(['bison', '--defines=' + os.path.join(gen, 'smt2newparser.hh'), '-o', os.path.join(gen, 'smt2newparser.cc'), yy],
                            capture_output=True, text=True)
        r2 = subprocess.run(['flex', '-o', os.path.join(gen, 'smt2newlexer.cc'), ll], capture_output=True, text=True)
        if r1.returncode or r2.returncode:
            raise AnalysisBroken('bison/flex failed: ' + r1.stderr[-500:] + r2.stderr[-500:])
        open(ok, 'w').write('ok')
        open(os.path.join(gen, '.root'), 'w').write(src_root)
    return gen


def clang_flags(src_root, gen):
    return ['-std=gnu++20', '-I' + src_root, '-I' + gen, '-I' + os.path.join(src_root, 'parsers', 'smt2new'),
            '-UNDEBUG', '-DOPENSMT_GIT_DESCRIPTION="x"', '-Wno-everything', '-resource-dir', RESOURCE_DIR]


def _deps_hash(deps):
    h = hashlib.sha256()
    for d in deps:
        h.update(d.encode())
        h.update(file_hash(d).encode())
    return h.hexdigest()[:16]


def _extract_one(unit, out_json, src_root, gen, tool_hash):
    meta_p = out_json + '.meta'
    if os.path.exists(meta_p) and os.path.exists(out_json):
        try:
            meta = json.load(open(meta_p))
            # the cached facts must be those of this very unit path (generated units move when the grammar / lexer specification changes) and of unchanged inputs
            if meta.get('tool') == tool_hash and unit in meta['deps'] and meta.get('dephash') == _deps_hash(meta['deps']):
                return ('cached', unit, None)
        except (ValueError, KeyError):
            pass
    cmd = [EXTRACTOR, '-o', out_json + '.tmp', '--root', src_root, '--root2', gen, unit, '--'] + clang_flags(src_root, gen)
    r = subprocess.run(cmd, capture_output=True, text=True)
    if r.returncode != 0 or not os.path.exists(out_json + '.tmp'):
        return ('fail', unit, (r.stderr or r.stdout)[-1500:])
    try:
        d = json.load(open(out_json + '.tmp'))
    except ValueError as e:
        return ('fail', unit, 'bad json: %s' % e)
    if d.get('errors'):
        return ('fail', unit, 'compile errors: ' + r.stderr[-1500:])
    deps = sorted(set(d['deps']) | {unit})
    os.replace(out_json + '.tmp', out_json)
    json.dump({'tool': tool_hash, 'deps': deps, 'dephash': _deps_hash(deps)}, open(meta_p, 'w'))
    return ('extracted', unit, None)


def build_facts(src_root='/repo/src', only=None, quiet=False):
    """Returns dict(unit -> json path), stats. `only`: optional list of path suffixes to restrict units."""
    t0 = time.time()
    src_root = os.path.abspath(src_root)
    ensure_extractor()
    gen = generate_parser(src_root)
    units = discover_units(src_root)
    missing = [u for u in units if not os.path.exists(u)]
    if missing:
        raise AnalysisBroken('CMake lists name units that do not exist: %s' % missing[:5])
    units += [os.path.join(gen, 'smt2newparser.cc'), os.path.join(gen, 'smt2newlexer.cc')]
    if len(units) < MIN_UNITS:
        raise AnalysisBroken('unit discovery found %d units, expected >= %d' % (len(units), MIN_UNITS))
    sel = units
    if only:
        sel = [u for u in units if any(u.endswith(s) for s in only)]
        if len(sel) < len(only):
            raise AnalysisBroken('requested units not in the build: %s' % only)
    fdir = os.path.join(CACHE, 'facts-' + sha(src_root.encode()))
    os.makedirs(fdir, exist_ok=True)
    tool_hash = file_hash(EXTRACTOR) + sha(' '.join(clang_flags('R', 'G')).encode())
    paths = {}
    jobs = []
    for u in sel:
        rel = os.path.relpath(u, src_root) if u.startswith(src_root) else 'GEN_' + os.path.basename(u)
        paths[u] = os.path.join(fdir, rel.replace('/', '__') + '.json')
        jobs.append((u, paths[u]))
    stats = {'cached': 0, 'extracted': 0, 'units': len(sel), 'all_units': len(units)}
    fails = []
    with cf.ThreadPoolExecutor(max_workers=min(16, os.cpu_count() or 4)) as ex:
        for st, u, err in ex.map(lambda j: _extract_one(j[0], j[1], src_root, gen, tool_hash), jobs):
            if st == 'fail':
                fails.append((u, err))
            else:
                stats[st] += 1
    if fails:
        raise AnalysisBroken('extractor failed on %d unit(s): %s\n%s' % (len(fails), [f[0] for f in fails], fails[0][1]))
    stats['wall_s'] = round(time.time() - t0, 2)
    stats['gen_dir'] = gen
    stats['facts_dir'] = fdir
    if not quiet:
        print('[facts] units=%d (of %d) extracted=%d cached=%d %.1fs' % (stats['units'], stats['all_units'], stats['extracted'], stats['cached'], stats['wall_s']), file=sys.stderr)
    return paths, stats


if __name__ == '__main__':
    root = sys.argv[1] if len(sys.argv) > 1 else '/repo/src'
    us = discover_units(root)
    print(len(us), 'units')
    p, s = build_facts(root)
    print(s)
