"""Primitive GLOBALS (DESIGN 2.4): mutable static-storage state and its mutating uses, with lock-scope typestate.

A *mutating use* of a variable with static storage duration is: assignment / compound assignment / ++ / -- whose
target access path is rooted at it, a non-const member call on such a path (unless the callee is summarised as
"writes no field of *this"), passing such a path to a non-const reference / pointer parameter, taking its address or
binding it to a non-const reference local, or returning a non-const reference/pointer to it (an *accessor*: then calls
of the accessor are treated as the variable itself).  Uses inside the variable's own initialiser do not count.
Every use is tagged with whether it lies in a scope that holds a std::lock_guard / unique_lock / scoped_lock.
"""
import collections
import re

from facts import walk, see_through, callee

ASSIGN = {'=', '+=', '-=', '*=', '/=', '%=', '|=', '&=', '^=', '<<=', '>>='}
LOCK_TYPES = ('lock_guard', 'unique_lock', 'scoped_lock')
ELEMENT_ACCESS = {'at', 'front', 'back', 'begin', 'end', 'data', 'find', 'last', 'get_mpz_t', 'get_mpq_t'}
ATOMIC_CLASSES = ('std::atomic<', 'std::__atomic_base<', 'std::atomic_flag', 'std::__atomic_flag_base')
FORWARDING = {'emplace_back', 'emplace', 'push_back', 'push', 'insert', 'make_pair', 'make_tuple', 'make_unique', 'make_shared', 'forward', 'try_emplace', 'insert_or_assign'}

# libc / libstdc++ entry points with hidden process-wide state (from clang-tidy concurrency-mt-unsafe's glibc list, the ones a solver could plausibly call)
HIDDEN_STATE_CALLS = {
    'rand': 'shared PRNG state', 'srand': 'shared PRNG state', 'random': 'shared PRNG state', 'srandom': 'shared PRNG state',
    'drand48': 'shared PRNG state', 'lrand48': 'shared PRNG state', 'mrand48': 'shared PRNG state', 'srand48': 'shared PRNG state',
    'strtok': 'static parse cursor', 'strerror': 'static message buffer', 'localtime': 'static struct tm', 'gmtime': 'static struct tm',
    'ctime': 'static buffer', 'asctime': 'static buffer', 'setlocale': 'process-wide locale', 'tmpnam': 'static buffer', 'setenv': 'process environment',
    'putenv': 'process environment', 'getpwnam': 'static buffer', 'readdir': 'static buffer', 'ttyname': 'static buffer',
    'std::rand': 'shared PRNG state', 'std::srand': 'shared PRNG state', 'std::strtok': 'static parse cursor', 'std::localtime': 'static struct tm',
    'std::setlocale': 'process-wide locale',
}


def short_name(fn):
    """last component of a qualified callee name, template arguments removed"""
    prev = None
    while prev != fn:
        prev = fn
        fn = re.sub(r'<[^<>]*>', '', fn)
    return fn.split('::')[-1]


PTR_TYPEDEFS = {'mpz_ptr', 'mpq_ptr'}      # GMP's typedefs for non-const pointers


def is_mut_ptr(t):
    """is this (written) type a non-const reference / pointer?"""
    t = t.strip()
    if t in PTR_TYPEDEFS:
        return True
    if not ('&' in t or '*' in t):
        return False
    return not (t.startswith('const ') or 'const &' in t or 'const *' in t)


def is_atomic_type(ct):
    return ct.replace('struct ', '').replace('class ', '').startswith(('std::atomic<', 'std::atomic_', 'volatile std::atomic<', 'std::atomic_flag'))


def is_sync_type(ct):
    c = ct.replace('struct ', '').replace('class ', '')
    return c.startswith(('std::mutex', 'std::recursive_mutex', 'std::shared_mutex', 'std::once_flag', 'std::condition_variable'))


class Use:
    __slots__ = ('var', 'func', 'ln', 'kind', 'locked', 'in_assert')

    def __init__(self, var, func, ln, kind, locked, in_assert=False):
        self.var, self.func, self.ln, self.kind, self.locked, self.in_assert = var, func, ln, kind, locked, in_assert


class Globals:
    def __init__(self, fx):
        self.fx = fx
        self.G = fx.G
        self._local_alias = {}
        for name, g in self.G.items():
            if g.get('local') and '()::' in name:
                fn, v = name.split('()::', 1)
                self._local_alias[(fn, v)] = name
        self.pure_this = self._pure_this_summary()
        self.self_locking = self._self_locking()
        self.accessors = {}
        self.accessors = self._accessors()
        self.uses = collections.defaultdict(list)
        self.hidden = []     # (func, ln, callee, why, locked)
        for f in fx.F.values():
            self._scan_function(f)

    # ---- name resolution for refs
    def gname(self, ref, f):
        n = ref['n']
        if n in self.G:
            return n
        last = n.split('::')[-1]
        k = (f['name'], last)
        if k in self._local_alias:
            return self._local_alias[k]
        # static local referenced from a lambda inside the owner, or qualified by clang as Fn::var
        for (fn, v), full in self._local_alias.items():
            if v == last and (n.startswith(fn + '::') or f['name'].startswith(fn)):
                return full
        return n

    def root(self, e, f):
        """static-storage variable an access path is rooted at (through members, indexing, derefs, accessor calls)"""
        while isinstance(e, dict):
            e = see_through(e)
            if not isinstance(e, dict):
                return None
            k = e.get('k')
            if k == 'ref':
                return self.gname(e, f) if e.get('d') == 'global' else None
            if k in ('mem', 'idx'):
                e = e['b']
                continue
            if k == 'call':
                if e.get('id') in self.accessors:
                    return self.accessors[e['id']]
                if (e.get('op') == '[]' or short_name(callee(e)) in ELEMENT_ACCESS) and e.get('recv') is not None:
                    e = e['recv']
                    continue
                return None
            return None
        return None

    # ---- callee summary: does a method write any field of *this (directly or through callees on this)?
    def _pure_this_summary(self):
        fx = self.fx
        writes = {}
        calls_on_this = collections.defaultdict(set)
        for i, f in fx.F.items():
            if not f.get('class'):
                continue
            w = False
            for n in walk(f['body'], f.get('lambdas')):
                k = n.get('k')
                tgt = None
                if k == 'bin' and n.get('op') in ASSIGN:
                    tgt = n['l']
                elif k == 'un' and n.get('op') in ('++', '--'):
                    tgt = n['e']
                elif k == 'call' and n.get('recv') is not None and not n.get('mc'):
                    r = self._this_rooted(n['recv'])
                    if r == 'field':
                        w = True
                    elif r == 'this' and n.get('id'):
                        calls_on_this[i].add(n['id'])
                    continue
                if tgt is not None and self._this_rooted(tgt) in ('field', 'this'):
                    w = True
            writes[i] = w
        changed = True
        while changed:
            changed = False
            for i, cs in calls_on_this.items():
                if not writes.get(i) and any(writes.get(c, True) for c in cs):
                    writes[i] = True
                    changed = True
        return {i for i, w in writes.items() if not w}

    @staticmethod
    def _this_rooted(e):
        depth = 0
        while isinstance(e, dict):
            e = see_through(e)
            if not isinstance(e, dict):
                return None
            k = e.get('k')
            if k == 'this':
                return 'field' if depth else 'this'
            if k in ('mem', 'idx'):
                e = e['b']
                depth += 1
                continue
            if k == 'call' and e.get('op') == '[]' and e.get('recv') is not None:
                e = e['recv']
                depth += 1
                continue
            return None
        return None

    def _self_locking(self):
        """methods in which every access to a member of *this (other than the mutex) happens while a scoped lock on a mutex member of *this is alive"""
        out = set()
        for i, f in self.fx.F.items():
            if not f.get('class'):
                continue
            state = {'locks': 0, 'bad': False, 'access': 0}

            def is_this_lock(st):
                if st.get('k') == 'decl' and any(t in (st.get('t') or '') for t in LOCK_TYPES):
                    mems = [x for x in walk(st.get('init')) if x.get('k') == 'mem' and isinstance(x.get('b'), dict) and x['b'].get('k') == 'this']
                    return bool(mems) and all(is_sync_type(x.get('t') or '') for x in mems)
                return False

            def visit(n, locked):
                if isinstance(n, list):
                    for x in n:
                        visit(x, locked)
                    return
                if not isinstance(n, dict):
                    return
                if n.get('k') == 'seq':
                    lk = locked
                    for c in n['c']:
                        if isinstance(c, dict) and is_this_lock(c):
                            lk = True
                            state['locks'] += 1
                            continue
                        visit(c, lk)
                    return
                if n.get('k') == 'mem' and isinstance(n.get('b'), dict) and n['b'].get('k') == 'this' and not is_sync_type(n.get('t') or ''):
                    state['access'] += 1
                    if not locked:
                        state['bad'] = True
                if n.get('k') == 'call' and isinstance(n.get('recv'), dict) and n['recv'].get('k') == 'this':
                    state['access'] += 1
                    if not locked:
                        state['bad'] = True
                for k, v in n.items():
                    if k != 'k' and isinstance(v, (dict, list)):
                        visit(v, locked)
            visit(f['body'], False)
            if state['locks'] and not state['bad']:
                out.add(i)
        return out

    def _accessors(self):
        """functions returning a non-const reference/pointer to a static-storage variable"""
        acc = {}
        for i, f in self.fx.F.items():
            rt = f.get('ret', '') or ''
            if not is_mut_ptr(rt):
                continue
            for n in walk(f['body']):
                if n.get('k') == 'ret' and n.get('e') is not None:
                    r = self.root(n['e'], f)
                    if r:
                        acc[i] = r
        return acc

    # ---- scan
    def _scan_function(self, f):
        lams = f.get('lambdas', [])
        own_init_of = None

        def visit(n, locked):
            """returns nothing; `locked` = a lock object is alive in an enclosing scope"""
            if isinstance(n, list):
                for x in n:
                    visit(x, locked)
                return
            if not isinstance(n, dict):
                return
            k = n.get('k')
            if k == 'seq':
                lk = locked
                for c in n['c']:
                    visit(c, lk)
                    if isinstance(c, dict) and c.get('k') == 'decl' and any(t in (c.get('t') or '') for t in LOCK_TYPES):
                        lk = True
                return
            ia = bool(n.get('as'))
            if k == 'decl':
                if n.get('static'):
                    # the initialiser of a static local runs once under the compiler's guard
                    return
                t = n.get('t') or ''
                if n.get('init') is not None and ('&' in t or '*' in t) and not t.startswith('const ') and 'const &' not in t and 'const *' not in t:
                    r = self.root(n['init'], f)
                    if r:
                        self.uses[r].append(Use(r, f, n.get('ln'), 'bound to non-const %s' % t, locked, ia))
            elif k == 'bin' and n.get('op') in ASSIGN:
                r = self.root(n['l'], f)
                if r:
                    self.uses[r].append(Use(r, f, n.get('ln'), 'assignment', locked, ia))
            elif k == 'un' and n.get('op') in ('++', '--'):
                r = self.root(n['e'], f)
                if r:
                    self.uses[r].append(Use(r, f, n.get('ln'), n['op'], locked, ia))
            elif k == 'un' and n.get('op') == '&':
                r = self.root(n['e'], f)
                if r and not (self.G.get(r, {}).get('const')):
                    self.uses[r].append(Use(r, f, n.get('ln'), 'address taken', locked, ia))
            elif k == 'call':
                fn = callee(n)
                if n.get('recv') is not None and not n.get('mc') and not n.get('ms') and n.get('op') != '[]' and fn.split('::')[-1] not in ELEMENT_ACCESS:
                    # element access (operator[], at, front, back, begin, end ...) is part of the access path: a write through it is
                    # seen at the enclosing assignment / non-const call
                    r = self.root(n['recv'], f)
                    if r and n.get('id') not in self.pure_this and not fn.startswith(ATOMIC_CLASSES):
                        # a method that takes a lock on a mutex member of *this before touching any field synchronises itself
                        self.uses[r].append(Use(r, f, n.get('ln'), 'non-const call %s' % fn, locked or n.get('id') in self.self_locking, ia))
                for a, pt in zip(n.get('a', []), n.get('pt', [])):
                    if fn.startswith('std::') and short_name(fn) in FORWARDING:
                        continue    # perfect-forwarding parameter deduced as T&: the element is copied, the argument is not written
                    if is_mut_ptr(pt) and '&&' not in pt:
                        r = self.root(a, f)
                        if r:
                            self.uses[r].append(Use(r, f, n.get('ln'), 'passed as %s to %s' % (pt, fn), locked, ia))
                base = fn.split('<')[0]
                if base in HIDDEN_STATE_CALLS and not n.get('recv'):
                    self.hidden.append((f, n.get('ln'), base, HIDDEN_STATE_CALLS[base], locked))
            elif k == 'ret' and n.get('e') is not None:
                rt = f.get('ret', '') or ''
                if is_mut_ptr(rt):
                    r = self.root(n['e'], f)
                    if r:
                        self.uses[r].append(Use(r, f, n.get('ln'), 'returned as %s' % rt, locked, ia))
            if k == 'lambda' and lams and lams[n['id']]:
                visit(lams[n['id']]['body'], locked)
            for key, v in n.items():
                if key == 'k':
                    continue
                if isinstance(v, (dict, list)):
                    visit(v, locked)

        for ini in f.get('inits', []):
            visit(ini['e'], False)
        visit(f['body'], False)

    # ---- classification
    def candidates(self):
        """static-storage variables that are writable in principle"""
        out = []
        for name, g in self.G.items():
            ct = g.get('ct', g['t'])
            if g.get('constexpr'):
                continue
            if g.get('const') and not g.get('mutable_fields'):
                continue
            out.append(g)
        return out
