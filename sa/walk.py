"""Structured path engine over the mini-AST (DESIGN 2.3).

A client supplies an abstract state (hashable) and transfer functions; the engine enumerates *sets of
states* along every structured path: short-circuit conditions, if/else, switch (with fall-through),
loops to fixpoint, break/continue/return, forward gotos, try/catch with typed exceptional edges, and
RAII scope guards (a local whose class has a user destructor fires a 'dtor' event on every exit of
its scope, normal or abrupt).
"""
from facts import switch_arms


class Client:
    """override what you need; states must be hashable"""
    lambda_at_creation = False      # evaluate lambda bodies where they are written
    skip_asserts = True             # assert(...) expansions produce no events (compiled out in release)

    def on_call(self, n, s):        # -> iterable of states after the call returns normally
        return (s,)

    def on_assign(self, n, s):      # bin '=' / compound / ++ -- (node kinds 'bin','un')
        return (s,)

    def on_decl(self, n, s):
        return (s,)

    def on_dtor(self, decl, s):     # RAII guard leaving scope
        return (s,)

    def on_cond(self, atom, s, branch):   # refine on an atomic condition; return None if infeasible
        return s

    def throws(self, n, s):         # call node -> iterable of (exception_type, state_at_throw)
        return ()

    def catches(self, handler_type, thrown_type):
        return handler_type == '...' or handler_type == thrown_type

    def on_exit(self, kind, node, s):   # kind in 'return','throw','end'
        pass

    def on_other(self, n, s):       # any other expression node (throw expr handled by engine)
        return (s,)


ASSIGN_OPS = {'=', '+=', '-=', '*=', '/=', '%=', '|=', '&=', '^=', '<<=', '>>='}


class Engine:
    def __init__(self, func, client, max_loop=40):
        self.f = func
        self.c = client
        self.lams = func.get('lambdas', [])
        self.max_loop = max_loop
        self.scopes = []        # list of lists of decl nodes with dtor
        self.handlers = []      # stack of (handler list, scope depth, acc dict)
        self.loops = []         # stack of dict(brk=set, cont=set, depth=int)
        self.labels = {}        # label -> set of states jumping forward to it
        self.broken = []        # constructs the engine could not model

    # ---------- driver ----------
    def run(self, init_states):
        out = self.stmt(self.f['body'], set(init_states))
        for s in out:
            self.c.on_exit('end', None, s)
        return out

    # ---------- helpers ----------
    def _each(self, fn, n, sts):
        out = set()
        for s in sts:
            r = fn(n, s)
            if r is None:
                continue
            for x in r:
                if x is not None:
                    out.add(x)
        return out

    def _unwind(self, sts, to_depth):
        """fire dtors of scopes deeper than to_depth (innermost first)"""
        for d in range(len(self.scopes) - 1, to_depth - 1, -1):
            for decl in reversed(self.scopes[d]):
                sts = self._each(self.c.on_dtor, decl, sts)
        return sts

    def _throw(self, pairs):
        """route (type, state) pairs to the innermost matching handler, else leave the function"""
        for t, s in pairs:
            depth_from = len(self.scopes)
            placed = False
            for hi in range(len(self.handlers) - 1, -1, -1):
                hs, depth, acc = self.handlers[hi]
                # unwinding up to the try's scope depth
                st = self._unwind({s}, depth) if depth < depth_from else {s}
                for idx, h in enumerate(hs):
                    if self.c.catches(h['t'], t):
                        acc.setdefault(idx, set()).update((t, x) for x in st)
                        placed = True
                        break
                if placed:
                    break
            if not placed:
                for x in self._unwind({s}, 0):
                    self.c.on_exit('throw', {'t': t}, x)

    # ---------- expressions ----------
    def expr(self, e, sts):
        if e is None or not sts:
            return sts
        if isinstance(e, list):
            for x in e:
                sts = self.expr(x, sts)
            return sts
        if not isinstance(e, dict):
            return sts
        if self.c.skip_asserts and e.get('as'):
            return sts
        k = e.get('k')
        if k == 'bin' and e['op'] in ('&&', '||'):
            t = self.cond(e, sts, True)
            f = self.cond(e, sts, False)
            return t | f
        if k == 'cond':
            t = self.cond(e['c'], sts, True)
            f = self.cond(e['c'], sts, False)
            return self.expr(e['t'], t) | self.expr(e['f'], f)
        if k == 'lambda':
            if self.c.lambda_at_creation and self.lams[e['id']]:
                saved = (self.loops, self.labels)
                self.loops, self.labels = [], {}
                out = self.stmt(self.lams[e['id']]['body'], set(sts))
                out |= self._lambda_rets
                self.loops, self.labels = saved
                return sts | out
            return sts
        if k == 'call':
            sts = self.expr(e.get('recv'), sts)
            if e.get('callee') is not None:
                sts = self.expr(e['callee'], sts)
            sts = self.expr(e.get('a'), sts)
            pairs = []
            for s in sts:
                pairs.extend(self.c.throws(e, s))
            if pairs:
                self._throw(pairs)
            return self._each(self.c.on_call, e, sts)
        if k == 'new':
            sts = self.expr(e.get('a'), sts)
            pairs = []
            for s in sts:
                pairs.extend(self.c.throws(e, s))
            if pairs:
                self._throw(pairs)
            return self._each(self.c.on_call, e, sts)
        if k == 'throw':
            sts = self.expr(e.get('e'), sts)
            self._throw([(e['t'], s) for s in sts])
            return set()
        if k == 'bin':
            if e['op'] in ASSIGN_OPS:
                sts = self.expr(e['r'], sts)
                sts = self.expr(e['l'], sts)
                return self._each(self.c.on_assign, e, sts)
            sts = self.expr(e['l'], sts)
            return self.expr(e['r'], sts)
        if k == 'un':
            sts = self.expr(e['e'], sts)
            if e['op'] in ('++', '--'):
                return self._each(self.c.on_assign, e, sts)
            return sts
        for key in ('b', 'e', 'i', 'c', 'l', 'r', 'init'):
            v = e.get(key)
            if isinstance(v, (dict, list)):
                sts = self.expr(v, sts)
        return self._each(self.c.on_other, e, sts)

    _lambda_rets = frozenset()

    def cond(self, e, sts, branch):
        """states in which condition e evaluates to `branch` (events of e applied, short-circuit aware)"""
        if not sts:
            return sts
        if e is None:
            return sts if branch else set()
        if self.c.skip_asserts and isinstance(e, dict) and e.get('as'):
            return sts
        k = e.get('k') if isinstance(e, dict) else None
        if k == 'un' and e['op'] == '!':
            return self.cond(e['e'], sts, not branch)
        if k == 'bin' and e['op'] == '&&':
            lt = self.cond(e['l'], sts, True)
            if branch:
                return self.cond(e['r'], lt, True)
            return self.cond(e['l'], sts, False) | self.cond(e['r'], lt, False)
        if k == 'bin' and e['op'] == '||':
            lf = self.cond(e['l'], sts, False)
            if branch:
                return self.cond(e['l'], sts, True) | self.cond(e['r'], lf, True)
            return self.cond(e['r'], lf, False)
        if k == 'lit' and isinstance(e.get('v'), bool):
            return sts if e['v'] == branch else set()
        if k == 'lit' and isinstance(e.get('v'), int):          # while (0) / while (1)
            return sts if bool(e['v']) == branch else set()
        if k == 'cast' and isinstance(e.get('e'), dict) and e['e'].get('k') == 'lit' and isinstance(e['e'].get('v'), (bool, int)):
            return sts if bool(e['e']['v']) == branch else set()
        sts = self.expr(e, sts)
        out = set()
        for s in sts:
            r = self.c.on_cond(e, s, branch)
            if r is not None:
                out.add(r)
        return out

    # ---------- statements ----------
    def stmt(self, s, sts):
        if s is None or not sts:
            return sts
        k = s.get('k')
        if k == 'seq':
            if s.get('flat'):
                for c in s['c']:
                    sts = self.stmt(c, sts)
                return sts
            self.scopes.append([])
            items = s['c']
            i = 0
            while i < len(items):
                c = items[i]
                if isinstance(c, dict) and c.get('k') == 'label' and c['l'] in self.labels:
                    sts = sts | self.labels.pop(c['l'])
                if not sts:
                    # dead code: skip ahead to the next label that someone jumps to
                    j = i
                    while j < len(items) and not (isinstance(items[j], dict) and items[j].get('k') == 'label' and items[j]['l'] in self.labels):
                        j += 1
                    if j >= len(items):
                        break
                    i = j
                    continue
                sts = self.stmt(c, sts)
                i += 1
            sc = self.scopes.pop()
            for decl in reversed(sc):
                sts = self._each(self.c.on_dtor, decl, sts)
            return sts
        if k == 'e':
            if self.c.skip_asserts and s.get('as'):
                return sts
            return self.expr(s['e'], sts)
        if k == 'decl':
            sts = self.expr(s.get('init'), sts)
            sts = self._each(self.c.on_decl, s, sts)
            if s.get('dtor') and self.scopes:
                self.scopes[-1].append(s)
            return sts
        if k == 'ret':
            sts = self.expr(s.get('e'), sts)
            sts = self._unwind(sts, 0)
            if self._in_lambda:
                self._lambda_rets = self._lambda_rets | frozenset(sts)
            else:
                for x in sts:
                    self.c.on_exit('return', s, x)
            return set()
        if k == 'if':
            if self.c.skip_asserts and s.get('as'):
                return sts
            if s.get('init'):
                sts = self.stmt(s['init'], sts)
            if s.get('cvar'):
                sts = self.stmt(s['cvar'], sts)
            t = self.cond(s['cond'], sts, True)
            f = self.cond(s['cond'], sts, False)
            a = self.stmt(s['then'], t)
            b = self.stmt(s['else'], f) if s.get('else') else f
            return a | b
        if k == 'loop':
            return self.loop(s, sts)
        if k == 'switch':
            return self.switch(s, sts)
        if k in ('case', 'default'):
            return self.stmt(s.get('body'), sts)
        if k == 'label':
            if s['l'] in self.labels:
                sts = sts | self.labels.pop(s['l'])
            return self.stmt(s.get('body'), sts)
        if k == 'goto':
            hook = getattr(self.c, 'on_goto', None)
            if hook is not None:
                for x in sts:
                    hook(s, x)
            self.labels.setdefault(s['l'], set()).update(sts)
            return set()
        if k == 'break':
            if not self.loops:
                self.broken.append('break outside loop')
                return set()
            L = self.loops[-1]
            L['brk'] |= self._unwind(sts, L['depth'])
            return set()
        if k == 'continue':
            Ls = [L for L in self.loops if L.get('loop')]
            if not Ls:
                self.broken.append('continue outside loop')
                return set()
            L = Ls[-1]
            L['cont'] |= self._unwind(sts, L['depth'])
            return set()
        if k == 'try':
            return self.try_(s, sts)
        if k == 'stmt?':
            self.broken.append('unmodelled statement %s' % s.get('cls'))
            return sts
        return sts

    _in_lambda = False

    def loop(self, s, sts):
        kind = s['kind']
        self.scopes.append([])
        if kind == 'for' and s.get('init'):
            sts = self.stmt(s['init'], sts)
        if kind == 'range':
            sts = self.expr(s.get('range'), sts)
        L = {'brk': set(), 'cont': set(), 'depth': len(self.scopes), 'loop': True}
        self.loops.append(L)
        head = set(sts)      # states at loop head (before condition)
        exits = set()
        seen_head = set()
        it = 0
        work = set(sts)
        first = True
        while work and it < self.max_loop:
            it += 1
            if kind == 'do' and first:
                enter = work
            elif kind == 'range':
                enter = work
                exits |= work       # zero or more iterations
            else:
                enter = self.cond(s.get('cond'), work, True) if s.get('cond') is not None else work
                exits |= self.cond(s.get('cond'), work, False) if s.get('cond') is not None else set()
            first = False
            L['cont'] = set()
            body_out = self.stmt(s['body'], enter)
            body_out = body_out | L['cont']
            if kind == 'for' and s.get('inc') is not None:
                body_out = self.expr(s['inc'], body_out)
            if kind == 'do':
                back = self.cond(s.get('cond'), body_out, True)
                exits |= self.cond(s.get('cond'), body_out, False)
            else:
                back = body_out
            new = back - seen_head
            seen_head |= back
            work = new
        if work:
            self.broken.append('loop at line %s did not stabilise' % s.get('ln'))
        self.loops.pop()
        out = exits | L['brk']
        sc = self.scopes.pop()
        for decl in reversed(sc):
            out = self._each(self.c.on_dtor, decl, out)
        return out

    def switch(self, s, sts):
        sts = self.expr(s['cond'], sts)
        arms = switch_arms(s)
        L = {'brk': set(), 'cont': set(), 'depth': len(self.scopes), 'loop': False}
        self.loops.append(L)
        has_default = any(None in [l for l in a['labels']] for a in arms)
        fall = set()
        explicit = [l for a in arms for l in a['labels'] if l is not None]
        for a in arms:
            entry = set()
            for lab in a['labels']:
                for st in sts:
                    # for the default label the client also gets the explicit labels of the switch (the default is taken only for other values)
                    r = self.c.on_cond({'k': 'case', 'sw': s['cond'], 'v': lab, 'others': explicit}, st, True)
                    if r is not None:
                        entry.add(r)
            cur = entry | fall
            for st_ in a['stmts']:
                cur = self.stmt(st_, cur)
            fall = cur
        self.loops.pop()
        out = fall | L['brk']
        if not has_default:
            out |= sts
        return out

    def try_(self, s, sts):
        acc = {}
        self.handlers.append((s['h'], len(self.scopes), acc))
        out = self.stmt(s['body'], sts)
        self.handlers.pop()
        for idx, h in enumerate(s['h']):
            entry = acc.get(idx)
            if not entry:
                continue
            hs = {x for (_t, x) in entry}
            saved = self._rethrow
            self._rethrow = entry
            out |= self.stmt(h['body'], hs)
            self._rethrow = saved
        return out

    _rethrow = None


def run_function(func, client, init):
    eng = Engine(func, client)
    out = eng.run(init if isinstance(init, (set, list, tuple, frozenset)) else [init])
    return out, eng
