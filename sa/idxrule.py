"""Partition indices of the front end and of the solver stay in step (C09 / C08).

Interpret::getInterpolants turns an assertion into a partition index by its position in Interpret::assertions (get_assertion_index); the solver numbers
partitions with MainSolver::insertedFormulasCount at insertion time.  Both sequences only ever grow - neither is rolled back on pop - and that is the only
reason the two numberings agree.  A list that shrinks on pop (or a counter that is lowered) makes every later assertion's front-end index point at an older,
popped partition: the A-masks of get-interpolants then name the wrong partitions.
"""
from build import AnalysisBroken
from facts import fwalk, walk, path_of, recv_path, see_through
from prims import mname, is_call, as_assign

GROW = {'push', 'push_back', 'emplace_back'}
READ = {'size', 'size_', 'begin', 'end', 'operator[]', 'last', 'empty', 'copyTo', 'cbegin', 'cend'}


def index_rule(fx, res, floor=3):
    r = res.rule('partition-numberings-in-step', 'the list whose positions Interpret::getInterpolants uses as partition indices (Interpret::assertions) is append-only, and the solver\'s partition counter '
                 '(MainSolver::insertedFormulasCount) is only ever incremented: neither is rolled back on pop, so position i in the list is partition i of the solver', floor=floor)
    gi = fx.func('opensmt::Interpret::get_assertion_index')
    lists = {path_of(x.get('recv')) for x in fwalk(gi) if x.get('k') == 'call' and x.get('op') == '[]' and (path_of(x.get('recv')) or '').startswith('this.')}
    if len(lists) != 1:
        raise AnalysisBroken('get_assertion_index: the list it searches was not identified (%s)' % sorted(map(str, lists)))
    lst = lists.pop()
    field = lst.split('.', 1)[1]
    res.ok(r, 'get_assertion_index: index = position in %s' % lst)
    # accessors handing out a mutable reference to the list
    accessors = {f['name'] for f in fx.F.values() if f.get('class') == 'opensmt::Interpret' and f.get('body') and '&' in (f.get('ret') or '') and 'const' not in (f.get('ret') or '').split('&')[0]
                 and any(x.get('k') == 'ret' and path_of(x.get('e')) == lst for x in fwalk(f))}
    n_grow = 0
    bad = []
    for f in sorted(fx.F.values(), key=lambda f: f['name']):
        if not f.get('body'):
            continue
        for n in fwalk(f):
            if n.get('k') == 'call' and n.get('recv') is not None:
                rp = recv_path(n)
                via_acc = isinstance(see_through(n['recv']), dict) and see_through(n['recv']).get('k') == 'call' and (see_through(n['recv']).get('f') or '') in accessors
                if (rp == lst and f.get('class') == 'opensmt::Interpret') or via_acc:
                    m = mname(n)
                    if m in GROW:
                        n_grow += 1
                    elif m in READ or n.get('mc'):
                        pass
                    else:
                        bad.append((f, n.get('ln'), '%s.%s(...)' % (field, m)))
            a = as_assign(n) if n.get('k') in ('bin', 'call') else None
            if a and path_of(a[0]) == lst and f.get('class') == 'opensmt::Interpret':
                bad.append((f, n.get('ln'), 'assignment to %s' % field))
    if n_grow == 0:
        raise AnalysisBroken('partition-numberings-in-step: nothing appends to %s any more' % lst)
    counter_writes = [(f, n) for f in fx.F.values() if f.get('body') and f.get('class') == 'opensmt::MainSolver' for n in fwalk(f)
                      if (n.get('k') == 'un' and n.get('op') == '--' and path_of(n['e']) == 'this.insertedFormulasCount') or
                      (n.get('k') in ('bin', 'call') and as_assign(n) and path_of(as_assign(n)[0]) == 'this.insertedFormulasCount' and (n.get('op') or '=') in ('=', '-='))]
    if bad and counter_writes:
        # both sequences are rolled back: a different numbering scheme, which this rule does not know how to judge
        raise AnalysisBroken('partition-numberings-in-step: both the assertion list and the partition counter are rolled back; the numbering scheme changed and must be re-confirmed')
    for f, ln, what in bad:
        res.bad(r, 'assertion-list-not-append-only:%s' % f['name'].split('::')[-1], fx.loc(f, ln), '%s changes the interpreter\'s assertion list other than by appending (%s): positions in that list are '
                'the partition indices used by get-interpolants, the solver\'s own numbering is never rolled back, so after this every later assertion is mapped to an older partition and the '
                'A-masks of an interpolation request name the wrong (possibly popped) partitions' % (f['name'].replace('opensmt::', ''), what))
    if not bad:
        res.ok(r, '%s: %d appending site(s), no other mutation' % (lst, n_grow))
    # the solver's counter
    cnt_bad, cnt_inc = [], 0
    for f in sorted(fx.F.values(), key=lambda f: f['name']):
        if not f.get('body'):
            continue
        for n in fwalk(f):
            tgt = None
            if n.get('k') == 'un' and n.get('op') in ('++', '--'):
                tgt, op = path_of(n['e']), n['op']
            else:
                a = as_assign(n) if n.get('k') in ('bin', 'call') else None
                if a:
                    tgt, op = path_of(a[0]), (n.get('op') or '=')
            if tgt == 'this.insertedFormulasCount' and f.get('class') == 'opensmt::MainSolver':
                if op == '++' or (op == '+=' and str(see_through(as_assign(n)[1]).get('v')) not in ('None',) and isinstance(see_through(as_assign(n)[1]).get('v'), int) and see_through(as_assign(n)[1])['v'] > 0):
                    cnt_inc += 1
                else:
                    cnt_bad.append((f, n.get('ln'), op))
    if cnt_inc == 0:
        raise AnalysisBroken('partition-numberings-in-step: MainSolver::insertedFormulasCount is never incremented (anchor)')
    for f, ln, op in cnt_bad:
        res.bad(r, 'partition-counter-lowered:%s' % f['name'].split('::')[-1], fx.loc(f, ln), '%s writes MainSolver::insertedFormulasCount with `%s`: partition indices are handed out from this counter and '
                'must never be reused while the front end counts assertions monotonically' % (f['name'].replace('opensmt::', ''), op))
    if not cnt_bad:
        res.ok(r, 'MainSolver::insertedFormulasCount: %d increment(s), nothing else' % cnt_inc)
    return r
