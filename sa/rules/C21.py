"""C21 -- names and definitions follow the assertion-stack scopes: structural clauses (DESIGN 3-C21)."""
from build import AnalysisBroken
from core import Result
from facts import Facts, fwalk, walk, callee, path_of, recv_path, see_through
from prims import mname, is_call, ret_value, must_call, callers_of
import C04

LEVEL = 'other'
EXPLANATION = ('Container-protocol and pairing rules on the scoped registries (TermNames, DefinedFunctions, LetRecords): every successful name '
               'insertion also records the reverse map and the scope log; every map member whose keys are created by an insert path can have '
               'keys removed by the undo path whenever some reader tests key presence; push/popScope are guarded by the same global-declarations '
               'predicate; scope logs move in step with the assertion stack; only the registry writes its maps. Decides these clauses, not '
               'which container each printer reads.')

KEY_CREATE = {'operator[]', 'try_emplace', 'emplace', 'insert', 'insert_or_assign'}
KEY_TEST = {'contains', 'count', 'find', 'at'}
REGISTRIES = ['opensmt::TermNames', 'opensmt::DefinedFunctions', 'opensmt::LetRecords']


def is_map(field):
    ct = field['ct']
    return ct.startswith(('std::unordered_map<', 'std::map<', 'class std::unordered_map<', 'class std::map<'))


MUTATORS = {'erase', 'push_back', 'emplace_back', 'pop_back', 'insert', 'clear', 'emplace', 'push', 'pop', 'resize', 'operator[]', 'try_emplace', 'insert_or_assign'}


def by_value_locals(fx, f):
    """locals of class type declared by value (no reference / pointer) and initialised from an expression that denotes existing storage:
    a call whose callee returns a reference, or a member access path"""
    out = {}
    for n in fwalk(f):
        if n.get('k') != 'decl' or n.get('init') is None:
            continue
        t = n.get('t') or ''
        ct = n.get('ct') or t
        if '&' in t or '*' in t or '&' in ct or '*' in ct:
            continue
        if not any(m in ct for m in ('vector<', 'map<', 'vec<', 'set<', 'basic_string', 'Map<')):
            continue
        i = see_through(n['init'])
        # copy construction shows as new/init node around the source expression
        while isinstance(i, dict) and i.get('k') in ('new', 'init') and len(i.get('a') or i.get('e') or []) == 1:
            i = see_through((i.get('a') or i.get('e'))[0])
        if not isinstance(i, dict):
            continue
        src = None
        if i.get('k') == 'call':
            for tid in fx.targets(i):
                g = fx.F.get(tid)
                if g and '&' in (g.get('ret') or ''):
                    src = g['name']
            if i.get('op') == '[]' or mname(i) in ('at', 'second', 'first'):
                src = src or 'element access'
        elif i.get('k') in ('mem', 'ref') and (path_of(i) or '').startswith('this.'):
            src = path_of(i)
        if src:
            out[n['n']] = (n.get('ln'), src)
    return out


def lost_updates(fx, f):
    bv = by_value_locals(fx, f)
    out = []
    for name, (ln, src) in bv.items():
        mutated = None
        escapes = False
        for n in fwalk(f):
            if n.get('as'):
                continue
            k = n.get('k')
            if k == 'call':
                rp = recv_path(n) or ''
                if rp.split('.')[0].split('[')[0] == name and mname(n) in MUTATORS and not n.get('mc'):
                    mutated = mutated or n.get('ln')
                for a in n.get('a') or []:
                    if rp.split('.')[0] != name and any(x.get('k') == 'ref' and x.get('n') == name for x in walk(a)) and not callee(n).startswith('std::'):
                        escapes = True
                if callee(n).endswith(('::swap', 'std::swap', 'std::move')) and any(x.get('k') == 'ref' and x.get('n') == name for x in walk(n)):
                    escapes = True
            elif k == 'ret' and n.get('e') is not None and any(x.get('k') == 'ref' and x.get('n') == name for x in walk(n['e'])):
                escapes = True
            elif k == 'bin' and n.get('op') == '=' and any(x.get('k') == 'ref' and x.get('n') == name for x in walk(n['r'])):
                escapes = True
        if mutated and not escapes:
            out.append((name, mutated))
    return out


def registry_undo_rules(fx, res, classes=None):
    """R3/R3b, shared with C06 (unsat-core names are read from termToNames)"""
    # ---- R3 the undo callback empties both maps: eraseTermName erases from nameToTerm and from the name vector, and drops emptied vectors
    r = res.rule('undo-touches-all', 'TermNames::popScope undoes through eraseTermName, which removes the name from nameToTerm and from the per-term vector; '
                 'DefinedFunctions::popScope erases from the map', floor=3)
    et = fx.func('opensmt::TermNames::eraseTermName')
    ps = fx.func('opensmt::TermNames::popScope')
    if any(is_call(n, 'eraseTermName') for n in fwalk(ps)) and any(is_call(n, 'popScope', 'this.scopedNamesAndTerms') for n in fwalk(ps)):
        res.ok(r, 'TermNames::popScope -> scopedNamesAndTerms.popScope(callback: eraseTermName)')
    else:
        res.bad(r, 'popScope-callback', fx.loc(ps), 'TermNames::popScope no longer undoes names through eraseTermName')
    by_value = by_value_locals(fx, et)

    # removal by position is right only at the end where tryInsert puts a new name (names of a term are erased in reverse order of insertion)
    ti_ = fx.func('opensmt::TermNames::tryInsert')
    ins_end = set()
    for n in fwalk(ti_):
        if n.get('k') == 'call' and n.get('recv') is not None and mname(n) in ('push_back', 'emplace_back'):
            ins_end.add('back')
        if n.get('k') == 'call' and n.get('recv') is not None and (mname(n) == 'push_front' or (mname(n) in ('insert', 'emplace') and n.get('a') and is_call(see_through(n['a'][0]), 'begin'))):
            ins_end.add('front')

    def vec_erase(n):
        # the erased vector must be storage of the registry: an access path into termToNames or a reference/pointer local, never a by-value copy
        rp = recv_path(n)
        if rp in ('this.nameToTerm', 'this.termToNames') or (rp or '').split('.')[0].split('[')[0] in by_value:
            return False
        if is_call(n, 'erase'):
            a0 = see_through(n['a'][0]) if n.get('a') else None
            if isinstance(a0, dict) and is_call(a0, 'begin'):
                return ins_end == {'front'}             # erase(begin()) removes the first name
            return True                                 # erase(find(...)): by value
        if is_call(n, 'pop_back'):
            return ins_end == {'back'}
        if is_call(n, 'pop_front'):
            return ins_end == {'front'}
        return False
    exits, eng = must_call(et, {'n2t': lambda n: is_call(n, 'erase', 'this.nameToTerm'), 'vec': vec_erase})
    bad = [nd for k, nd, st in exits if k == 'return' and ret_value(nd) is True and not {'n2t', 'vec'} <= st]
    if bad:
        res.bad(r, 'eraseTermName-partial', fx.loc(et), 'eraseTermName can report success without erasing the name from both nameToTerm and the per-term name vector (a removal by position '
                'counts only at the end where tryInsert puts a new name: %s)' % (sorted(ins_end) or 'unknown'))
    else:
        res.ok(r, 'eraseTermName erases from nameToTerm and the name vector before returning true')
    dp = fx.func('opensmt::DefinedFunctions::popScope')
    if any(is_call(n, 'erase', 'this.defined_functions') for n in fwalk(dp)) and any(is_call(n, 'popScope', 'this.scopedNames') for n in fwalk(dp)):
        res.ok(r, 'DefinedFunctions::popScope erases every logged name')
    else:
        res.bad(r, 'DefinedFunctions::popScope', fx.loc(dp), 'DefinedFunctions::popScope no longer erases the logged names from the map')

    # ---- R3b mutations inside the registries act on the registry's storage, not on a copy that is then dropped
    r = res.rule('undo-acts-on-storage', 'in the methods of the scoped registries a container obtained from the registry by value (a copy) is not the target of a '
                 'mutation whose result is then dropped (not returned, stored back or passed on)', floor=10)
    for cls in (classes or REGISTRIES):
        for f in fx.F.values():
            if f.get('class') != cls or not f.get('body'):
                continue
            lost = lost_updates(fx, f)
            for name, ln in lost:
                res.bad(r, 'lost-update:%s:%s' % (f['name'].split('::')[-1], name), fx.loc(f, ln),
                        '%s mutates `%s`, a by-value copy of registry data, and never stores it back: the registry keeps the old contents' % (f['name'], name))
            if not lost:
                res.ok(r, f['name'])

    return ps


def run(src, tier, seed):
    fx = Facts(src)
    res = Result('C21')
    res.assumptions += ['default build configuration, analysed with -UNDEBUG; assert expansions are not events',
                        'key creation = operator[]/try_emplace/emplace/insert/insert_or_assign on a std::(unordered_)map member; key test = contains/count/find/at']

    # ---- R1 registration pairing in TermNames::tryInsert
    r = res.rule('insert-registers', 'a successful TermNames::tryInsert writes nameToTerm, termToNames and the scope log on every path returning true; '
                 'DefinedFunctions::insert writes the map and, exactly under `scoped`, the scope log', floor=4)
    ti = fx.func('opensmt::TermNames::tryInsert')
    from undo_cover import aliases, member_of
    al_ti = aliases(ti)
    reqs = {'nameToTerm': lambda n: n.get('k') == 'call' and mname(n) in KEY_CREATE and recv_path(n) == 'this.nameToTerm',
            'termToNames': lambda n: n.get('k') == 'call' and mname(n) in ('push_back', 'emplace_back', 'insert', 'emplace', 'push_front') and member_of(path_of(n.get('recv')), al_ti) == 'termToNames',
            'scopeLog': lambda n: is_call(n, 'push', 'this.scopedNamesAndTerms')}
    exits, eng = must_call(ti, reqs)
    succ = [(k, nd, st) for k, nd, st in exits if k == 'return' and ret_value(nd) is not False]
    if not succ:
        raise AnalysisBroken('TermNames::tryInsert has no successful exit')
    for req in reqs:
        miss = [nd['ln'] for k, nd, st in succ if req not in st]
        if miss:
            res.bad(r, 'tryInsert-misses:%s' % req, fx.loc(ti), 'TermNames::tryInsert can report success (line %s) without updating %s' % (miss, req))
        else:
            res.ok(r, 'tryInsert: %s on every successful exit' % req)
    # the method of DefinedFunctions that records a definition is found by what it does (it writes the undo log `scopedNames`), not by its name
    loggers = [f for f in fx.F.values() if f.get('class') == 'opensmt::DefinedFunctions' and f.get('body') and any(is_call(n, 'push', 'this.scopedNames') for n in fwalk(f))]
    if len(loggers) != 1:
        raise AnalysisBroken('DefinedFunctions: expected one method that appends to the scope log, found %s' % [f['name'] for f in loggers])
    di = loggers[0]
    dname = di['name'].replace('opensmt::', '')
    sflag = [p['n'] for p in di['params'] if p['t'].replace('const ', '') == 'bool']
    if len(sflag) != 1:
        raise AnalysisBroken('%s: the `scoped` flag parameter was not identified' % dname)
    exits, eng = must_call(di, {'map': lambda n: n.get('k') == 'call' and mname(n) in KEY_CREATE and recv_path(n) == 'this.defined_functions',
                                'log': lambda n: is_call(n, 'push', 'this.scopedNames')},
                           {'scoped': lambda a: isinstance(a, dict) and a.get('k') == 'ref' and a.get('n') == sflag[0]})
    bad = []
    for k, nd, st in exits:
        if k == 'throw':
            continue
        if 'map' not in st:
            bad.append('map not written')
        if 'scoped=T' in st and 'log' not in st and not any(mname(x) in ('try_emplace', 'emplace', 'insert') for x in fwalk(di) if x.get('k') == 'call'):
            bad.append('scoped insert not logged')
        if 'scoped=F' in st and 'log' in st:
            bad.append('unscoped insert logged')
        if 'log' in st and 'scoped=T' not in st:
            bad.append('scope log no longer conditional on `scoped`')
    # an undo entry may be written only for a change that was made: a key-creating call that keeps an existing entry (try_emplace / emplace / insert)
    # must have its result tested before the log is written; operator[] assignment and insert_or_assign always change the entry and rely on the caller's
    # "not yet defined" test (checked below)
    maybe = [x for x in fwalk(di) if x.get('k') == 'call' and mname(x) in ('try_emplace', 'emplace', 'insert') and recv_path(x) == 'this.defined_functions']
    if maybe:
        flags = {d['n'] for d in fwalk(di) if d.get('k') == 'decl' and d.get('init') is not None and any(y is m_ for m_ in maybe for y in [see_through(d['init'])] + list(walk(d['init'])))}
        for push in (x for x in fwalk(di) if is_call(x, 'push', 'this.scopedNames')):
            guarded = False
            for g in walk(di['body']):
                if g.get('k') == 'if' and any(y is push for y in walk(g['then'])) and \
                        any((y.get('k') == 'ref' and y.get('n') in flags) or any(y is m_ for m_ in maybe) for y in [see_through(g['cond'])] + list(walk(g['cond']))):
                    guarded = True
            if not guarded:
                bad.append('the scope log is written although %s may have kept an existing definition (result not tested): popping the scope then erases a definition made in an outer scope'
                           % '/'.join(sorted({mname(m_) for m_ in maybe})))
    if bad:
        res.bad(r, 'DefinedFunctions::insert', fx.loc(di), '%s: %s' % (dname, sorted(set(bad))))
    else:
        res.ok(r, '%s: map write always, scope log iff scoped' % dname)
    sd = fx.func('opensmt::Interpret::storeDefinedFun')
    ok = False
    overwrite = not maybe
    if overwrite:
        # the recorder overwrites: the caller must have established that the name is not defined yet
        tested = any(n.get('k') == 'if' and not n.get('as') and any(is_call(x, 'has', 'this.defined_functions') for x in [see_through(n['cond'])] + list(walk(n['cond']))) and
                     any(x.get('k') == 'ret' for x in walk(n['then'])) for n in walk(sd['body']))
        if tested:
            res.ok(r, 'storeDefinedFun rejects a name that is already defined before recording')
        else:
            res.bad(r, 'redefinition-overwrites', fx.loc(sd), 'Interpret::storeDefinedFun records a definition without first rejecting a name that is already defined, and %s overwrites: the rejected '
                    'command replaces the definition and its scope entry erases the outer one on pop' % dname)
    for n in fwalk(sd):
        if is_call(n, di['name'].split('::')[-1], 'this.defined_functions') and len(n['a']) >= 3:
            a = see_through(n['a'][2])
            # the flag must be (a local bound to) the negation of declarations_are_global()
            src_e = a
            if a.get('k') == 'ref':
                for d in fwalk(sd):
                    if d.get('k') == 'decl' and d['n'] == a['n']:
                        src_e = see_through(d.get('init'))
            if isinstance(src_e, dict) and src_e.get('k') == 'un' and src_e['op'] == '!' and is_call(see_through(src_e['e']), 'declarations_are_global'):
                ok = True
    if ok:
        res.ok(r, 'storeDefinedFun passes scoped = !declarations_are_global()')
    else:
        res.bad(r, 'storeDefinedFun-scoped', fx.loc(sd), 'Interpret::storeDefinedFun does not pass scoped = not declarations_are_global() to the recording method of DefinedFunctions')

    # ---- R2 key-removal symmetry
    r = res.rule('key-removal-symmetry', 'for every map member of a scoped registry: if some method creates keys and some reader tests key presence, '
                 'some method must be able to erase keys', floor=4)
    for cls in REGISTRIES:
        rec = fx.record(cls)
        methods = [f for f in fx.F.values() if f.get('class') == cls]
        for fld in rec['fields']:
            if not is_map(fld):
                continue
            p = 'this.' + fld['n']
            creates, erases, tests = [], [], []
            for f in methods:
                for n in fwalk(f):
                    if n.get('k') != 'call' or n.get('as'):
                        continue
                    if recv_path(n) != p:
                        continue
                    m = mname(n)
                    if m in KEY_CREATE:
                        creates.append((f['name'], m))
                    elif m == 'erase':
                        erases.append((f['name'], m))
                    elif m in KEY_TEST:
                        tests.append((f['name'], m))
            if not creates:
                continue
            presence = [t for t in tests if t[1] in ('contains', 'count', 'find')]
            if erases or not presence:
                res.ok(r, '%s::%s create=%s erase=%s' % (cls, fld['n'], sorted({c[1] for c in creates}), sorted({e[0].split('::')[-1] for e in erases})))
            else:
                res.bad(r, 'no-key-erase:%s::%s' % (cls, fld['n']), '%s:%s' % (fx.rel(rec['file']), fld['ln']),
                        '%s::%s: keys are created by %s and key presence is tested by %s, but no method ever erases a key: an undone insertion leaves the key behind'
                        % (cls, fld['n'], sorted({c[0].split('::')[-1] + '/' + c[1] for c in creates}), sorted({t[0].split('::')[-1] + '/' + t[1] for t in presence})))

    ps = registry_undo_rules(fx, res)

    # ---- R4 the scope stack moves on every push and every pop
    r = res.rule('global-switch-symmetry', 'TermNames::pushScope opens a scope of the name log on every path and popScope closes one on every path; a path that skips the stack operation is '
                 'accepted only under an option that cannot change after initialisation (SMTConfig::isPreInitializationOption): :global-declarations may be changed between a push and '
                 'its pop, and a skip that depends on it unbalances the stack', floor=2)
    pu = fx.func('opensmt::TermNames::pushScope')
    logs = {recv_path(n) for n in fwalk(pu) if n.get('k') == 'call' and mname(n) == 'pushScope'} | {recv_path(n) for n in fwalk(ps) if n.get('k') == 'call' and mname(n) in ('popScope', 'mergeScope')}
    logs = {l for l in logs if l and l.startswith('this.')}
    if len(logs) != 1:
        raise AnalysisBroken('TermNames::pushScope / popScope: the scoped name log was not identified (%s)' % sorted(logs))
    log = logs.pop()
    frozen_cfg = fx.func('opensmt::SMTConfig::isPreInitializationOption')
    frozen = {x.get('n', '').split('::')[-1] for x in fwalk(frozen_cfg) if x.get('k') in ('ref', 'mem') and (x.get('n') or '').split('::')[-1].startswith('o_')}
    for f, ops, what in ((pu, ('pushScope',), 'opens'), (ps, ('popScope', 'mergeScope'), 'closes')):
        exits, eng = must_call(f, {'stack': lambda n, ops=ops: n.get('k') == 'call' and mname(n) in ops and recv_path(n) == log})
        skipping = [nd for k, nd, st in exits if k != 'throw' and 'stack' not in st]
        if not skipping:
            res.ok(r, '%s %s a scope of %s on every path' % (f['name'].replace('opensmt::', ''), what, log))
            continue
        # which accessor decides the skip, and is its option frozen?
        deciders = set()
        for n in walk(f['body']):
            if n.get('k') == 'if' and not n.get('as'):
                for c in [see_through(n['cond'])] + list(walk(n['cond'])):
                    if isinstance(c, dict) and c.get('k') == 'call' and not c.get('op'):
                        deciders.add(callee(c))
        opts = set()
        for d in deciders:
            st_, seen_ = [d], set()
            while st_:
                g = st_.pop()
                if g in seen_:
                    continue
                seen_.add(g)
                for gf in fx.funcs(g):
                    for x in fwalk(gf):
                        if x.get('k') in ('ref', 'mem') and (x.get('n') or '').split('::')[-1].startswith('o_'):
                            opts.add(x['n'].split('::')[-1])
                        if x.get('k') == 'call' and callee(x).startswith('opensmt::') and len(seen_) < 12:
                            st_.append(callee(x))
        if opts and opts <= frozen:
            res.ok(r, '%s skips the stack operation only under frozen option(s) %s' % (f['name'].replace('opensmt::', ''), sorted(opts)))
        else:
            res.bad(r, 'switch-asymmetry', fx.loc(f), '%s can return without having moved the scope stack of %s, depending on %s (option(s) %s, which can be changed after initialisation): a push made '
                    'under one setting and popped under the other closes a scope that was never opened (out-of-bounds access in ScopedVector::popScope) or leaves one open'
                    % (f['name'].replace('opensmt::', ''), log, sorted(x.replace('opensmt::', '') for x in deciders) or 'an unidentified condition', sorted(opts) or '?'))

    # ---- R5 who writes the maps
    r = res.rule('single-writer', 'nameToTerm/termToNames are written only by TermNames::tryInsert/eraseTermName; the deprecated mutable getTermNames() has no caller', floor=2)
    allowed = {'opensmt::TermNames::tryInsert', 'opensmt::TermNames::eraseTermName'}
    for f in fx.F.values():
        for n in fwalk(f):
            if n.get('k') == 'call' and not n.get('as') and mname(n) in (KEY_CREATE | {'erase', 'clear'}):
                rp = path_of(n.get('recv')) or ''
                if rp.endswith(('nameToTerm', 'termToNames')) or '.nameToTerm' in rp or '.termToNames' in rp:
                    if f['name'] in allowed:
                        res.ok(r, '%s: %s.%s' % (f['name'], rp, mname(n)))
                    else:
                        res.bad(r, 'foreign-writer:%s' % f['name'], fx.loc(f, n['ln']), '%s writes %s directly, bypassing the scope log' % (f['name'], rp))
    for f, n in callers_of(fx, 'opensmt::MainSolver::getTermNames'):
        if not n.get('mc'):
            res.bad(r, 'mutable-getTermNames:%s' % f['name'], fx.loc(f, n['ln']), '%s obtains a mutable TermNames through the deprecated accessor' % f['name'])
    # ---- R6 scope logs in step with the stack (shared with C04)
    C04.pair_rule(res, fx, 'stack-pairs:MainSolver', 'opensmt::MainSolver::push', 'opensmt::MainSolver::pop', 3)
    tn = [s for rr in res.rules if rr['name'] == 'stack-pairs:MainSolver' for s in rr['sites'] if 'termNames' in s]
    if not tn and not any('termNames' in f.key for f in res.findings):
        raise AnalysisBroken('MainSolver::push no longer pushes a termNames scope')
    res.extra['units'] = fx.stats['units']
    return res
