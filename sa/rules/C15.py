"""C15 -- rational arithmetic is exact in both representations: absence of unguarded wrap-around, commit-after-check, canonical tails (DESIGN 3-C15)."""
from build import AnalysisBroken
from core import Result
from facts import Facts, fwalk, walk, callee, path_of, recv_path, see_through
from prims import mname, is_call, as_assign, must_call
from walk import Client, Engine
import ubrules

LEVEL = 'other'
EXPLANATION = ('(1) UB-obligation engine: clang inserts one sanitizer check per signed add/sub/mul/negate/div and per implicit narrowing or sign-changing conversion in the '
               'machine-word paths of FastRational; at -O2 LLVM deletes the checks its range analyses prove unreachable; every remaining one must be in a table where it '
               'was read and justified (the IR is only read, nothing runs). (2) Commit-after-check: in every function with an `overflow:` fallback, no field of an operand '
               'is written on a path that can still branch to the fallback (the fallback recomputes from the operands). (3) Every word path that wrote num/den marks the '
               'word part valid, and every fallback tail re-canonicalises with try_fit_word(), so equal values have equal representation. (4) The word paths of gcd/lcm work '
               'on absolute values like the GMP paths. Decides absence of unguarded wrap-around and these protocol clauses, not that the arithmetic is right.')


class CommitAfterCheck(Client):
    def __init__(self, params):
        self.params, self.bad = params, []

    def _w(self, n, s):
        aa = as_assign(n)
        if aa:
            p = path_of(aa[0])
            if p and '.' in p and p.split('.')[0] in self.params and p.split('.')[-1] in ('num', 'den'):
                return (s | {p},)
        return (s,)
    on_assign = _w

    def on_call(self, n, s):
        return self._w(n, s)

    def on_goto(self, g, s):
        if s and g.get('l') == 'overflow':
            self.bad.append((g.get('ln'), sorted(s)))


def run(src, tier, seed):
    fx = Facts(src)
    res = Result('C15')
    res.assumptions += ['release configuration (-DNDEBUG) for the IR; clang 14.0.6 / LLVM 14 -O2 as the discharging analysis (tool version pinned by the image)',
                        'inputs of the word paths are canonical rationals (gcd(num, den) = 1, den > 0): the class invariant checked by isWellFormed() in debug builds']
    ubrules.residual_rule(res, fx, 'no-unguarded-wraparound',
                          'every sanitizer obligation (signed overflow, narrowing, sign change, float cast) in FastRational.h/.cc is discharged by LLVM -O2 or listed with a justification',
                          ubrules.SCOPE_C15, floor=60, min_total=120)
    # ---- commit after check
    r = res.rule('commit-after-check', 'in every function with an `overflow:` fallback, no num/den field of a parameter is written on a path that can still `goto overflow`', floor=9)
    tails = 0
    for f in sorted(fx.F.values(), key=lambda f: f['name']):
        if not any(n.get('k') == 'label' and n.get('l') == 'overflow' for n in walk(f['body'])):
            continue
        params = {p['n'] for p in f['params']} | {'this'}
        c = CommitAfterCheck(params)
        eng = Engine(f, c)
        eng.run([frozenset()])
        if eng.broken:
            raise AnalysisBroken('%s: %s' % (f['name'], eng.broken))
        if c.bad:
            ln, flds = c.bad[0]
            res.bad(r, 'write-before-last-check:%s' % f['name'].replace('opensmt::', ''), fx.loc(f, ln),
                    '%s can branch to its overflow fallback (line %s) after %s was already overwritten: the fallback recomputes the result from a half-updated operand'
                    % (f['name'], ln, flds), ['line %s after writing %s' % b for b in c.bad[:6]])
        else:
            res.ok(r, '%s: %d goto overflow, none after an operand field write' % (f['name'], sum(1 for n in walk(f['body']) if n.get('k') == 'goto')))
        # ---- tails
        tails += 1
    # ---- canonical representation
    r = res.rule('canonical-tails', 'every `overflow:` tail ends by re-canonicalising (try_fit_word / a constructor that does) and every word path that writes num/den reaches setOnlyWordPartValid / setWordPartValid', floor=9)
    for f in sorted(fx.F.values(), key=lambda f: f['name']):
        labs = [n for n in walk(f['body']) if n.get('k') == 'label' and n.get('l') == 'overflow']
        if not labs:
            continue
        # statements after the label in the enclosing block
        tail_nodes = []
        for blk in (b for b in walk(f['body']) if b.get('k') == 'seq'):
            idx = next((i for i, s in enumerate(blk['c']) if isinstance(s, dict) and s.get('k') == 'label' and s.get('l') == 'overflow'), None)
            if idx is not None:
                tail_nodes = blk['c'][idx:]
        calls = [mname(x) for s in tail_nodes for x in walk(s) if x.get('k') in ('call', 'new')] + [(x.get('t') or '') for s in tail_nodes for x in walk(s) if x.get('k') == 'new']
        if any(c in ('try_fit_word',) for c in calls) or any('FastRational' in c for c in calls if isinstance(c, str) and 'FastRational' in c):
            res.ok(r, '%s: fallback tail re-canonicalises' % f['name'])
        else:
            res.bad(r, 'tail-not-canonical:%s' % f['name'].replace('opensmt::', ''), fx.loc(f, labs[0].get('ln')), '%s: the arbitrary-precision fallback does not end in try_fit_word(): a value that fits a word stays in GMP form and equal values get different representations / hashes' % f['name'])
    # ---- every path that writes the word fields of a parameter declares the representation state before it returns
    from walk import Client as _Client, Engine as _Engine
    MARKERS = ('setOnlyWordPartValid', 'setWordPartValid', 'try_fit_word', 'setMpqAllocatedAndValid', 'setMpqPartInvalid', 'force_ensure_mpq_valid', 'ensure_mpq_valid', 'operator=')

    class WordWrite(_Client):
        def __init__(self, params):
            self.params = params
            self.bad = set()

        def on_assign(self, n, s):
            a = as_assign(n)
            p_ = path_of(a[0]) if a else None
            if p_ and '.' in p_ and p_.rsplit('.', 1)[1] in ('num', 'den') and p_.rsplit('.', 1)[0] in self.params:
                return (s | {p_.rsplit('.', 1)[0]},)
            return (s,)

        def on_call(self, n, s):
            if mname(n) in MARKERS or n.get('op') == '=':
                obj = recv_path(n)
                if obj in s:
                    return (s - {obj},)
            return self.on_assign(n, s)

        def on_exit(self, kind, node, s):
            if kind != 'throw':
                for obj in s:
                    self.bad.add((obj, node.get('ln') if isinstance(node, dict) else None))
    n_ww = 0
    for f in sorted(fx.F.values(), key=lambda f: f['name']):
        if not f.get('body') or 'FastRational.h' not in f['file']:
            continue
        params = {p_['n'] for p_ in f['params'] if 'FastRational' in p_['t'] and '&' in p_['t'] and 'const' not in p_['t']}
        if not params or not any(as_assign(n) and (path_of(as_assign(n)[0]) or '').rsplit('.', 1)[-1] in ('num', 'den') and (path_of(as_assign(n)[0]) or '').rsplit('.', 1)[0] in params for n in fwalk(f)):
            continue
        n_ww += 1
        w = WordWrite(params)
        eng = _Engine(f, w)
        eng.run([frozenset()])
        if eng.broken:
            raise AnalysisBroken('%s: %s' % (f['name'], eng.broken))
        if w.bad:
            obj, ln = sorted(w.bad, key=str)[0]
            res.bad(r, 'word-write-unmarked:%s' % f['name'].replace('opensmt::', ''), fx.loc(f, ln), '%s can return (line %s) after writing %s.num / %s.den without declaring the representation state '
                    '(setOnlyWordPartValid / setWordPartValid / try_fit_word): if %s also held a valid GMP value, that stale value stays valid and GMP-side arithmetic and comparisons read it'
                    % (f['name'].replace('opensmt::', ''), ln, obj, obj, obj))
        else:
            res.ok(r, '%s: every path that writes the word fields marks the representation' % f['name'].replace('opensmt::', ''))
    if n_ww == 0:
        raise AnalysisBroken('canonical-tails: no function writing the word fields of a FastRational parameter found')
    # ---- representation state: marking one representation valid either invalidates the other or follows a derivation from it
    r = res.rule('representation-marks-exclusive', 'a FastRational carries a machine-word and a GMP representation with validity flags; a setter that adds a validity flag without clearing '
                 'the other (state |= ...) is called only by the exclusive wrapper that also clears the other flag, or after the marked representation was computed from the other '
                 'representation of the same object (try_fit_word, ensure_mpq_valid); everywhere else a stale second representation would stay valid', floor=3)
    fr = 'opensmt::FastRational'
    adders = {}
    for f in fx.F.values():
        if f.get('class') == fr and f.get('body'):
            ors = [n for n in fwalk(f) if (n.get('k') == 'bin' and n.get('op') == '|=' and (path_of(n['l']) or '').endswith('state')) or
                   (n.get('k') == 'call' and n.get('op') == '|=' and n.get('a') and (path_of(n['a'][0]) or '').endswith('state'))]
            if ors and not any(n.get('k') == 'call' and n.get('op') != '|=' for n in fwalk(f) if not n.get('as')):
                flag = ' '.join(x.get('n', '') for n in ors for x in walk(n) if x.get('k') == 'ref')
                if 'WORD_VALID' in flag:
                    adders[f['id']] = ('word', f['name'])
                elif 'MPQ_ALLOCATED_AND_VALID' in flag:
                    adders[f['id']] = ('mpq', f['name'])
    if len(adders) < 2:
        raise AnalysisBroken('FastRational: the flag-adding state setters (setWordPartValid, setMpqAllocatedAndValid) were not found')
    other = {'word': 'mpq', 'mpq': 'word'}
    fields = {'word': ('num', 'den'), 'mpq': ('mpq',)}
    for f in fx.F.values():
        if not f.get('body'):
            continue
        for n in fwalk(f):
            if n.get('k') != 'call' or n.get('as'):
                continue
            hit = [adders[t] for t in fx.targets(n) if t in adders]
            if not hit:
                continue
            which, sname = hit[0]
            obj = recv_path(n) or 'this'
            # (a) exclusive wrapper: the other validity flag is cleared in the same function on the same object
            clears = any(x.get('k') == 'call' and not x.get('as') and (recv_path(x) or 'this') == obj and mname(x) in ('setMpqPartInvalid', 'setWordPartInvalid') for x in fwalk(f))
            # (b) derivation: the marked representation of `obj` is written from an expression that reads the other representation of `obj`
            def mentions(e, flds):
                return any(x.get('k') == 'mem' and x.get('n') in flds and (path_of(x.get('b')) or 'this') == obj for x in walk(e))
            derived = False
            for x in fwalk(f):
                a = as_assign(x)
                if a and (path_of(a[0]) or '').rsplit('.', 1)[-1] in fields[which] and ((path_of(a[0]) or '').rsplit('.', 1)[0] if '.' in (path_of(a[0]) or '') else 'this') == obj and mentions(a[1], fields[other[which]]):
                    derived = True
                if x.get('k') == 'call' and callee(x).startswith(('mpz_set', '__gmpz_set', 'mpq_set', '__gmpq_set')) and x.get('a') and mentions(x['a'][0], fields[which]) and any(mentions(y, fields[other[which]]) for y in x['a'][1:]):
                    derived = True
            if clears or derived:
                res.ok(r, '%s calls %s on %s (%s)' % (f['name'].replace('opensmt::', ''), sname.split('::')[-1], obj, 'other flag cleared' if clears else 'derived from the other representation'))
            else:
                res.bad(r, 'stale-representation:%s' % f['name'].replace('opensmt::', '').split('(')[0], fx.loc(f, n.get('ln')), '%s marks the %s representation of `%s` valid with %s, which leaves the validity '
                        'flag of the %s representation as it was, and neither clears that flag nor computed the marked part from it: if the object held a %s value before, that stale value stays '
                        'valid and is what GMP-side arithmetic and comparisons read' % (f['name'], which, obj, sname.split('::')[-1], other[which], other[which]))
    # ---- gcd / lcm agreement of paths
    r = res.rule('gcd-lcm-sign', 'the machine-word paths of gcd(FastRational, FastRational) and lcm take absolute values, like mpz_gcd / mpz_lcm', floor=2)
    for nm in ('opensmt::gcd', 'opensmt::lcm'):
        fs = [f for f in fx.funcs(nm) if len(f['params']) == 2 and 'FastRational' in f['params'][0]['t']]
        if not fs:
            raise AnalysisBroken('%s(FastRational, FastRational) not found' % nm)
        f = fs[0]
        inner = [n for n in fwalk(f) if n.get('k') == 'call' and mname(n) in ('gcd', 'lcm') and n.get('a') and not callee(n).startswith('__gmp') and not mname(n).startswith('mpz')]
        ok = inner and all(all(is_call(see_through(a), 'absVal') for a in n['a']) for n in inner)
        if ok:
            res.ok(r, '%s: word path on absVal(num)' % nm)
        else:
            res.bad(r, 'signed-word-path:%s' % nm.split('::')[-1], fx.loc(f), '%s(FastRational, FastRational): the machine-word path runs on signed numerators, so the sign of the result differs from the GMP path (gcd(-6,4) = -2) and INT_MIN traps' % nm)
    return res
