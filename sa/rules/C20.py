"""C20 -- pipe mode equals file mode, decided on the command-framing abstraction (DESIGN 3-C20).

Two sibling scanners must agree: the hand-written framer in Interpret::interpPipe (interpreted from its
extracted mini-AST for every valuation of its boolean state and every input byte) and the flex lexer
(rules parsed from smt2newlexer.ll).  The product of the two Mealy machines is enumerated exhaustively over
all 256 byte values; a reachable state where the framing outputs (open / close parenthesis seen) differ is
a violation, reported with a shortest distinguishing input."""
import collections
import itertools
import os
import re

from build import AnalysisBroken
from core import Result
from facts import Facts, walk, path_of, see_through

LEVEL = 'model_checking'
EXPLANATION = ('Product-automaton equivalence of two scanners extracted from the sources: the pipe reader framing loop (abstractly interpreted '
               'from the type-checked AST) and the flex lexer (rules parsed from the .ll file). Exhaustive over reachable product states x 256 bytes.')

ALPHABET = [bytes([b]).decode('latin-1') for b in range(256)]


# =====================================================================================================
# flex pattern handling (the subset used by smt2newlexer.ll; anything else => AnalysisBroken)
# =====================================================================================================
class Pat:
    """parsed pattern: sequence of atoms; atom = (charset frozenset, quantifier in '', '*', '+', '?'); alternation unsupported except at top level"""

    def __init__(self, alts):
        self.alts = alts    # list of sequences

    def charset(self):
        s = set()
        for seq in self.alts:
            for cs, q in seq:
                s |= cs
        return s

    def first(self):
        s = set()
        for seq in self.alts:
            for cs, q in seq:
                s |= cs
                if q in ('', '+'):
                    break
        return s

    def plain(self):
        """list of charsets if the pattern is a plain sequence of unquantified atoms, else None"""
        if len(self.alts) != 1 or any(q for _, q in self.alts[0]):
            return None
        return [cs for cs, _ in self.alts[0]]


ALL = frozenset(ALPHABET)
ESC = {'n': '\n', 't': '\t', 'r': '\r', 'f': '\f', 'v': '\v', '0': '\0'}


def parse_pattern(p):
    i = 0
    alts = [[]]
    stack = []

    def esc(ch):
        return ESC.get(ch, ch)

    while i < len(p):
        c = p[i]
        atom = None
        if c == '"':
            j = i + 1
            lit = ''
            while j < len(p) and p[j] != '"':
                if p[j] == '\\':
                    j += 1
                    lit += esc(p[j])
                else:
                    lit += p[j]
                j += 1
            for ch in lit:
                alts[-1].append((frozenset(ch), ''))
            i = j + 1
            continue
        if c == '\\':
            atom = frozenset(esc(p[i + 1]))
            i += 2
        elif c == '[':
            j = i + 1
            neg = False
            if p[j] == '^':
                neg = True
                j += 1
            cs = set()
            first = True
            while p[j] != ']' or first:
                first = False
                ch = p[j]
                if ch == '\\':
                    j += 1
                    ch = esc(p[j])
                if p[j + 1] == '-' and p[j + 2] != ']':
                    hi = p[j + 2]
                    if hi == '\\':
                        hi = esc(p[j + 3])
                        j += 1
                    for o in range(ord(ch), ord(hi) + 1):
                        cs.add(chr(o))
                    j += 3
                else:
                    cs.add(ch)
                    j += 1
            atom = frozenset(ALL - cs) if neg else frozenset(cs)
            i = j + 1
        elif c == '.':
            atom = frozenset(ALL - {'\n'})
            i += 1
        elif c == '(':
            # groups: flatten (only used as optional suffix groups in numerals); treat contents as atoms, quantifier applied to each
            depth = 1
            j = i + 1
            while depth:
                if p[j] == '\\':
                    j += 1
                elif p[j] == '(':
                    depth += 1
                elif p[j] == ')':
                    depth -= 1
                j += 1
            inner = parse_pattern(p[i + 1:j - 1])
            q = ''
            if j < len(p) and p[j] in '*+?':
                q = p[j]
                j += 1
            # conservative flattening: every atom of the group becomes optional/repeated when the group is
            for seq in inner.alts:
                for cs, qq in seq:
                    alts[-1].append((cs, '*' if (q or qq) else ''))
            if len(inner.alts) > 1 or q:
                # make the group skippable for first(): mark as '*'
                pass
            i = j
            continue
        elif c == '|':
            alts.append([])
            i += 1
            continue
        elif c in '*+?':
            raise AnalysisBroken('lexer pattern: dangling quantifier in %r' % p)
        elif c == '{':
            raise AnalysisBroken('lexer pattern: {} repetition/definitions not modelled in %r' % p)
        else:
            atom = frozenset(c)
            i += 1
        q = ''
        if i < len(p) and p[i] in '*+?':
            q = p[i]
            i += 1
        alts[-1].append((atom, q))
    return Pat(alts)


def parse_lexer(path):
    """returns dict state -> list of (pattern text, Pat, action text)"""
    txt = open(path, encoding='latin-1').read()
    parts = txt.split('\n%%')
    if len(parts) < 2:
        raise AnalysisBroken('lexer file has no rules section')
    rules_txt = parts[1]
    lines = rules_txt.split('\n')
    states = {'INITIAL': []}
    cur = 'INITIAL'
    i = 0

    def split_rule(line):
        # pattern = up to first whitespace not inside quotes/brackets/escape
        j = 0
        inq = inb = False
        while j < len(line):
            ch = line[j]
            if ch == '\\':
                j += 2
                continue
            if inq:
                if ch == '"':
                    inq = False
            elif inb:
                if ch == ']':
                    inb = False
            else:
                if ch == '"':
                    inq = True
                elif ch == '[':
                    inb = True
                    if j + 1 < len(line) and line[j + 1] == '^':
                        j += 1
                    if j + 1 < len(line) and line[j + 1] == ']':
                        j += 1
                elif ch in ' \t':
                    break
            j += 1
        return line[:j], line[j:].strip()

    while i < len(lines):
        raw = lines[i]
        line = raw.strip()
        i += 1
        if not line:
            continue
        m = re.match(r'<(\w+)>\{\s*$', line)
        if m:
            cur = m.group(1)
            states.setdefault(cur, [])
            continue
        if line == '}' and cur != 'INITIAL':
            cur = 'INITIAL'
            continue
        pat, act = split_rule(line)
        # action may span lines until braces balance
        while act.count('{') > act.count('}') and i < len(lines):
            act += ' ' + lines[i].strip()
            i += 1
        m = re.match(r'<(\w+)>(.*)', pat)
        st = cur
        if m:
            st, pat = m.group(1), m.group(2)
            states.setdefault(st, [])
        if pat == '<<EOF>>':
            continue                   # end-of-input rules match no character: they do not take part in the framing (C18's lexer-states-total looks at them)
        states[st].append((pat, parse_pattern(pat), act))
    return states


def action_kind(act):
    if re.search(r'\bexit\s*\(', act):
        return 'ERROR'
    m = re.search(r'yy_push_state\s*\(\s*(\w+)', act)
    if m:
        return 'PUSH:' + m.group(1)
    if 'yy_pop_state' in act:
        return 'POP'
    if re.search(r'return\s*\*\s*yyget_text', act):
        return 'RETCHAR'
    if 'return' in act:
        return 'TOKEN'
    return 'SKIP'


class LexerMachine:
    def __init__(self, states, special):
        self.states = states
        self.special = special
        self.init_rules = [(p, pat, action_kind(a)) for p, pat, a in states['INITIAL']]
        self.comment_rule = None
        for p, pat, k in self.init_rules:
            seq = pat.alts[0] if len(pat.alts) == 1 else None
            if k == 'SKIP' and seq and len(seq) == 2 and seq[0][1] == '' and seq[1][1] == '*' and len(seq[0][0]) == 1:
                self.comment_rule = (p, next(iter(seq[0][0])), seq[1][0])
        # sanity: special characters may be matched by at most one non-error INITIAL rule
        for c in sorted(special):
            cands = [(p, k) for p, pat, k in self.init_rules if c in pat.charset() and k != 'ERROR'
                     and not (self.comment_rule and p == self.comment_rule[0] and c != self.comment_rule[1])]
            if len(cands) > 1:
                raise AnalysisBroken('lexer: framing character %r can be matched by several INITIAL rules %s: longest-match interplay is not modelled' % (c, cands))
        self.excl = {}
        for st, rules in states.items():
            if st == 'INITIAL':
                continue
            one, two = [], []
            for p, pat, a in rules:
                pl = pat.plain()
                if pl is None or len(pl) not in (1, 2):
                    raise AnalysisBroken('lexer: rule %r in <%s> is not a one- or two-character pattern' % (p, st))
                (one if len(pl) == 1 else two).append((pl, action_kind(a), p))
            self.excl[st] = (one, two)

    def initial(self):
        return ('INITIAL', None)

    def step(self, state, c):
        """-> (state', output) ; output in None/'open'/'close'; state 'ERR' = the lexer rejects (invalid script)"""
        mode, sub = state
        if mode == 'ERR':
            return state, None
        if mode == 'COMMENT':
            if c in self.comment_rule[2]:
                return state, None
            return self.step(('INITIAL', None), c)
        if mode == 'INITIAL':
            for p, pat, k in self.init_rules:
                if c not in pat.first():
                    continue
                if self.comment_rule and p == self.comment_rule[0]:
                    return ('COMMENT', None), None
                if k.startswith('PUSH:'):
                    return (k[5:], None), None
                if k == 'RETCHAR':
                    return state, ('open' if c == '(' else 'close' if c == ')' else None)
                if k == 'ERROR':
                    return ('ERR', None), None
                return state, None      # token / skip rules: no framing effect
            return state, None
        one, two = self.excl[mode]
        if sub is not None:
            # previous char started a potential two-character rule
            for pl, k, p in two:
                if sub in pl[0] and c in pl[1]:
                    return self._apply(mode, k), None
            # only the first character was matched (one-char rule or flex default rule); it was handled when read -> reprocess c
            return self.step((mode, None), c)
        if any(c in pl[0] for pl, k, p in two):
            # longest match: wait for the next character; if no two-char rule completes, the single-char effect applies
            k1 = self._single(mode, c)
            if k1 == 'ERROR':
                # a two-char rule may still win: decide on next char; conservatively hold
                pass
            return (mode, c), None
        k1 = self._single(mode, c)
        return self._apply(mode, k1), None

    def _single(self, mode, c):
        one, two = self.excl[mode]
        for pl, k, p in one:
            if c in pl[0]:
                return k
        return 'DEFAULT'    # flex default rule: echo one character

    def _apply(self, mode, k):
        if k == 'POP':
            return ('INITIAL', None)
        if k == 'ERROR':
            return ('ERR', None)
        return (mode, None)

    def pending_single_effect(self, state):
        """when a held first character turns out to be alone: its one-char effect (applied lazily by step)"""
        return None


# =====================================================================================================
# pipe machine
# =====================================================================================================
class Unsupported(Exception):
    pass


class _Continue(Exception):
    pass


class ChunkDependent(Exception):
    """the framing decision reads or moves the read position / buffer extent: it depends on how input is split across read() calls"""


class PipeMachine:
    def __init__(self, fx):
        self.fx = fx
        f = fx.func('opensmt::Interpret::interpPipe')
        self.f = f
        self.chunk_dependent = None
        top = f['body']['c']
        # locals declared at function top level (they survive across read() calls)
        self.top_decls = {s['n']: s for s in top if isinstance(s, dict) and s.get('k') == 'decl'}
        self.loop = None
        for n in walk(f['body']):
            if n.get('k') == 'loop' and n.get('kind') == 'for' and isinstance(n.get('body'), dict):
                decls = [s for s in (n['body'].get('c') or []) if isinstance(s, dict) and s.get('k') == 'decl' and s.get('t') == 'char']
                if decls:
                    self.loop = n
                    self.cvar = decls[0]['n']
                    break
        if self.loop is None:
            raise AnalysisBroken('interpPipe: framing loop (for ... { char c = buf[i]; ...}) not found')
        # state variables: bool locals assigned inside the loop body
        assigned = set()
        for n in walk(self.loop['body']):
            if n.get('k') == 'bin' and n['op'] == '=' and isinstance(n['l'], dict) and n['l'].get('k') == 'ref':
                assigned.add(n['l']['n'])
        self.flags = sorted(v for v in assigned if v in self.top_decls and self.top_decls[v]['t'] == 'bool')
        inner = [v for v in assigned if v not in self.top_decls and v != self.cvar]
        # a flag declared inside the read loop but outside the per-byte loop is framing state that is reset at every read(): a violation, reported by run();
        # the model goes on with it as an ordinary flag.  A local of the per-byte loop body is a construct the model does not know.
        per_byte = {d['n'] for d in walk(self.loop['body']) if d.get('k') == 'decl'}
        all_decls = {d['n']: d for d in walk(f['body']) if d.get('k') == 'decl'}
        self.chunk_reset = sorted(v for v in inner if v not in per_byte and v in all_decls and all_decls[v]['t'] == 'bool')
        unknown = [v for v in inner if v not in self.chunk_reset]
        if unknown:
            raise AnalysisBroken('interpPipe: the per-byte loop assigns %s, which is neither a function-scope flag nor the current byte: outside the modelled subset' % unknown)
        for v in self.chunk_reset:
            self.top_decls[v] = all_decls[v]
        self.flags = sorted(set(self.flags) | set(self.chunk_reset))
        self.counter = None
        for n in walk(self.loop['body']):
            if n.get('k') == 'un' and n['op'] in ('++', '--') and n['e'].get('k') == 'ref' and n['e']['n'] != 'i' and n['e']['n'] != 'j':
                self.counter = n['e']['n']
        if not self.counter or self.counter not in self.top_decls:
            raise AnalysisBroken('interpPipe: parenthesis counter not found at function scope')
        self.loop_vars = set()
        for n in walk(self.loop.get('cond')):
            if n.get('k') == 'ref':
                self.loop_vars.add(n['n'])
        self.literals = set()
        for n in walk(self.loop['body']):
            if n.get('k') == 'chr':
                self.literals.add(chr(n['v']))

    def init_state(self):
        st = []
        for v in self.flags:
            init = self.top_decls[v].get('init')
            if not (isinstance(init, dict) and init.get('k') == 'lit' and isinstance(init['v'], bool)):
                raise AnalysisBroken('interpPipe: flag %s has no literal initialiser' % v)
            st.append(init['v'])
        return tuple(st)

    def ev(self, e, env):
        e = see_through(e)
        k = e['k']
        if k == 'ref':
            if e['n'] in env:
                return env[e['n']]
            if e['n'] in self.top_decls or e['n'] in self.loop_vars:
                raise ChunkDependent('reads %s' % e['n'])
            raise Unsupported('variable %s' % e['n'])
        if k == 'un' and e['op'] in ('++', '--') and isinstance(e['e'], dict) and e['e'].get('k') == 'ref' and (e['e']['n'] in self.top_decls or e['e']['n'] in self.loop_vars) and e['e']['n'] != self.counter:
            raise ChunkDependent('moves %s' % e['e']['n'])
        if k == 'lit':
            return e['v']
        if k == 'chr':
            return chr(e['v'])
        if k == 'un' and e['op'] == '!':
            return not self.ev(e['e'], env)
        if k == 'bin':
            op = e['op']
            if op == '||':
                return self.ev(e['l'], env) or self.ev(e['r'], env)
            if op == '&&':
                return self.ev(e['l'], env) and self.ev(e['r'], env)
            if op in ('==', '!='):
                l, r = self.ev(e['l'], env), self.ev(e['r'], env)
                return (l == r) if op == '==' else (l != r)
            if op == '=':
                v = self.ev(e['r'], env)
                if not (isinstance(e['l'], dict) and e['l'].get('k') == 'ref' and e['l']['n'] in self.flags):
                    raise Unsupported('assignment to %s' % path_of(e['l']))
                env[e['l']['n']] = v
                return v
        # any other operator: its operands decide whether this is a chunk dependence or merely unmodelled syntax
        for key in ('l', 'r', 'e', 'b', 'i'):
            v = e.get(key)
            if isinstance(v, dict):
                try:
                    self.ev(v, env)
                except Unsupported:
                    pass
        raise Unsupported('expression %s %s' % (k, e.get('op', '')))

    def run(self, s, env, out):
        k = s['k']
        if k == 'seq':
            for c in s['c']:
                self.run(c, env, out)
        elif k == 'decl':
            if s['n'] == self.cvar:
                env[self.cvar] = env['<c>']
            else:
                raise Unsupported('declaration of %s' % s['n'])
        elif k == 'e':
            if s.get('as'):
                return
            e = s['e']
            if e.get('k') == 'un' and e['op'] in ('++', '--') and e['e'].get('n') == self.counter:
                out.append('open' if e['op'] == '++' else 'close')
                return
            self.ev(e, env)
        elif k == 'if':
            if s.get('as'):
                return
            c = s['cond']
            # reactions to the counter value (frame a command at depth 0 / report unbalanced input) are consequences of the outputs
            if any(x.get('k') == 'ref' and x.get('n') == self.counter for x in walk(c)):
                return
            if self.ev(c, env):
                self.run(s['then'], env, out)
            elif s.get('else'):
                self.run(s['else'], env, out)
        elif k == 'continue':
            raise _Continue()
        else:
            raise Unsupported('statement %s' % k)

    def step(self, state, c):
        env = dict(zip(self.flags, state))
        env['<c>'] = c
        out = []
        try:
            self.run(self.loop['body'], env, out)
        except _Continue:
            pass
        except Unsupported as u:
            raise AnalysisBroken('interpPipe framing loop uses a construct outside the modelled subset: %s' % u)
        except ChunkDependent as cd:
            self.chunk_dependent = str(cd)
            return state, None
        if len(out) > 1:
            raise AnalysisBroken('interpPipe: more than one counter update for one character')
        return tuple(env[f] for f in self.flags), (out[0] if out else None)


# =====================================================================================================
def run(src, tier, seed):
    fx = Facts(src)
    res = Result('C20')
    res.assumptions += [
        'both modes run the same Interpret::execute on each framed command; only command framing is compared',
        'syntactically valid scripts only: product paths on which the lexer rejects the input (exit) are pruned',
        'chunking is irrelevant because all framing state is declared at function scope of interpPipe (checked)',
        'flex semantics: longest match, earlier rule on ties, default rule consumes one character in exclusive states',
    ]
    pm = PipeMachine(fx)
    ll = os.path.join(fx.src_root, 'parsers', 'smt2new', 'smt2newlexer.ll')
    if not os.path.exists(ll):
        raise AnalysisBroken('lexer source vanished: %s' % ll)
    states = parse_lexer(ll)
    # characters that matter to either scanner
    special = set(pm.literals)
    for p, pat, a in states['INITIAL']:
        if action_kind(a) == 'RETCHAR':
            special |= (pat.charset() & {'(', ')'})      # only parentheses have a framing effect
        elif action_kind(a) == 'ERROR' or action_kind(a).startswith('PUSH'):
            if len(pat.charset()) < 64:
                special |= pat.charset()
    for st, rules in states.items():
        if st == 'INITIAL':
            continue
        for p, pat, a in rules:
            cs = pat.charset()
            if len(cs) < 64:
                special |= cs
    lm = LexerMachine(states, special)
    if lm.comment_rule is None:
        raise AnalysisBroken('lexer: comment rule (<char>.*) not found')
    r_struct = res.rule('framer-state-at-function-scope', 'every framing flag and the parenthesis counter of interpPipe is declared outside the read loop', floor=4)
    for v in pm.flags + [pm.counter]:
        if v in pm.chunk_reset:
            res.bad(r_struct, 'framing-state-reset-per-chunk:%s' % v, fx.loc(pm.f, pm.top_decls[v]['ln']), 'interpPipe: the framing flag `%s` is declared inside the read loop, so it is '
                    're-initialised at every read(): a token split across two reads (e.g. a backslash and the character it escapes) is framed differently from the same bytes '
                    'arriving in one read, and from file mode' % v)
        else:
            res.ok(r_struct, 'interpPipe local %s declared at function scope (line %s)' % (v, pm.top_decls[v]['ln']))
    r = res.rule('framing-equivalence', 'in every reachable product state, for every input byte, the pipe framer and the lexer agree on whether a '
                 'parenthesis was opened/closed', floor=100)
    init = (pm.init_state(), lm.initial())
    seen = {init: None}
    q = collections.deque([init])
    trans = 0
    pruned = 0
    bad = None
    while q and not bad:
        s = q.popleft()
        ps, ls = s
        for c in ALPHABET:
            trans += 1
            pn, po = pm.step(ps, c)
            ln_, lo = lm.step(ls, c)
            if ln_[0] == 'ERR':
                pruned += 1
                continue
            if po != lo:
                w = [c]
                cur = s
                while seen[cur] is not None:
                    cur, ch = seen[cur]
                    w.append(ch)
                bad = (''.join(reversed(w)), po, lo, s)
                break
            n = (pn, ln_)
            if n not in seen:
                seen[n] = (s, c)
                q.append(n)
    r['instances'] = trans
    r_chunk = res.rule('framing-independent-of-chunking', 'outside the frame-a-command action, the framing loop body is a function of its flags and the current byte only: it neither reads '
                       'nor moves the read position / buffer extent (which depend on how the input is split across read() calls)', floor=1)
    if pm.chunk_dependent:
        res.bad(r_chunk, 'chunk-dependent-framing', fx.loc(pm.f, pm.loop.get('ln')), 'the pipe reader framing decision %s: the same script framed differently depending on where a read() boundary falls' % pm.chunk_dependent)
    else:
        res.ok(r_chunk, 'loop body uses only %s, the current byte and the counter %s' % (pm.flags, pm.counter))
    if bad:
        word, po, lo, st = bad
        r['violations'] = 1
        from core import Finding
        res.findings.append(Finding(r['name'], 'framing-diverges:%s' % repr(word), fx.loc(pm.f, pm.loop.get('ln')),
                                    'after reading %r the pipe reader sees %s but the lexer sees %s for the last byte (pipe flags %s=%s, lexer state %s)'
                                    % (word, po or 'nothing', lo or 'nothing', pm.flags, st[0], st[1]),
                                    ['distinguishing input: %r' % word, 'pipe output: %s' % po, 'lexer output: %s' % lo]))
    else:
        r['sites'] = ['%d product states, %d transitions, %d pruned (lexer rejects)' % (len(seen), trans, pruned)]
    samples = []
    for st in list(seen)[:12]:
        samples.append({'pipe_flags': dict(zip(pm.flags, st[0])), 'lexer_state': list(st[1])})
    res.samples = samples
    res.extra.update({'states': len(seen), 'transitions': trans, 'traces_validated_against_impl': 0, 'exhaustive': bad is None,
                      'alphabet': 256, 'pipe_flags': pm.flags, 'lexer_states': sorted(states), 'special_characters': sorted(special),
                      'pruned_invalid_transitions': pruned})
    return res
