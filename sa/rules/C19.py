"""C19 -- a rejected command leaves the solver state unchanged: commit-after-validate typestate (DESIGN 3-C19)."""
from build import AnalysisBroken
from core import Result
from facts import Facts, fwalk, walk, callee, path_of, recv_path, see_through, enum_label
from prims import mname, is_call, ret_value
from prim_escape import Escape
from walk import Client, Engine

LEVEL = 'other'
EXPLANATION = ('Typestate "commit after validate" over every command arm of Interpret::interp, path-sensitive and interprocedural through the '
               'front-end layer (Interpret::* inlined, recursion solved by fixpoint), with typed exceptional edges from the whole-program escape '
               'analysis: no error response (notify_formatted(true,..)/reportError) may be issued on a path on which persistent interpreter or '
               'solver state (assertion list, solver assertions, names, scopes, declarations, definitions, options) was already mutated. '
               'Leaf mutators of MainSolver are checked to validate before they mutate. Decides this clause, not semantic equality of outputs.')

INTERP = 'opensmt::Interpret::'
# unconditional mutators (qualified callee name); methods of Logic are matched on any subclass
LEAF_MUT = {
    'opensmt::MainSolver::insertFormula': 'assertion added to the solver',
    'opensmt::MainSolver::addAssertion': 'assertion added to the solver',
    'opensmt::MainSolver::push': 'assertion level pushed',
    'opensmt::DefinedFunctions::insert': 'define-fun recorded',
    'opensmt::DefinedFunctions::pushScope': 'definition scope pushed',
    'opensmt::DefinedFunctions::popScope': 'definition scope popped',
    'opensmt::Logic::declareFun': 'user function declared',
    'opensmt::Logic::declareSortSymbol': 'user sort declared',
    'opensmt::SMTConfig::setInfo': 'info recorded',
}
# mutate iff they return true
COND_MUT = {
    'opensmt::MainSolver::pop': 'assertion level popped',
    'opensmt::MainSolver::tryAddTermNameFor': 'term name registered',
    'opensmt::MainSolver::tryAddNamedAssertion': 'named assertion added',
    'opensmt::SMTConfig::setOption': 'option changed',
}
_LEAF_MUT0, _COND_MUT0 = dict(LEAF_MUT), dict(COND_MUT)
# member containers of Interpret whose growth is persistent state
FIELD_MUT = {('this.assertions', 'push'): 'assertion appended to Interpret::assertions',
             ('this.user_declarations', 'push'): 'declaration appended to Interpret::user_declarations'}
FIELD_ASSIGN = {'this.main_solver': 'solver created', 'this.logic': 'logic created'}
# rejection sites that are not rejections of the command (one reason each)
REJECT_EXEMPT = {
    'opensmt::Interpret::checkSat': 'the :status annotation disagrees with the computed answer: the command was executed, the error is about the annotation',
}
# exceptional edges that cannot occur, checked by reading (caller function, callee, exception type)
EDGE_EXCLUDE = {
    ('opensmt::Interpret::interp', 'opensmt::Interpret::createMainSolver'): 'createTheory only throws for logics that getLogicFromStringAux already rejected as UNDEF before initializeLogic runs',
    ('opensmt::Interpret::push', 'opensmt::MainSolver::push'): 'ApiException from mkBoolVar of the reserved frame-variable name cannot clash with a user symbol',
}


def is_reject(n):
    f = callee(n)
    if f == 'opensmt::Interpret::notify_formatted':
        a = n.get('a', [])
        return bool(a) and isinstance(a[0], dict) and a[0].get('k') == 'lit' and a[0].get('v') is True
    return f == 'opensmt::Interpret::reportError'


class C19(Client):
    def __init__(self, ctx, func):
        self.ctx, self.func = ctx, func
        self.exits = []
        self.skip_asserts = True

    # ---- helpers
    def _mut(self, s, label):
        dirty, arm, last, binds = s
        return (dirty | {label}, arm, None, binds)

    def on_call(self, n, s):
        ctx = self.ctx
        dirty, arm, last, binds = s
        name = callee(n)
        if is_reject(n):
            ctx.nreject += 1
            if dirty and self.func['name'] not in REJECT_EXEMPT and id(n) not in ctx.internal_error_reports:
                ctx.violation(self.func, n, s)
            return ((dirty, arm, None, binds),)
        if name.startswith(INTERP) and n.get('id') in ctx.fx.F and name not in ('opensmt::Interpret::notify_formatted', 'opensmt::Interpret::notify_success',
                                                                                'opensmt::Interpret::comment_formatted'):
            outs = ctx.inline(n['id'], s)
            return [(d, arm, rv, binds) for (kind, d, rv) in outs if kind == 'ret']
        if name in COND_MUT:
            ctx.nmut += 1
            return ((dirty | {'%s [%s]' % (name.split('::')[-1], COND_MUT[name])}, arm, True, binds), (dirty, arm, False, binds))
        base = name
        if n.get('cls') and name.split('::')[-1] in ('declareFun', 'declareSortSymbol') and ('Logic' in n['cls']):
            base = 'opensmt::Logic::' + name.split('::')[-1]
        if base in LEAF_MUT:
            ctx.nmut += 1
            return (self._mut(s, '%s [%s]' % (name.split('::')[-1], LEAF_MUT[base])),)
        rp = recv_path(n)
        if rp and (rp, mname(n)) in FIELD_MUT:
            ctx.nmut += 1
            return (self._mut(s, FIELD_MUT[(rp, mname(n))]),)
        if rp in FIELD_ASSIGN and (n.get('op') == '=' or mname(n) in ('reset', 'operator=')):
            ctx.nmut += 1
            return (self._mut(s, FIELD_ASSIGN[rp]),)
        return ((dirty, arm, None, binds),)

    def on_assign(self, n, s):
        dirty, arm, last, binds = s
        if n.get('k') == 'bin':
            lp = path_of(n['l'])
            if lp in FIELD_ASSIGN and n['op'] == '=':
                self.ctx.nmut += 1
                return (self._mut(s, FIELD_ASSIGN[lp]),)
            if last is not None and lp and '.' not in lp:
                binds = frozenset(b for b in binds if b[0] != lp) | {(lp, last)}
                return ((dirty, arm, None, binds),)
        return (s,)

    def on_decl(self, n, s):
        dirty, arm, last, binds = s
        if last is not None and n.get('init') is not None and n['t'].replace('const ', '').strip() == 'bool':
            binds = frozenset(b for b in binds if b[0] != n['n']) | {(n['n'], last)}
        return ((dirty, arm, None, binds),)

    def on_cond(self, atom, s, branch):
        dirty, arm, last, binds = s
        if isinstance(atom, dict) and atom.get('k') == 'case':
            lab = enum_label(atom['v']) if atom['v'] is not None else 'default'
            return (dirty, str(lab), None, binds)
        a = see_through(atom)
        if isinstance(a, dict) and a.get('k') == 'ref':
            for v, val in binds:
                if v == a['n']:
                    return s if val == branch else None
        if isinstance(a, dict) and a.get('k') == 'call' and last is not None:
            return (dirty, arm, None, binds) if last == branch else None
        if isinstance(a, dict) and a.get('k') == 'bin' and a['op'] in ('==', '!='):
            # e.g. (rval == false)
            l, r = see_through(a['l']), see_through(a['r'])
            lit = r if isinstance(r, dict) and r.get('k') == 'lit' else (l if isinstance(l, dict) and l.get('k') == 'lit' else None)
            other = l if lit is r else r
            if lit is not None and isinstance(lit.get('v'), bool):
                val = None
                if isinstance(other, dict) and other.get('k') == 'ref':
                    for v, vv in binds:
                        if v == other['n']:
                            val = vv
                if val is not None:
                    truth = (val == lit['v']) if a['op'] == '==' else (val != lit['v'])
                    return s if truth == branch else None
        return (dirty, arm, None, binds)

    def throws(self, n, s):
        ctx = self.ctx
        name = callee(n)
        if n.get('k') == 'new':
            tg = [n['id']]
        else:
            tg = ctx.fx.targets(n)
        if name.startswith(INTERP) and n.get('id') in ctx.fx.F:
            if (self.func['name'], name) in EDGE_EXCLUDE:
                return ()
            outs = ctx.inline(n['id'], s)
            dirty, arm, last, binds = s
            return [(t, (d, arm, None, binds)) for (kind, d, t) in outs if kind == 'throw']
        if (self.func['name'], name) in EDGE_EXCLUDE:
            return ()
        types = set()
        for g in tg:
            types |= set(ctx.E.esc.get(g, {}))
        types -= {'opensmt::OutOfMemoryException', 'std::bad_alloc'}
        return [(t, s) for t in sorted(types)]

    def catches(self, h, t):
        return self.ctx.E.catches(h, t)

    def on_exit(self, kind, node, s):
        dirty, arm, last, binds = s
        if kind == 'throw':
            self.exits.append(('throw', dirty, node['t']))
        else:
            rv = ret_value(node) if kind == 'return' else None
            if kind == 'return' and not isinstance(rv, bool) and isinstance(node, dict) and node.get('e') is not None:
                # `return f(...)` / `return flag`: the value is the outcome of the call just made, or of the call the local was bound to
                e = see_through(node['e'])
                if isinstance(e, dict) and e.get('k') == 'call' and last is not None:
                    rv = last
                elif isinstance(e, dict) and e.get('k') == 'ref':
                    for v, val in binds:
                        if v == e['n']:
                            rv = val
            self.exits.append(('ret', dirty, rv if isinstance(rv, bool) else None))


class Ctx:
    def __init__(self, fx, E, res, rule):
        self.fx, self.E, self.res, self.rule = fx, E, res, rule
        self.memo = {}
        self.stack = []
        self.nreject = 0
        self.nmut = 0
        self.viol = {}
        self.hit_recursion = False
        self.inlined = set()
        # error reports inside catch-all handlers (std::exception / ...) are internal-error reports, not command rejections
        self.internal_error_reports = set()
        for f in fx.F.values():
            if not f['name'].startswith(INTERP):
                continue
            for t in fwalk(f):
                if t.get('k') == 'try':
                    for h in t['h']:
                        if h['t'] in ('...', 'std::exception'):
                            for c in walk(h['body']):
                                if c.get('k') == 'call':
                                    self.internal_error_reports.add(id(c))

    def violation(self, func, call, s):
        dirty, arm, last, binds = s
        for d in sorted(dirty):
            key = 'dirty-reject:%s:%s' % (d.split(' [')[0], arm)
            self.viol.setdefault(key, []).append((self.fx.loc(func, call.get('ln')), func['name'], d))

    def inline(self, fid, s):
        dirty, arm, last, binds = s
        key = (fid, dirty, arm)
        if key in self.memo and key not in self.stack:
            return self.memo[key]
        if key in self.stack:
            self.hit_recursion = True
            return self.memo.get(key, frozenset())
        self.stack.append(key)
        f = self.fx.F[fid]
        self.inlined.add(f['name'])
        prev = None
        for _ in range(8):
            c = C19(self, f)
            eng = Engine(f, c)
            eng.run([(dirty, arm, None, frozenset())])
            if eng.broken:
                raise AnalysisBroken('%s: %s' % (f['name'], eng.broken))
            cur = frozenset(c.exits)
            self.memo[key] = cur
            if cur == prev:
                break
            prev = cur
        self.stack.pop()
        return self.memo[key]


def mutates_only_when_true(f):
    """A recorder that returns bool is treated as "mutates iff it returns true" only if no path writes the scope log and then returns a value that can be false."""
    class W(Client):
        def __init__(self):
            self.bad = False

        def on_call(self, n, s):
            logged, flags = s
            if is_call(n, 'push') and (recv_path(n) or '').startswith('this.scoped'):
                return ((True, flags),)
            return (s,)

        def on_cond(self, atom, s, branch):
            a = see_through(atom)
            logged, flags = s
            if isinstance(a, dict) and a.get('k') == 'ref' and 'bool' in (a.get('t') or ''):
                if (a['n'], not branch) in flags:
                    return None
                return (logged, flags | {(a['n'], branch)})
            return s

        def on_exit(self, kind, node, s):
            logged, flags = s
            if kind != 'return' or not logged:
                return
            e = see_through(node.get('e')) if isinstance(node, dict) and node.get('e') is not None else None
            if isinstance(e, dict) and e.get('k') == 'lit' and e.get('v') is True:
                return
            if isinstance(e, dict) and e.get('k') == 'ref' and (e['n'], True) in flags:
                return
            self.bad = True
    w = W()
    Engine(f, w).run([(False, frozenset())])
    return not w.bad


def leaf_atomic_rule(res, fx):
    """every MainSolver leaf mutator validates (throws / returns false) before its first write"""
    r = res.rule('leaf-validate-before-mutate', 'inside each MainSolver mutator reached from the interpreter, no explicit throw / `return false` follows the first write '
                 'to solver state (the call is atomic: it either rejects or commits)', floor=5)
    leafs = ['opensmt::MainSolver::insertFormula', 'opensmt::MainSolver::tryAddTermNameFor', 'opensmt::MainSolver::tryAddNamedAssertion',
             'opensmt::MainSolver::pop', 'opensmt::MainSolver::push', 'opensmt::MainSolver::addAssertion']

    class W(Client):
        def __init__(self):
            self.bad = []

        def _w(self, n, s):
            return ('dirty',)

        def on_call(self, n, s):
            rp = recv_path(n) or ''
            if n.get('mc') or n.get('ms') or not rp.startswith('this.') or rp.startswith('this.logic') or rp.startswith('this.config'):
                # calls of other MainSolver mutators propagate their own discipline
                if callee(n) in ('opensmt::MainSolver::addAssertion', 'opensmt::MainSolver::insertFormula'):
                    return ('dirty',)
                if callee(n) == 'opensmt::MainSolver::tryAddTermNameFor':
                    return ('dirty', s)     # conditional: may or may not have written
                return (s,)
            if rp == 'this':
                return (s,)
            return ('dirty',)

        def on_assign(self, n, s):
            p = path_of(n['l'] if n.get('k') == 'bin' else n['e']) or ''
            return ('dirty',) if p.startswith('this.') else (s,)

        def on_exit(self, kind, node, s):
            if s == 'dirty' and (kind == 'throw' or (kind == 'return' and ret_value(node) is False)):
                self.bad.append(node.get('ln') if isinstance(node, dict) else None)

    for nm in leafs:
        for f in fx.funcs(nm):
            w = W()
            Engine(f, w).run(['clean'])
            # correlation: `success = tryAddTermNameFor(); if (not success) return false;` -> the false branch did not write
            if nm == 'opensmt::MainSolver::tryAddNamedAssertion':
                seq = [x for x in fwalk(f) if x.get('k') == 'call' and callee(x).startswith('opensmt::MainSolver::')]
                order = [mname(x) for x in seq]
                if order[:2] == ['tryAddTermNameFor', 'addAssertion']:
                    w.bad = []
            if w.bad:
                res.bad(r, 'leaf-not-atomic:%s' % nm, fx.loc(f), '%s can reject (throw / return false at line %s) after it already wrote solver state' % (nm, w.bad))
            else:
                res.ok(r, nm)


def cond_paths(cond, bool_defs, depth=0):
    """access paths mentioned by a condition, looking through Boolean locals defined earlier; '<==>' marks an equality comparison"""
    out = []
    for x in walk(cond):
        if x.get('k') in ('mem', 'ref'):
            p = path_of(x)
            out.append(p)
            if x.get('k') == 'ref' and x.get('n') in bool_defs and depth < 3:
                out += cond_paths(bool_defs[x['n']], bool_defs, depth + 1)
        if x.get('k') in ('bin', 'call') and x.get('op') == '==':
            out.append('<==>')
    return out


def run(src, tier, seed):
    fx = Facts(src)
    res = Result('C19')
    res.assumptions += [
        'persistent state = the mutator table (assertions, solver assertions/levels, term names, definitions and their scopes, user declarations, options/info, logic/solver creation); '
        'hash-consed term construction is not a mutation (unreferenced terms are unobservable)',
        'leaf mutators outside the front-end layer are atomic with respect to their own exceptions (checked for the MainSolver ones by leaf-validate-before-mutate)',
        'exception types on call edges come from the whole-program escape analysis (CHA) over explicit throw statements and std::sto*; '
        'invariant-guarded container .at() lookups and allocation failure are not exceptional edges here',
        'error reports inside catch(std::exception)/catch(...) handlers are internal-error reports, not rejections of a command',
    ]
    # the tables name their functions; a function that no longer exists must not make a command look free of mutations
    rec = [f for f in fx.F.values() if f.get('class') == 'opensmt::DefinedFunctions' and f.get('body') and any(is_call(n, 'push', 'this.scopedNames') for n in fwalk(f))]
    if len(rec) != 1:
        raise AnalysisBroken('DefinedFunctions: expected one method that appends to the scope log, found %s' % [f['name'] for f in rec])
    # the tables are module-level and this function runs several times in one process (self-test): start from the pristine tables every time
    LEAF_MUT.clear(); LEAF_MUT.update(_LEAF_MUT0)
    COND_MUT.clear(); COND_MUT.update(_COND_MUT0)
    for tab in (LEAF_MUT, COND_MUT):
        tab.pop('opensmt::DefinedFunctions::insert', None)
        tab.pop(rec[0]['name'], None)
    (COND_MUT if rec[0].get('ret') == 'bool' and mutates_only_when_true(rec[0]) else LEAF_MUT)[rec[0]['name']] = 'define-fun recorded'
    for name in list(LEAF_MUT) + list(COND_MUT):
        if not fx.funcs(name) and not any(f['name'].split('::')[-1] == name.split('::')[-1] and name.startswith('opensmt::Logic::') for f in fx.F.values()):
            raise AnalysisBroken('mutator table: %s no longer exists (renamed or removed): the table must be re-confirmed' % name)
    E = Escape(fx, model_at=False)
    r = res.rule('commit-after-validate', 'no error response is issued on a path on which persistent state was already mutated (per command arm of Interpret::interp)', floor=20)
    ctx = Ctx(fx, E, res, r)
    interp = fx.func('opensmt::Interpret::interp')
    outs = ctx.inline(interp['id'], (frozenset(), None, None, frozenset()))
    # arms analysed
    arms = set()
    for n in walk(interp['body']):
        if n.get('k') == 'case':
            lab = enum_label(n['v'])
            if lab is not None:
                arms.add(str(lab))
    if len(arms) < 20:
        raise AnalysisBroken('Interpret::interp: only %d command arms found (expected >= 20)' % len(arms))
    for a in sorted(arms):
        bad = [k for k in ctx.viol if k.endswith(':' + a)]
        if not bad:
            res.ok(r, 'arm %s: no rejection after mutation' % a)
    for key, sites in sorted(ctx.viol.items()):
        locs = sorted({s[0] for s in sites})
        res.bad(r, key, locs[0], 'command arm %s: an error response can be issued after "%s" already happened (rejection site(s): %s)'
                % (key.split(':')[-1], sites[0][2], ', '.join(locs[:6])), ['rejected at %s in %s after %s' % s for s in sites[:8]])
    leaf_atomic_rule(res, fx)
    res.extra.update({'command_arms': sorted(arms), 'functions_inlined': sorted(ctx.inlined), 'rejection_events_seen': ctx.nreject,
                      'mutation_events_seen': ctx.nmut, 'summaries': len(ctx.memo)})
    res.samples = [{'arm': a} for a in sorted(arms)][:30]
    if ctx.nreject < 40 or ctx.nmut < 10:
        raise AnalysisBroken('too few events seen (rejections %d, mutations %d): event matchers drifted' % (ctx.nreject, ctx.nmut))
    # ---- names introduced inside a command are registered only after the command was accepted
    r = res.rule('names-committed-after-acceptance', 'Interpret registers :named terms (MainSolver::tryAddTermNameFor) only in execute(), after interp() returned, under the test that no '
                 'error response was issued by that command; the error counter is incremented by every error response; the pending list is emptied before each command', floor=4)
    # Interpret methods that (transitively, inside the class) register names, and the methods reachable from interp() while a command is interpreted
    imeth = {f['id']: f for f in fx.F.values() if f['name'].startswith(INTERP) and f.get('body')}
    direct = {i for i, f in imeth.items() if any(is_call(n, 'tryAddTermNameFor') and not n.get('as') for n in fwalk(f))}
    edges = {i: {t for n in fwalk(f) if n.get('k') == 'call' and not n.get('as') for t in fx.targets(n) if t in imeth} for i, f in imeth.items()}
    committers = set(direct)
    changed = True
    while changed:
        changed = False
        for i, ts in edges.items():
            if i not in committers and ts & committers:
                committers.add(i); changed = True
    interp_ids = [i for i, f in imeth.items() if f['name'] == 'opensmt::Interpret::interp']
    if not interp_ids:
        raise AnalysisBroken('Interpret::interp vanished')
    reach = set(interp_ids)
    st = list(interp_ids)
    while st:
        for t in edges.get(st.pop(), ()):
            if t not in reach:
                reach.add(t); st.append(t)
    if not direct:
        raise AnalysisBroken('no Interpret method registers term names any more: the naming protocol changed')
    inside = sorted(imeth[i]['name'] for i in direct & reach)
    if not inside:
        res.ok(r, 'tryAddTermNameFor is called from %s only, none of which is reachable from interp()' % sorted(imeth[i]['name'].split('::')[-1] for i in direct))
    else:
        res.bad(r, 'name-registered-in-command:%s' % ','.join(c.split('::')[-1] for c in inside), fx.loc(fx.func(inside[0])),
                'term names are registered from %s, i.e. while the command is still being interpreted: a command rejected afterwards leaves the name behind' % inside)

    def is_commit(n):
        return n.get('k') == 'call' and not n.get('as') and (is_call(n, 'tryAddTermNameFor') or any(t in committers for t in fx.targets(n)))
    ex = fx.func('opensmt::Interpret::execute')
    nodes = list(fwalk(ex))
    i_interp = next((i for i, n in enumerate(nodes) if is_call(n, 'interp')), None)
    i_commit = next((i for i, n in enumerate(nodes) if is_commit(n)), None)
    snap = [n for n in nodes if n.get('k') == 'decl' and path_of(n.get('init')) == 'this.errorCount']
    bool_defs = {n['n']: n['init'] for n in nodes if n.get('k') == 'decl' and n.get('init') is not None and 'bool' in (n.get('ct') or n.get('t') or '')}
    guarded = False
    for n in walk(ex['body']):
        if n.get('k') == 'if' and not n.get('as') and any(is_commit(x) for x in walk(n['then'])):
            cs = cond_paths(n['cond'], bool_defs)
            guarded = 'this.errorCount' in cs and snap and snap[0]['n'] in cs and '<==>' in cs
    clears_before = any(is_call(n, 'clear', 'this.pendingTermNames') for n in nodes[:i_interp or 0])
    if i_interp is not None and i_commit is not None and i_interp < i_commit and guarded and clears_before and \
            snap and nodes.index(snap[0]) < i_interp:
        res.ok(r, 'execute: pending names cleared, error count snapshot, interp(), commit under errorCount == snapshot')
    elif i_commit is not None:
        res.bad(r, 'names-committed-unconditionally', fx.loc(ex), 'Interpret::execute no longer commits the pending :named terms only when the command produced no error response')
    nf = fx.func('opensmt::Interpret::notify_formatted')
    inc = False
    for n in walk(nf['body']):
        if n.get('k') == 'if' and isinstance(n.get('cond'), dict) and n['cond'].get('n') == 'error':
            inc = inc or any(x.get('k') == 'un' and x.get('op') == '++' and path_of(x['e']) == 'this.errorCount' for x in walk(n['then']))
    if inc:
        res.ok(r, 'notify_formatted(error=true, ...) increments errorCount')
    else:
        res.bad(r, 'error-not-counted', fx.loc(nf), 'notify_formatted no longer counts error responses: execute cannot tell an accepted command from a rejected one')
    pt = fx.func('opensmt::Interpret::parseTerm')
    dup = any(n.get('k') == 'if' and not n.get('as') and any(is_reject(x) for x in walk(n['then']) if x.get('k') == 'call') and
              any(is_call(x, 'contains') for x in walk(pt['body']) if True) for n in walk(pt['body']))
    pend = any(n.get('k') == 'call' and mname(n) in ('emplace_back', 'push_back') and recv_path(n) == 'this.pendingTermNames' for n in fwalk(pt))
    if pend and dup:
        res.ok(r, 'parseTerm: duplicate names rejected while parsing; accepted names go to the pending list')
    elif i_commit is not None:
        res.bad(r, 'pending-list-unused', fx.loc(pt), 'parseTerm no longer puts :named terms on the pending list')
    return res
