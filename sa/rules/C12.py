"""C12 -- every clause the SAT engine derives is implied by known clauses: the clause-level operations of the simplifier (DESIGN 9.3-C12)."""
import itertools

from build import AnalysisBroken
from core import Result
from facts import Facts, fwalk
from prims import is_call
from boolctor import Interp, Unmodelled, Thrown

LEVEL = 'other'
EXPLANATION = ('That every learnt clause of a run is a consequence of the clause database is a statement about run-time data and is not decided. Decided are the two clause-level '
               'operations from which SatELite-style simplification derives clauses, both of which look at literals only through identity, negation and variable equality, i.e. '
               'through finitely many patterns: SimpSMTSolver::merge (the resolvent used by variable elimination) and Clause::subsumes (the test behind backward subsumption and '
               'self-subsuming strengthening). For all pairs of clauses with up to three literals over the pivot and three other variables (both signs, every order), an abstract '
               'evaluator runs the function on the clause shapes (including its goto-based inner search) and the result is compared with the definition: merge reports a tautology '
               'exactly when the resolvent contains a complementary pair and otherwise yields exactly the literals of both clauses without the pivot; subsumes answers lit_Undef only '
               'if every literal of the clause occurs in the other, a literal p only if p occurs negated in the other and all remaining literals occur in it, and lit_Error otherwise. '
               'Conflict-clause minimisation is covered by the scratch-mark rule shared with C01/C05; first-UIP learning itself and the theory clauses are covered by rules of C01/C10/C11 or not at all.')

VARS = ['a', 'b', 'c']


def lit(v, s):
    return ('lit', v, s)


def nlit(l):
    return ('lit', l[1], not l[2])


def clause_oracles(clauses):
    """answers for the Clause / Lit interface; `clauses`: name -> list of literal shapes"""
    def conv(i, a, n):
        return a[0][1] if isinstance(a[0], tuple) and a[0] and a[0][0] == 'clause' else NotImplemented
    return {
        'var': lambda i, a, n: a[0][1],
        'op:~': lambda i, a, n: nlit(a[0]) if isinstance(a[0], tuple) and a[0][0] == 'lit' else NotImplemented,
        'op:[]': lambda i, a, n: a[0][1][a[1]] if isinstance(a[0], tuple) and a[0][0] == 'clause' else NotImplemented,
        'mem:header': lambda i, a, n: ('header', a[0]),
        'mem:size': lambda i, a, n: len(a[0][1][1]) if a[0][0] == 'header' else NotImplemented,
        'mem:learnt': lambda i, a, n: False,
        'mem:has_extra': lambda i, a, n: True,
        'mem:data': lambda i, a, n: ('data', a[0]),
        'idx': lambda i, a, n: ('extra',),
        'mem:abs': lambda i, a, n: 0,          # the abstraction filter may only reject early (always safe); take the path on which it lets the clause through
    }


def run(src, tier, seed):
    fx = Facts(src)
    res = Result('C12')
    res.assumptions += ['callers give merge one clause with the pivot positive and one with it negative (eliminateVar splits the occurrence list by sign)',
                        'clauses contain no duplicate literal and no complementary pair (addClause removes both)']
    others = [lit(v, s) for v in VARS for s in (False, True)]

    def clause_sets(maxk):
        out = []
        for k in range(0, maxk + 1):
            for combo in itertools.permutations(others, k):
                if len({l[1] for l in combo}) == k:
                    out.append(list(combo))
        return out
    maxk = 2 if tier != 'thorough' else 3
    rests = clause_sets(maxk)

    # ---- R1 merge
    r = res.rule('resolvent-exact', 'SimpSMTSolver::merge(ps, qs, v, out): returns false exactly when the resolvent on v is a tautology, and otherwise out holds exactly the literals of ps and qs '
                 'other than v / not v, each once', floor=500)
    mg = fx.func('opensmt::SimpSMTSolver::merge', pred=lambda g: 'vec<' in g['params'][3]['t'])
    n = 0
    bad = None
    try:
        for d1 in rests:
            for d2 in rests:
                for pos1 in range(len(d1) + 1):
                    c1 = d1[:pos1] + [lit('v', False)] + d1[pos1:]
                    c2 = [lit('v', True)] + d2
                    n += 1
                    it = Interp(fx, mg, '?', {})
                    it.oracle = clause_oracles({})
                    out = []
                    try:
                        ret = it.run_env({'_ps': ('clause', c1), '_qs': ('clause', c2), 'v': 'v', 'out_clause': out})
                    except Thrown:
                        raise Unmodelled('throws')
                    want = set(d1) | set(d2)
                    taut = any(nlit(l) in want for l in want)
                    if ret is False and not taut:
                        bad = bad or (c1, c2, 'reports a tautology although the resolvent %s has no complementary pair: the resolvent is dropped and the eliminated variable\'s constraint is lost' % sorted(want))
                    elif ret is True and (sorted(out) != sorted(want)):
                        bad = bad or (c1, c2, 'yields %s, the resolvent is %s' % ([show_lit(l) for l in out], [show_lit(l) for l in sorted(want)]))
                    elif ret not in (True, False):
                        raise Unmodelled('merge returned %r' % (ret,))
    except Unmodelled as e:
        raise AnalysisBroken('SimpSMTSolver::merge is outside the modelled subset: %s' % e)
    r['instances'] += n
    if bad:
        r['instances'] -= 1
        res.bad(r, 'resolvent-wrong', fx.loc(mg), 'SimpSMTSolver::merge(%s, %s, v) %s' % (show_clause(bad[0]), show_clause(bad[1]), bad[2]))
    else:
        r['sites'].append('%d clause pairs' % n)

    # ---- R2 subsumes
    r = res.rule('subsumption-test-exact', 'Clause::subsumes(other) returns lit_Undef only if the clause is a subset of other, a literal p only if p is in the clause, not p in other and the rest of '
                 'the clause a subset of other, and lit_Error only if neither holds', floor=500)
    sb = fx.func('opensmt::Clause::subsumes')
    allv = [lit(v, s) for v in ['v'] + VARS for s in (False, True)]

    def csets(maxk):
        out = []
        for k in range(1, maxk + 1):
            for combo in itertools.permutations(allv, k):
                if len({l[1] for l in combo}) == k:
                    out.append(list(combo))
        return out
    cs = csets(2 if tier != 'thorough' else 3)
    n = 0
    bad = None
    UNDEF_L, ERR_L = ('lit_Undef',), ('lit_Error',)
    try:
        for c in cs:
            for d in cs:
                n += 1
                it = Interp(fx, sb, '?', {})
                it.oracle = clause_oracles({})
                it.consts = {'lit_Undef': UNDEF_L, 'lit_Error': ERR_L}
                ret = it.run_env({'this': ('clause', c), 'other': ('clause', d), 'lit_Undef': UNDEF_L, 'lit_Error': ERR_L})
                subset = all(l in d for l in c)
                strengthen = [p for p in c if nlit(p) in d and all(l in d for l in c if l != p)]
                if ret == UNDEF_L:
                    ok = subset
                elif ret == ERR_L:
                    ok = not subset and not strengthen
                elif isinstance(ret, tuple) and ret and ret[0] == 'lit':
                    ok = ret in strengthen
                else:
                    raise Unmodelled('subsumes returned %r' % (ret,))
                if not ok and bad is None:
                    bad = (c, d, ret, subset, strengthen)
    except Unmodelled as e:
        raise AnalysisBroken('Clause::subsumes is outside the modelled subset: %s' % e)
    r['instances'] += n
    if bad:
        c, d, ret, subset, strengthen = bad
        r['instances'] -= 1
        res.bad(r, 'subsumption-wrong', fx.loc(sb), 'Clause::subsumes: %s against %s answers %s; the clause %s a subset of the other and the literals it could strengthen with are %s: '
                'backward subsumption removes a clause that is not implied, or strengthening removes a literal that resolution does not justify'
                % (show_clause(c), show_clause(d), show_lit(ret), 'is' if subset else 'is not', [show_lit(p) for p in strengthen]))
    else:
        r['sites'].append('%d clause pairs' % n)
    # ---- R3 the caller acts on the clause that was tested, with the polarity the test returns
    r = res.rule('subsumption-result-applied', 'backwardSubsumptionCheck removes the clause that was passed to subsumes when the answer is lit_Undef, and strengthens that same clause by the '
                 'negation of the returned literal otherwise (never the subsuming clause, never the literal itself)', floor=2)
    from facts import walk, path_of, see_through
    from prims import mname
    bs = fx.func('opensmt::SimpSMTSolver::backwardSubsumptionCheck')
    decls = [d for d in fwalk(bs) if d.get('k') == 'decl' and d.get('init') is not None and any(is_call(x, 'subsumes') for x in walk(d['init']))]
    if len(decls) != 1:
        raise AnalysisBroken('backwardSubsumptionCheck: the call of Clause::subsumes was not found')
    lv = decls[0]['n']
    call = [x for x in walk(decls[0]['init']) if is_call(x, 'subsumes')][0]
    tested = see_through(call['a'][0])
    # ca[cs[j]] -> the reference expression cs[j]
    ref = path_of(see_through(tested['a'][0])) if isinstance(tested, dict) and tested.get('op') == '[]' else None
    subsuming = path_of(call.get('recv'))
    if not ref:
        raise AnalysisBroken('backwardSubsumptionCheck: cannot identify the clause passed to subsumes')
    rm = [x for x in fwalk(bs) if is_call(x, 'removeClause')]
    st = [x for x in fwalk(bs) if is_call(x, 'strengthenClause')]
    if rm and all(path_of(see_through(x['a'][0])) == ref for x in rm):
        res.ok(r, 'removeClause(%s): the tested clause' % ref)
    else:
        res.bad(r, 'removes-other-clause', fx.loc(bs), 'backwardSubsumptionCheck removes %s after the subsumption test instead of the tested clause %s' % ([path_of(see_through(x['a'][0])) for x in rm], ref))
    okst = bool(st)
    for x in st:
        a1 = see_through(x['a'][1])
        neg_of_l = isinstance(a1, dict) and a1.get('k') == 'call' and a1.get('op') == '~' and path_of((a1.get('a') or [a1.get('recv')])[0]) == lv
        if path_of(see_through(x['a'][0])) != ref or not neg_of_l:
            okst = False
    if okst:
        res.ok(r, 'strengthenClause(%s, ~%s)' % (ref, lv))
    else:
        res.bad(r, 'strengthens-wrongly', fx.loc(bs), 'backwardSubsumptionCheck no longer strengthens the tested clause %s by the negation of the literal returned by subsumes: the literal removed is not '
                'the one self-subsuming resolution justifies' % ref)
    # ---- the learnt clause after minimisation (shared with C01 / C05): marks of an aborted walk must not make later literals look implied
    import satrules
    satrules.minimisation_rule(res, fx)
    return res


def show_lit(l):
    if isinstance(l, tuple) and l and l[0] == 'lit':
        return ('-' if l[2] else '') + l[1]
    return str(l[0]) if isinstance(l, tuple) else str(l)


def show_clause(c):
    return '(' + ' '.join(show_lit(l) for l in c) + ')'
