"""C05 -- definitive answers do not depend on the solver configuration: dispatch and sibling-path agreement (DESIGN 3-C05)."""
from build import AnalysisBroken
from core import Result
from facts import Facts, fwalk, walk, callee, path_of, recv_path, see_through
from prims import mname, is_call, as_assign, exhaustive_switch
import satrules

LEVEL = 'other'
EXPLANATION = ('Two configurations can only contradict each other where the code forks on an option. Decided: (1) the forks are exhaustive and ordered as documented - '
               'createTheory handles or rejects every Logic_t enumerator, createInnerSolver can only select engine classes whose model-found exits are covered below; '
               '(2) sibling branches agree on the mandatory steps - the per-partition (proof/interpolant/core tracking) and whole-frame preprocessing branches of '
               'simplifyFormulas both run preprocessAfterSubstitutions, addPreprocessedFormula, afterPreprocessing, rewriteMaxArity under isBooleanOperator and giveToSolver '
               'for everything they hand on; the substitution steps exist only in the whole-frame branch (listed); (3) code that only some configurations execute keeps the '
               'shared invariants: every engine precedes its model-found exits by a complete theory check (C02 rules), every engine sets the conflict frame on '
               'assumption conflicts (C04 rule), SatELite (incremental mode off) respects frozen variables (C01 rule), conflict-clause minimisation (ccmin on, no proof '
               'tracking) restores its scratch marks, randomised choices draw from the configured seed only (C23 rule), and the ghost-variable engine keeps complete clause lists for '
               'theory literals and never leaves a Boolean nested in an uninterpreted function undecided. That two paths compute the same answer is not decided.')

COMMON_STEPS = ['preprocessAfterSubstitutions', 'addPreprocessedFormula', 'afterPreprocessing', 'rewriteMaxArity', 'giveToSolver']
WHOLE_FRAME_ONLY = {'applyLearntSubstitutions': 'substitutions learnt on lower frames; disabled when partitions are tracked (computeSubstitutions asserts no proof logging)',
                    'preprocessBeforeSubstitutions': 'theory-specific normalisation feeding the substitution pass',
                    'substitutionPass': 'equality substitution, not partition-preserving'}


def run(src, tier, seed):
    fx = Facts(src)
    res = Result('C05')
    res.assumptions += ['default build configuration, -UNDEBUG']
    # ---- R1 dispatch
    r = res.rule('option-dispatch', 'createTheory covers every Logic_t enumerator (case or throw); createInnerSolver selects only engine classes covered by the engine rules', floor=4)
    enum = [e['n'] for e in fx.enum('opensmt::Logic_t')['e']]
    ct = fx.func('opensmt::MainSolver::createTheory')
    handled = set()
    for sw in (x for x in walk(ct['body']) if x.get('k') == 'switch'):
        h, dk = exhaustive_switch(sw, enum)
        handled |= h
    throws = any(x.get('k') == 'throw' for x in walk(ct['body']))
    missing = [e for e in enum if e not in handled]
    if not missing or throws:
        res.ok(r, 'createTheory: %d logics in explicit cases, %d reach the throw' % (len(handled), len(missing)))
    else:
        res.bad(r, 'createtheory-gap', fx.loc(ct), 'MainSolver::createTheory neither handles nor rejects %s' % missing)
    ci = fx.func('opensmt::MainSolver::createInnerSolver')
    engines = sorted({cls for x in walk(ci['body']) if x.get('k') == 'call' and 'make_unique' in callee(x) for cls in ('LookaheadSMTSolver', 'GhostSMTSolver', 'SimpSMTSolver') if cls in ((x.get('t') or '') + (x.get('id') or ''))})
    for e in engines:
        res.ok(r, 'createInnerSolver can select %s (its sat exits / conflict frames are checked below)' % e)
    if 'SimpSMTSolver' not in engines:
        raise AnalysisBroken('createInnerSolver: default engine not found')
    # every engine class that can be selected must be covered by the sat-exit rules: known engines only
    # (which option wins when several are set is not a correctness matter and is deliberately not checked)
    # ---- R2 sibling preprocessing branches
    r = res.rule('preprocessing-branches-agree', 'the per-partition and the whole-frame branch of MainSolver::simplifyFormulas both perform the mandatory steps; the substitution steps are whole-frame only', floor=8)
    sf = fx.func('opensmt::MainSolver::simplifyFormulas')
    per = whole = None
    for n in walk(sf['body']):
        if n.get('k') == 'if' and 'perPartition' in str(n.get('cond')):
            per, whole = n['then'], n.get('else')
    if per is None or whole is None:
        raise AnalysisBroken('simplifyFormulas: the two preprocessing branches were not found')
    pc = [mname(x) for x in walk(per, sf.get('lambdas')) if x.get('k') == 'call']
    wc = [mname(x) for x in walk(whole, sf.get('lambdas')) if x.get('k') == 'call']
    for st in COMMON_STEPS:
        if st in pc and st in wc:
            res.ok(r, '%s in both branches' % st)
        else:
            res.bad(r, 'branch-misses:%s' % st, fx.loc(sf), 'MainSolver::simplifyFormulas: %s is missing from the %s branch: the two preprocessing modes hand different formulas to the solver'
                    % (st, 'per-partition' if st not in pc else 'whole-frame'))
    for st, why in WHOLE_FRAME_ONLY.items():
        if st in wc and st not in pc:
            res.ok(r, '%s: whole-frame only (%s)' % (st, why))
        elif st in pc:
            res.bad(r, 'substitution-in-partition-branch:%s' % st, fx.loc(sf), '%s now also runs when partitions are tracked: substituted formulas lose their partition (cores / interpolants)' % st)
        else:
            res.bad(r, 'whole-frame-step-missing:%s' % st, fx.loc(sf), '%s no longer runs in the whole-frame branch' % st)
    # rewriteMaxArity guarded by isBooleanOperator in both
    for nm, br in (('per-partition', per), ('whole-frame', whole)):
        ok = any(x.get('k') == 'if' and any(is_call(y, 'isBooleanOperator') for y in walk(x['cond'])) and any(is_call(y, 'rewriteMaxArity') for y in walk(x['then'])) for x in walk(br))
        if ok:
            res.ok(r, '%s: rewriteMaxArity under isBooleanOperator' % nm)
        else:
            res.bad(r, 'maxarity-guard:%s' % nm, fx.loc(sf), 'the %s branch no longer guards rewriteMaxArity with isBooleanOperator' % nm)
    # ---- R3 shared invariants of configuration-specific code
    satrules.complete_check_rules(res, fx)
    satrules.elimination_rule(res, fx)
    satrules.minimisation_rule(res, fx)
    import C04
    sub = C04.run(src, tier, seed)
    r = res.rule('engines-set-conflict-frame', 'every engine that analyses a final conflict over assumptions records the conflict frame (C04 rule)', floor=1)
    hits = [f for f in sub.findings if 'conflict' in f.rule.lower() or 'conflict' in f.key.lower()]
    for f in hits:
        res.bad(r, f.key, f.where, f.msg)
    if not hits:
        res.ok(r, 'C04 conflict-frame rule holds for CoreSMTSolver::search and LookaheadSMTSolver::buildAndTraverse')
    import C23
    sub = C23.run(src, 'quick', seed)
    r = res.rule('seeded-choices', 'randomised decisions draw from the per-instance seed initialised from the configuration (C23 rule seeded-randomness)', floor=1)
    hits = [f for f in sub.findings if f.rule == 'seeded-randomness']
    for f in hits:
        res.bad(r, f.key, f.where, f.msg)
    if not hits:
        res.ok(r, 'all drand/irand/rand sites draw from configured or constant seeds')
    # ---- generic: updates meant for a container element must reach it (found GhostSMTSolver::relocAll, an engine selected by :ghost-vars)
    import generic
    r = res.rule('element-updates-reach-the-container', 'no range-based for over a by-value variable ends an iteration with an assignment to that variable that nothing reads (the update '
                 'was meant for the container element): all functions of the solver', floor=100)
    generic.dead_store_to_loop_copy(fx, res, r)
    ghost_rules(fx, res)
    return res


def ghost_rules(fx, res):
    """The engine selected by :ghost-vars leaves a theory literal undecided when every clause containing it is satisfied.  The clause lists are filled when a
    clause is attached (before solving starts) and consulted at decision time; if the producer drops clauses the consumer is asked about, or the consumer
    calls a literal a ghost although the theory needs its value, atoms are never decided and an unsatisfiable input is answered sat (replayed twice on
    the pinned tree: replays/C05).  Both functions are evaluated abstractly."""
    from boolctor import Interp, Unmodelled, Thrown
    r = res.rule('ghost-occurrence-lists', 'GhostSMTSolver::attachClause records an original clause under both of its theory literals whether or not the atoms have been declared to the theory '
                 'yet (declaration happens in solve_, after the clauses are attached); GhostSMTSolver::isGhost answers "ghost" exactly when every recorded clause is satisfied, and never '
                 'for a Boolean term nested in an uninterpreted function (it occurs in no clause, yet the congruence closure needs its value)', floor=8)
    f = fx.func('opensmt::GhostSMTSolver::attachClause')
    idx = {('a', False): 0, ('a', True): 1, ('b', False): 2, ('b', True): 3}
    try:
        for declared in (False, True):
            for learnt in (False, True):
                it = Interp(fx, f, '?', None)
                lists = {0: [], 1: [], 2: [], 3: []}
                it.oracle = {
                    'attachClause': lambda i, a, n: None, 'learnt': lambda i, a, n, v=learnt: v, 'var': lambda i, a, n: ('var', a[0][1]),
                    'toInt': lambda i, a, n: idx[(a[0][1], a[0][2])], 'isDeclared': lambda i, a, n, d=declared: d, 'isTheoryTerm': lambda i, a, n: True,
                    'isTheorySymbol': lambda i, a, n: True, 'appearsInUF': lambda i, a, n: False,
                    'varToTerm': lambda i, a, n: ('term', a[0][1]), 'getLogic': lambda i, a, n: ('logic',), 'getSymRef': lambda i, a, n: ('sym', a[0][1]),
                }
                it.run_env({'in_clause': ('cref', 7), 'this.ca': {('cref', 7): ('clause', [('lit', 'a', False), ('lit', 'b', True)])}, 'this.thLitToClauses': lists, 'CRef_Undef': ('cref', 'undef')})
                got = {k: v for k, v in lists.items() if v}
                want = {} if learnt else {0: [('cref', 7)], 3: [('cref', 7)]}
                if learnt and got:
                    res.ok(r, 'attachClause: learnt clause also recorded (harmless)')
                elif got == want:
                    res.ok(r, 'attachClause(%s clause, atoms %sdeclared): recorded under %s' % ('learnt' if learnt else 'original', '' if declared else 'not yet ', sorted(got) or 'nothing'))
                else:
                    res.bad(r, 'ghost-clause-not-recorded', fx.loc(f), 'GhostSMTSolver::attachClause, original clause (a, not b) over theory atoms that are %sdeclared to the theory: recorded under '
                            'literal indices %s instead of [0, 3]; atoms are declared only in solve_, so the clause lists stay empty, every theory literal counts as a ghost and is never '
                            'decided (:ghost-vars true answers sat on unsatisfiable input)' % ('' if declared else 'not yet ', sorted(got)))
        g = fx.func('opensmt::GhostSMTSolver::isGhost')
        for nested in (False, True):
            for sats in ([], [True], [False], [True, False], [True, True]):
                it = Interp(fx, g, '?', None)
                crefs = [('cref', k) for k in range(len(sats))]
                it.oracle = {
                    'isDeclared': lambda i, a, n: True, 'var': lambda i, a, n: ('var', a[0][1]), 'toInt': lambda i, a, n: 0,
                    'satisfied': lambda i, a, n, sats=sats: sats[a[0][1]], 'appearsInUF': lambda i, a, n, v=nested: v,
                    'varToTerm': lambda i, a, n: ('term', a[0][1]), 'getLogic': lambda i, a, n: ('logic',), 'swap': lambda i, a, n: None,
                }
                out = it.run_env({'l': ('lit', 'a', False), 'this.ca': {c: c for c in crefs}, 'this.thLitToClauses': {0: list(crefs)}})
                want = (not nested) and all(sats)
                if out is want:
                    res.ok(r, 'isGhost(%s literal, clauses satisfied: %s) = %s' % ('nested Boolean' if nested else 'theory', sats, out))
                elif nested:
                    res.bad(r, 'ghost-nested-boolean', fx.loc(g), 'GhostSMTSolver::isGhost calls a Boolean term nested in an uninterpreted function a ghost (recorded clauses satisfied: %s): it occurs in no '
                            'clause, is never decided, and the congruence closure never learns its value' % sats)
                else:
                    res.bad(r, 'ghost-test-wrong', fx.loc(g), 'GhostSMTSolver::isGhost answers %s for a theory literal whose recorded clauses are satisfied as %s' % (out, sats))
    except Thrown:
        raise AnalysisBroken('GhostSMTSolver::attachClause / isGhost throws on the abstract input')
    except Unmodelled as e:
        raise AnalysisBroken('GhostSMTSolver::attachClause / isGhost is outside the modelled subset: %s' % e)
