"""C16 -- numeric literals are read and printed exactly: structural clauses (DESIGN 3-C16, narrow)."""
from build import AnalysisBroken
from core import Result
from facts import Facts, fwalk, walk, callee, path_of, recv_path, see_through
from prims import mname, is_call, as_assign, callers_of

LEVEL = 'other'
EXPLANATION = ('Decided (narrow): (1) every GMP string conversion of a term-level numeric literal uses base 10 explicitly: literal 10 at the call, or a base parameter whose '
               'default and every explicit argument is 10 (base 0 auto-detects octal/hex from the prefix); (2) ArithLogic::mkConst(sort, text) builds the number only from '
               'text that passed isIntString or was produced by stringToRational, which rejects malformed text by throwing; (3) the literal scanner stringToRational '
               're-initialises its scanner state (`state`) and digit counters (`zeroes`) to a constant before each of its passes over the text, and each scanning pass '
               'rejects or handles every (state, character class) pair it can reach; (4) numbers are printed by GMP/FastRational::get_str only (no printf of a double). '
               'The digit-counting arithmetic of the scanner and printing of values are value-level and not decided.')



def run(src, tier, seed):
    fx = Facts(src)
    res = Result('C16')
    res.assumptions += ['default build configuration, -UNDEBUG']
    # ---- R1 base 10
    r = res.rule('decimal-base', 'mpq_set_str / mpz_set_str are called with base 10: a literal, or a parameter whose default and all explicit arguments are 10', floor=2)
    for f in fx.F.values():
        for n in fwalk(f):
            if n.get('k') == 'call' and callee(n) in ('mpq_set_str', 'mpz_set_str', '__gmpq_set_str', '__gmpz_set_str') and not n.get('as'):
                b = see_through(n['a'][2]) if len(n.get('a', [])) > 2 else None
                if isinstance(b, dict) and b.get('k') == 'lit':
                    if b['v'] == 10:
                        res.ok(r, '%s: base 10' % fx.loc(f, n['ln']))
                    else:
                        res.bad(r, 'base-not-10:%s' % f['name'], fx.loc(f, n['ln']), '%s converts a numeric string with base %s: with base 0 a leading 0 means octal (010/3 is read as 8/3) and 0x hexadecimal' % (f['name'], b['v']))
                elif isinstance(b, dict) and b.get('k') == 'ref' and b.get('d') == 'param':
                    # every caller passes 10 or relies on the default, which must be 10 (the default argument appears as a literal at the call)
                    bad = []
                    ncall = 0
                    pidx = [p['n'] for p in f['params']].index(b['n'])
                    for g in fx.F.values():
                        for m in fwalk(g):
                            if m.get('k') in ('new', 'call') and m.get('id') == f['id'] and len(m.get('a', [])) > pidx:
                                ncall += 1
                                a = see_through(m['a'][pidx])
                                if not (isinstance(a, dict) and a.get('k') == 'lit' and a['v'] == 10):
                                    bad.append(fx.loc(g, m.get('ln')))
                    if bad:
                        res.bad(r, 'base-argument:%s' % f['name'], fx.loc(f, n['ln']), '%s is called with a base other than the literal 10 at %s' % (f['name'], bad[:4]))
                    else:
                        res.ok(r, '%s: base parameter, %d call(s), all 10' % (fx.loc(f, n['ln']), ncall))
                else:
                    res.bad(r, 'base-unknown:%s' % f['name'], fx.loc(f, n['ln']), '%s passes a computed base to a GMP string conversion' % f['name'])
    # ---- R2 mkConst goes through the validating scanners
    r = res.rule('literal-validated', 'ArithLogic::mkConst(sort, text) constructs Number(text) only after isIntString (rejecting branch) or stringToRational', floor=2)
    mk = [f for f in fx.funcs('opensmt::ArithLogic::mkConst') if len(f['params']) == 2 and 'char' in f['params'][1]['t']]
    if len(mk) != 1:
        raise AnalysisBroken('ArithLogic::mkConst(SRef, char const *) not found')
    mk = mk[0]
    news = [n for n in fwalk(mk) if n.get('k') in ('new',) and 'FastRational' in (n.get('t') or '') + (n.get('id') or '') and not n.get('as')]
    if not news:
        raise AnalysisBroken('mkConst: construction of the Number not found')
    for nw in news:
        arg = path_of(nw['a'][0]) if nw.get('a') else None
        # arg must be the buffer filled by stringToRational or strdup'ed after a rejecting isIntString test
        filled = any(is_call(x, 'stringToRational') and x.get('a') and path_of(x['a'][0]) == arg for x in fwalk(mk))
        rej = any(x.get('k') == 'if' and not x.get('as') and any(is_call(y, 'isIntString') for y in walk(x['cond'])) and any(y.get('k') == 'throw' for y in walk(x['then'])) for x in walk(mk['body']))
        if filled and rej:
            res.ok(r, 'mkConst: Number(%s), %s from stringToRational / validated by isIntString' % (arg, arg))
        else:
            res.bad(r, 'literal-unvalidated', fx.loc(mk, nw.get('ln')), 'ArithLogic::mkConst builds the number from text that did not pass isIntString / stringToRational')
    s2r = fx.func('opensmt::stringToRational')
    if any(x.get('k') == 'throw' and not x.get('as') for x in fwalk(s2r)):
        res.ok(r, 'stringToRational rejects malformed text by throwing')
    else:
        res.bad(r, 'scanner-never-rejects', fx.loc(s2r), 'stringToRational no longer throws on malformed text')
    # ---- R3 scanner passes start from constants
    r = res.rule('scanner-pass-state', 'in stringToRational every loop over the text that tests or updates `state` / `zeroes` is preceded, after any earlier loop that changed them, '
                 'by an assignment of a constant to each of them', floor=3)
    top = [s for s in s2r['body']['c'] if isinstance(s, dict)]
    # pass-local scanner variables, recognised by role (not by name): the state variable is the local compared with integer literals
    # in the branch conditions of the loops; a pass counter is a local that some loop both increments and resets to 0 in its body
    loops_all = [st for st in top if st.get('k') == 'loop']
    cmp_count, incr, reset_in_loop = {}, set(), set()
    for lp in loops_all:
        for x in walk(lp['body']):
            if not isinstance(x, dict):
                continue
            if x.get('k') == 'bin' and x.get('op') == '==' and isinstance(see_through(x['r']), dict) and see_through(x['r']).get('k') in ('lit', 'un') and path_of(x['l']):
                cmp_count[path_of(x['l'])] = cmp_count.get(path_of(x['l']), 0) + 1
            if x.get('k') == 'un' and x.get('op') in ('++',) and path_of(x['e']):
                incr.add(path_of(x['e']))
            aa = as_assign(x)
            if aa and path_of(aa[0]) and isinstance(see_through(aa[1]), dict) and see_through(aa[1]).get('k') == 'lit' and see_through(aa[1]).get('v') == 0:
                reset_in_loop.add(path_of(aa[0]))
    pass_state = {v for v, c in cmp_count.items() if c >= 3} | (incr & reset_in_loop)
    if not pass_state:
        raise AnalysisBroken('stringToRational: no scanner state variable recognised')
    res.extra['scanner_pass_variables'] = sorted(pass_state)
    clean = {}
    for st in top:
        if st.get('k') == 'decl' and st['n'] in pass_state:
            i = see_through(st.get('init'))
            clean[st['n']] = isinstance(i, dict) and i.get('k') in ('lit',) or (isinstance(i, dict) and i.get('k') == 'un' and isinstance(see_through(i.get('e')), dict) and see_through(i['e']).get('k') == 'lit')
            continue
        if st.get('k') == 'e':
            aa = as_assign(see_through(st['e'])) if isinstance(see_through(st['e']), dict) else None
            if aa and path_of(aa[0]) in pass_state:
                rv = see_through(aa[1])
                clean[path_of(aa[0])] = isinstance(rv, dict) and (rv.get('k') == 'lit' or (rv.get('k') == 'un' and rv.get('op') == '-' and isinstance(see_through(rv['e']), dict) and see_through(rv['e']).get('k') == 'lit'))
            continue
        if st.get('k') == 'loop':
            used = {x['n'] for x in walk(st) if x.get('k') == 'ref' and x.get('n') in pass_state}
            changed = set()
            for x in walk(st):
                aa = as_assign(x) if isinstance(x, dict) else None
                if aa and path_of(aa[0]) in pass_state:
                    changed.add(path_of(aa[0]))
                if isinstance(x, dict) and x.get('k') == 'un' and x.get('op') in ('++', '--') and path_of(x['e']) in pass_state:
                    changed.add(path_of(x['e']))
            # the for-init may assign the variable itself
            for v in sorted(used):
                if clean.get(v):
                    res.ok(r, 'pass at line %s: %s starts from a constant' % (st.get('ln'), v))
                else:
                    res.bad(r, 'stale-scanner-state:%s' % v, fx.loc(s2r, st.get('ln')), 'stringToRational: the pass over the literal at line %s uses `%s` as left behind by the previous pass '
                            '(not re-initialised): digit counts of one pass leak into the next and the literal is read with a wrong denominator' % (st.get('ln'), v))
            for v in changed:
                clean[v] = False
    # each scanning pass ends in a rejecting else (first pass) -- structural: the first loop contains a throw in its final else
    loops = [st for st in top if st.get('k') == 'loop']
    if loops and any(x.get('k') == 'throw' for x in walk(loops[0]['body'])):
        res.ok(r, 'first pass rejects every (state, character) pair it does not handle')
    else:
        res.bad(r, 'first-pass-accepts-all', fx.loc(s2r), 'the validating pass of stringToRational no longer throws for unexpected characters')
    # ---- R4 printing
    # ---- a pending counter that is flushed into a length is reset in the same branch (both scanner passes buffer interior zeros the same way)
    r = res.rule('flush-resets-pending-counter', 'in stringToRational, a branch that adds a pending counter into a length (len += counter + k) resets the counter before the next character: '
                 'the counter buffers digits that are only counted once a later digit shows they are interior', floor=2)
    sr = s2r
    counters = {path_of(n['e']) for n in fwalk(sr) if n.get('k') == 'un' and n.get('op') == '++' and n.get('e', {}).get('k') == 'ref'}
    for blk in (b for b in walk(sr['body']) if b.get('k') == 'seq'):
        stmts = [x for x in blk['c'] if isinstance(x, dict)]
        for i, st in enumerate(stmts):
            e = see_through(st.get('e')) if st.get('k') == 'e' else None
            if not (isinstance(e, dict) and e.get('k') == 'bin' and e.get('op') == '+='):
                continue
            used = {x['n'] for x in walk(e['r']) if x.get('k') == 'ref' and x['n'] in counters and x['n'] != path_of(e['l'])}
            for z in sorted(used):
                reset = any(isinstance(see_through(t.get('e')), dict) and see_through(t['e']).get('k') == 'bin' and see_through(t['e']).get('op') == '=' and path_of(see_through(t['e'])['l']) == z
                            and see_through(see_through(t['e'])['r']).get('v') == 0 for t in stmts[i + 1:] if t.get('k') == 'e')
                if reset:
                    res.ok(r, 'line %s: %s += %s ...; %s = 0' % (st.get('ln'), path_of(e['l']), z, z))
                else:
                    res.bad(r, 'pending-counter-not-reset:%s:%s' % (path_of(e['l']), z), fx.loc(sr, st.get('ln')), 'stringToRational adds the pending counter `%s` into `%s` (line %s) without resetting it '
                            'in that branch: the buffered digits are counted again at the next flush and the literal is read with the wrong scale' % (z, path_of(e['l']), st.get('ln')))

    r = res.rule('printing-exact', 'FastRational::get_str / print use the exact GMP conversion (mpq_get_str / gmp printf %Qd) or integer formatting of num/den; no floating-point formatting of a Number', floor=1)
    gs = [f for f in fx.F.values() if f['name'] in ('opensmt::FastRational::get_str', 'opensmt::FastRational::print')]
    if not gs:
        raise AnalysisBroken('FastRational::get_str / print not found')
    for f in gs:
        bad = [n for n in fwalk(f) if n.get('k') == 'call' and mname(n) in ('get_d', 'mpq_get_d') and not n.get('as')]
        if bad:
            res.bad(r, 'print-through-double:%s' % f['name'], fx.loc(f, bad[0]['ln']), '%s prints a rational through double' % f['name'])
        else:
            res.ok(r, '%s: exact' % f['name'])
    literal_recogniser_rule(fx, res, tier)
    return res


def literal_recogniser_rule(fx, res, tier):
    """isRealString decides which texts reach stringToRational / mpq_set_str.  It is a hand-written automaton; it is evaluated abstractly on every string over
    {0, 5, ., /, -} up to length 5 (6 in the thorough tier) and must accept exactly  -?(d+(.d+)?|.d+)(/(d+(.d+)?|.d+))?  with a denominator that has a
    non-zero digit: "1/0" made mpq_canonicalize divide by zero (replays/C18/zero-denominator-literal.smt2)."""
    import itertools
    import re
    from build import AnalysisBroken
    from boolctor import Interp, Unmodelled, Thrown
    from prims import must_call
    r = res.rule('real-literal-recogniser', 'isRealString, evaluated on every string over {0, 5, ., /, -} up to length 5 (thorough: 6), accepts exactly the decimal / fraction literals whose '
                 'denominator has a non-zero digit; ArithLogic::mkConst(sort, text) converts a real literal only after the recogniser accepted it', floor=1000)
    f = fx.func('opensmt::isRealString')
    rx = re.compile(r'^-?(\d+(\.\d+)?|\.\d+)(/(\d+(\.\d+)?|\.\d+))?$')
    n = 0
    reported = set()
    try:
        for L in range(1, 7 if tier == 'thorough' else 6):
            for w in itertools.product('05./-', repeat=L):
                text = ''.join(w)
                it = Interp(fx, f, '?', {})
                it.oracle = {'isDigit': lambda i, a, nd: isinstance(a[0], int) and 48 <= a[0] <= 57}
                out = it.run_env({f['params'][0]['n']: [ord(c) for c in text] + [0]})
                well_formed = bool(rx.match(text))
                zero_den = '/' in text and not re.search(r'[1-9]', text.split('/', 1)[1])
                n += 1
                if out and zero_den and well_formed and 'zero' not in reported:
                    reported.add('zero')
                    res.bad(r, 'zero-denominator-accepted', fx.loc(f), 'isRealString accepts "%s": the text reaches stringToRational and mpq_canonicalize divides by zero (SIGFPE)' % text)
                elif out and not well_formed and 'ill' not in reported:
                    reported.add('ill')
                    res.bad(r, 'ill-formed-literal-accepted', fx.loc(f), 'isRealString accepts "%s", which is not a decimal or fraction literal' % text)
                elif (not out) and well_formed and not zero_den and 'rej' not in reported:
                    reported.add('rej')
                    res.bad(r, 'literal-rejected', fx.loc(f), 'isRealString rejects the literal "%s"' % text)
                elif not (out and (zero_den or not well_formed)) and not ((not out) and well_formed and not zero_den):
                    res.ok(r, None) if False else None
    except Thrown:
        raise AnalysisBroken('isRealString throws')
    except Unmodelled as e:
        raise AnalysisBroken('isRealString is outside the modelled subset: %s' % e)
    for _ in range(n - len(reported)):
        res.ok(r, 'strings')
    mk = fx.func('opensmt::ArithLogic::mkConst', pred=lambda g: len(g['params']) == 2 and 'char' in g['params'][1]['t'])
    exits, eng = must_call(mk, {'recognised': lambda x: x.get('k') == 'call' and (x.get('f') or '').endswith('isRealString'),
                                'converted': lambda x: x.get('k') == 'call' and (x.get('f') or '').endswith('stringToRational')})
    # order: on every path that converts, the recogniser ran (and did not reject) - the rejecting branch throws
    unguarded = [nd for k, nd, st in exits if k != 'throw' and 'converted' in st and 'recognised' not in st]
    if unguarded:
        res.bad(r, 'conversion-without-recogniser', fx.loc(mk), 'ArithLogic::mkConst(sort, text) hands a text to stringToRational without having tested it with isRealString: a zero denominator or an '
                'ill-formed text reaches mpq_set_str / mpq_canonicalize')
    else:
        res.ok(r, 'mkConst(sort, text): stringToRational only after isRealString')
