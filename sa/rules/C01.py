"""C01 -- an unsat answer is never given for a satisfiable assertion set: structural clauses (DESIGN 3-C01)."""
from core import Result
from facts import Facts
import satrules

LEVEL = 'other'
EXPLANATION = ('Two places where an unsat answer can be manufactured without any value-dependent reasoning are decided: (1) the clausal form handed to the SAT engine - '
               'the clause templates of every Tseitin gate encoder and of the top-level emitters are extracted from the source and every emitted clause is shown, by '
               'exhaustive truth table, to be a consequence of the gate definition (an extra or wrong clause makes a satisfiable input unsatisfiable); the dispatch '
               'sends every connective to its own encoder; literal signs follow the parity of negations; let bindings are parsed before any is inserted; '
               '(2) SatELite variable elimination never touches a frozen variable (theory atoms, assumption and frame variables), which no baseline test exercises '
               'because elimination only runs with incremental mode off; (3) conflict-clause minimisation restores its scratch marks on every negative exit. The rest of conflict analysis, theory explanations, preprocessing and the theory solvers are value-dependent '
               'and not decided.')


def run(src, tier, seed):
    fx = Facts(src)
    res = Result('C01')
    res.assumptions += ['default build configuration, -UNDEBUG; assert(...) is not a runtime check',
                        'n-ary gate templates are checked for arities 1..4; the template is uniform in the arity (one per-argument clause form, one accumulated clause)']
    satrules.template_rule(res, fx, 'sound')
    satrules.dispatch_rule(res, fx)
    satrules.toplevel_rule(res, fx)
    satrules.let_rule(res, fx)
    satrules.elimination_rule(res, fx)
    satrules.minimisation_rule(res, fx)
    polynomial_invariant_rule(fx, res)
    return res


def polynomial_invariant_rule(fx, res):
    """The arithmetic preprocessing reports a conflict (the frame becomes `false`, check-sat answers unsat) when a top-level equality has reduced to a constant-only
    polynomial; that the constant is non-zero is only asserted.  It holds because a polynomial never keeps a term with coefficient zero - an invariant that
    PolynomialT's own methods (merge, removeVar, ...) maintain.  Writing a coefficient from outside bypasses it: 0 = 0 then counts as a false equality."""
    from facts import fwalk, walk, see_through
    from prims import as_assign
    from build import AnalysisBroken
    r = res.rule('polynomial-coefficients-owned', 'the coefficient of a polynomial term is written only by PolynomialT\'s own methods (which drop terms that cancel); the conflict test of '
                 'collectConstantSubstitutions (a constant-only polynomial is a false equality) relies on no zero term being kept', floor=1)
    cc = [f for f in fx.F.values() if f['name'].endswith('::collectConstantSubstitutions') and f.get('body')]
    if len(cc) != 1:
        raise AnalysisBroken('collectConstantSubstitutions not found (%d)' % len(cc))
    relies = any(n.get('as') and 'isZero' in str(n) and 'coeff' in str(n) for n in fwalk(cc[0])) and any(x.get('k') == 'ret' and 'conflict' in str(x) for x in fwalk(cc[0]))
    if not relies:
        raise AnalysisBroken('collectConstantSubstitutions: the asserted non-zero constant / conflict return was not found (anchor)')
    res.ok(r, 'collectConstantSubstitutions returns a conflict for a constant-only polynomial and only asserts that the constant is non-zero')
    bad = []
    for f in sorted(fx.F.values(), key=lambda f: f['name']):
        if not f.get('body') or (f.get('class') or '').startswith('opensmt::PolynomialT'):
            continue
        for n in fwalk(f):
            a = as_assign(n) if n.get('k') in ('bin', 'call') else None
            t = a[0] if a else (n.get('e') if n.get('k') == 'un' and n.get('op') in ('++', '--') else None)
            if t is None and n.get('k') == 'call' and n.get('op') in ('=', '+=', '-=', '*=', '/=') and n.get('recv') is not None:
                t = n['recv']              # compound assignment of a class type (FastRational::operator+=)
            e = t
            while isinstance(e, dict) and e.get('k') == 'cast':
                e = e['e']
            if isinstance(e, dict) and e.get('k') == 'mem' and e.get('n') == 'coeff' and 'PolynomialT' in (e.get('of') or ''):
                bad.append((f, n.get('ln')))
    for f, ln in bad:
        res.bad(r, 'coefficient-written-outside-polynomial:%s' % f['name'].split('::')[-1], fx.loc(f, ln), '%s writes the coefficient of a polynomial term in place: a term whose coefficient becomes '
                'zero stays in the polynomial, and the preprocessing takes the constant-only polynomial 0 = 0 for a false equality - a satisfiable assertion set is answered unsat'
                % f['name'].replace('opensmt::', ''))
    if not bad:
        res.ok(r, 'no function outside PolynomialT writes a term coefficient')
