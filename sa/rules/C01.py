"""C01 -- an unsat answer is never given for a satisfiable assertion set: structural clauses (DESIGN 3-C01)."""
from core import Result
from facts import Facts
import satrules

LEVEL = 'other'
EXPLANATION = ('Two places where an unsat answer can be manufactured without any value-dependent reasoning are decided: (1) the clausal form handed to the SAT engine - '
               'the clause templates of every Tseitin gate encoder and of the top-level emitters are extracted from the source and every emitted clause is shown, by '
               'exhaustive truth table, to be a consequence of the gate definition (an extra or wrong clause makes a satisfiable input unsatisfiable); the dispatch '
               'sends every connective to its own encoder; literal signs follow the parity of negations; let bindings are parsed before any is inserted; '
               '(2) SatELite variable elimination never touches a frozen variable (theory atoms, assumption and frame variables), which no baseline test exercises '
               'because elimination only runs with incremental mode off; (3) conflict-clause minimisation restores its scratch marks on every negative exit. The rest of conflict analysis, theory explanations, preprocessing and the theory solvers are value-dependent '
               'and not decided.')


def run(src, tier, seed):
    fx = Facts(src)
    res = Result('C01')
    res.assumptions += ['default build configuration, -UNDEBUG; assert(...) is not a runtime check',
                        'n-ary gate templates are checked for arities 1..4; the template is uniform in the arity (one per-argument clause form, one accumulated clause)']
    satrules.template_rule(res, fx, 'sound')
    satrules.dispatch_rule(res, fx)
    satrules.toplevel_rule(res, fx)
    satrules.let_rule(res, fx)
    satrules.elimination_rule(res, fx)
    satrules.minimisation_rule(res, fx)
    return res
