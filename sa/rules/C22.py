"""C22 -- theory solver verdicts depend only on the asserted literals: backtracking protocol clauses (DESIGN 3-C22)."""
import re

from build import AnalysisBroken
from core import Result
from facts import Facts, fwalk, walk, callee, path_of, recv_path, see_through, switch_arms, enum_label
from prims import mname, is_call, must_call, as_assign, ret_value
from walk import Client, Engine

LEVEL = 'other'
EXPLANATION = ('A retracted literal leaves no trace only if every piece of per-literal bookkeeping is undone exactly as often as it is done. Decided, '
               'for the built theory solvers (Egraph, LASolver, STPSolver<T>, ArraySolver) and the handlers above them: (1) each pushBacktrackPoint override '
               'reaches TSolver::pushBacktrackPoint and pushes its own stack exactly once on every path, each pop of n points reaches TSolver::popBacktrackPoint n '
               'times and pops its own stack; (2) THandler::assertLits pushes points for exactly the trail entries THandler::backtrack counts, and '
               'TSolverHandler::assertLit pushes on every scheduled solver before the isInformed filter; (3) every undo-record kind pushed by the e-graph has '
               'an undo action; (4) counters that are decremented per retracted decision are incremented on every path that records the decision '
               '(Simplex bound activation); (5) every setPolarity on an assert path has its clearPolarity on the matching pop path; (6) each clearSolver keeps '
               'resetting the members it resets today; (7) getReasonFor brackets its temporary assertion. Decides these protocol clauses, not that an undo '
               'action restores the right content.')

SOLVERS = ['opensmt::Egraph', 'opensmt::LASolver', 'opensmt::ArraySolver', 'opensmt::STPSolver<opensmt::SafeInt>', 'opensmt::STPSolver<opensmt::Delta>']
# own stack pushed once per backtrack point (field, push-ish method) / popped on the pop path (field, pop-ish methods)
OWN_STACK = {
    'opensmt::Egraph': ('backtrack_points', ('pop', 'shrink')),
    'opensmt::ArraySolver': ('backtrack_points', ('pop', 'shrink')),
    'opensmt::STPSolver<opensmt::SafeInt>': ('backtrack_points', ('pop', 'shrink')),
    'opensmt::STPSolver<opensmt::Delta>': ('backtrack_points', ('pop', 'shrink')),
    'opensmt::LASolver': ('dec_limit', ('pop', 'shrink')),
}
# members each clearSolver resets today (reference confirmed by reading; additions to a class are not demanded, removals are reported)
CLEAR_REFERENCE = {
    'opensmt::TSolver': ['backtrack_points', 'deductions_last', 'deductions_lim', 'deductions_next', 'explanation', 'has_explanation', 'informed_PTRefs', 'suggestions', 'th_deductions'],
    'opensmt::LASolver': ['LABoundRefToLeqAsgn', 'LeqToLABoundRefPair', 'boundStore', 'dec_limit', 'decision_trace', 'int_decisions', 'int_vars', 'int_vars_map', 'laVarMapper', 'laVarStore', 'simplex', 'status'],
    'opensmt::ArraySolver': ['lemmas', 'nodes', 'rootsMap', 'selectsInfo', 'valid'],
    'opensmt::STPSolver<opensmt::SafeInt>': ['graphMgr', 'mapper', 'store'],
    'opensmt::STPSolver<opensmt::Delta>': ['graphMgr', 'mapper', 'store'],
    'opensmt::Egraph': ['values'],
}
CLEAR_CALLS_BASE = {'opensmt::LASolver', 'opensmt::ArraySolver', 'opensmt::STPSolver<opensmt::SafeInt>', 'opensmt::STPSolver<opensmt::Delta>'}
EGRAPH_NOTE = ('Egraph::clearSolver clears only the computed model by design: the e-graph persists across checks and is emptied by backtracking to the empty stack '
               '(CoreSMTSolver::clearSearch -> theory_handler.backtrack(-1)), so its obligation is the undo-log rule')


def methods_of(fx, cls, short):
    return [f for f in fx.F.values() if f.get('class') == cls and f['name'].split('::')[-1] == short]


def touched_fields(fx, f, depth=0, seen=None):
    seen = seen if seen is not None else set()
    if f['id'] in seen:
        return set()
    seen.add(f['id'])
    t = set()
    for n in fwalk(f):
        if n.get('as'):
            continue
        tgt = None
        aa = as_assign(n)
        if aa:
            tgt = aa[0]
        elif n.get('k') == 'un' and n.get('op') in ('++', '--'):
            tgt = n['e']
        elif n.get('k') == 'call' and n.get('recv') is not None and not n.get('mc'):
            tgt = n['recv']
        if tgt is not None:
            p = path_of(tgt)
            if p and p.startswith('this.'):
                t.add(p.split('.')[1].replace('[]', ''))
        if n.get('k') == 'call' and n.get('recv') is not None and isinstance(see_through(n['recv']), dict) and see_through(n['recv']).get('k') == 'this' and n.get('id') in fx.F and depth < 3:
            t |= touched_fields(fx, fx.F[n['id']], depth + 1, seen)
    return t


class CountCalls(Client):
    """state = (count of event A capped at 2); records the count at every normal exit"""

    def __init__(self, pred):
        self.pred = pred
        self.exits = []

    def on_call(self, n, s):
        if self.pred(n):
            return (min(s + 1, 2),)
        return (s,)

    def on_exit(self, kind, node, s):
        if kind != 'throw':
            self.exits.append((node.get('ln') if isinstance(node, dict) else None, s))


def count_on_paths(f, pred):
    c = CountCalls(pred)
    eng = Engine(f, c)
    eng.run([0])
    if eng.broken:
        raise AnalysisBroken('%s: %s' % (f['name'], eng.broken))
    return c.exits


def strip_tpl(n):
    prev = None
    while prev != n:
        prev = n
        n = re.sub(r'<[^<>]*>', '', n)
    return n


def quantity(fx, f, e, depth=0):
    """canonical name of the quantity an expression samples: 'size(Class::path)' or 'field(Class::name)'; None if not understood"""
    e = see_through(e)
    if not isinstance(e, dict) or depth > 4:
        return None
    cls = strip_tpl(f.get('class') or '')
    k = e.get('k')
    if k == 'cast' or (k in ('new', 'init') and len(e.get('a') or e.get('e') or []) == 1):
        return quantity(fx, f, e.get('e') if k == 'cast' else (e.get('a') or e.get('e'))[0], depth)
    if k == 'call' and mname(e) in ('size', 'size_') and e.get('recv') is not None:
        p = path_of(e['recv'])
        if p and p.startswith('this.'):
            return 'size(%s::%s)' % (cls, p[5:])
        return None
    if k == 'call' and e.get('id') in fx.F and not e.get('a'):
        g = fx.F[e['id']]
        rets = [x for x in walk(g['body']) if x.get('k') == 'ret']
        if len(rets) == 1 and rets[0].get('e') is not None:
            return quantity(fx, g, rets[0]['e'], depth + 1)
        return None
    if k == 'mem':
        b = see_through(e.get('b'))
        if isinstance(b, dict) and b.get('k') == 'this':
            return 'field(%s::%s)' % (cls, e['n'])
        # a field of another object: where does the enclosing class assign it from?
        srcs = set()
        for g in fx.F.values():
            if strip_tpl(g.get('class') or '') != cls:
                continue
            for n in fwalk(g):
                aa = as_assign(n)
                if aa and isinstance(see_through(aa[0]), dict) and see_through(aa[0]).get('k') == 'mem' and see_through(aa[0]).get('n') == e['n']:
                    rv = see_through(aa[1])
                    if isinstance(rv, dict) and rv.get('k') == 'lit':
                        continue        # reset to a constant
                    srcs.add(quantity(fx, g, aa[1], depth + 1))
        if len(srcs) == 1:
            return srcs.pop()
        return None
    if k == 'ref' and e.get('d') == 'local':
        for n in fwalk(f):
            if n.get('k') == 'decl' and n['n'] == e['n'] and n.get('init') is not None:
                return quantity(fx, f, n['init'], depth + 1)
    return None


def guard_predicates(f):
    """set of (callee short name or compared constant, polarity) for every `if (...) continue;` in a function"""
    g = set()
    for n in walk(f['body']):
        if n.get('k') != 'if' or n.get('as'):
            continue
        th = n['then']
        items = th['c'] if isinstance(th, dict) and th.get('k') == 'seq' else [th]
        items = [x for x in items if isinstance(x, dict) and not x.get('as')]
        if not (items and items[-1].get('k') == 'continue'):
            continue
        for part in cond_atoms(n['cond']):
            g.add(part)
    return g


def cond_atoms(c, neg=False):
    c = see_through(c)
    if not isinstance(c, dict):
        return
    if c.get('k') == 'un' and c.get('op') == '!':
        yield from cond_atoms(c['e'], not neg)
        return
    if c.get('k') == 'bin' and c.get('op') in ('||', '&&'):
        yield from cond_atoms(c['l'], neg)
        yield from cond_atoms(c['r'], neg)
        return
    if c.get('k') == 'call' and c.get('op') in ('==', '!='):
        names = sorted({mname(x) for x in walk(c) if x.get('k') == 'call' and mname(x) in ('getTerm_true', 'getTerm_false')})
        if names:
            yield ('==' + names[0], neg != (c.get('op') == '!='))
        return
    if c.get('k') == 'call':
        yield (mname(c), neg)


def run(src, tier, seed):
    fx = Facts(src)
    res = Result('C22')
    res.assumptions += ['default build configuration, -UNDEBUG; assert(...) events ignored', EGRAPH_NOTE,
                        'built theory solvers only (the bit-vector solver is not part of the build)']
    # ---- R1 override pairing and exact counts
    r = res.rule('backtrack-point-pairing', 'every pushBacktrackPoint override calls TSolver::pushBacktrackPoint and pushes its own stack exactly once on every path; '
                 'the pop side reaches TSolver::popBacktrackPoint once per popped point and pops its own stack', floor=10)
    for cls in SOLVERS:
        rec = fx.record(cls)
        push = methods_of(fx, cls, 'pushBacktrackPoint')
        pop1 = methods_of(fx, cls, 'popBacktrackPoint')
        popn = methods_of(fx, cls, 'popBacktrackPoints')
        short = cls.split('::', 1)[1]
        if not push:
            raise AnalysisBroken('%s::pushBacktrackPoint override vanished' % cls)
        if not (pop1 or popn):
            res.bad(r, 'no-pop-override:%s' % short, '%s:%s' % (fx.rel(rec['file']), rec['line']), '%s overrides pushBacktrackPoint but neither popBacktrackPoint nor popBacktrackPoints' % cls)
            continue
        own, popms = OWN_STACK[cls]
        pf = push[0]
        ex = count_on_paths(pf, lambda n: n.get('k') == 'call' and callee(n) == 'opensmt::TSolver::pushBacktrackPoint')
        if all(c == 1 for _, c in ex) and ex:
            res.ok(r, '%s::pushBacktrackPoint -> TSolver::pushBacktrackPoint exactly once' % short)
        else:
            res.bad(r, 'base-push-count:%s' % short, fx.loc(pf), '%s::pushBacktrackPoint reaches TSolver::pushBacktrackPoint %s times on some path (must be exactly once)' % (short, sorted({c for _, c in ex})))
        ex = count_on_paths(pf, lambda n: n.get('k') == 'call' and mname(n) in ('push', 'push_back') and recv_path(n) == 'this.' + own)
        if all(c == 1 for _, c in ex) and ex:
            res.ok(r, '%s::pushBacktrackPoint pushes %s exactly once' % (short, own))
        else:
            res.bad(r, 'own-push-count:%s' % short, fx.loc(pf), '%s::pushBacktrackPoint pushes its own stack %s %s times on some path (must be exactly once)' % (short, own, sorted({c for _, c in ex})))
        # pop side: follow popBacktrackPoint -> popBacktrackPoints(1) delegation
        impl = None
        for cand in popn + pop1:
            calls_base = any(n.get('k') == 'call' and callee(n) in ('opensmt::TSolver::popBacktrackPoint', 'opensmt::TSolver::popBacktrackPoints') for n in fwalk(cand))
            if calls_base:
                impl = cand if impl is None or cand in popn else impl
        if impl is None:
            res.bad(r, 'base-pop-missing:%s' % short, fx.loc((popn + pop1)[0]), '%s: no pop override reaches TSolver::popBacktrackPoint' % short)
            continue
        for cand in pop1 + popn:
            if cand is impl:
                continue
            # a sibling override must delegate to the implementing one or to the base loop (which calls the virtual single pop)
            tgts = {mname(n) for n in fwalk(cand) if n.get('k') == 'call' and mname(n) in ('popBacktrackPoint', 'popBacktrackPoints')}
            if tgts:
                res.ok(r, '%s::%s delegates to %s' % (short, cand['name'].split('::')[-1], sorted(tgts)))
            else:
                res.bad(r, 'pop-sibling:%s' % short, fx.loc(cand), '%s::%s neither delegates to the other pop override nor to TSolver' % (short, cand['name'].split('::')[-1]))
        is_n = impl['name'].endswith('popBacktrackPoints')
        base_calls = [n for n in fwalk(impl) if n.get('k') == 'call' and callee(n) in ('opensmt::TSolver::popBacktrackPoint', 'opensmt::TSolver::popBacktrackPoints')]
        okbase = False
        why = ''
        if is_n:
            pname = impl['params'][0]['n'] if impl['params'] else None
            for bc in base_calls:
                if callee(bc).endswith('popBacktrackPoints'):
                    okbase = bool(bc.get('a')) and path_of(bc['a'][0]) == pname
                    why = 'forwards the count to TSolver::popBacktrackPoints'
                else:
                    # single base pop inside a loop bounded by the parameter
                    for lp in (x for x in walk(impl['body']) if x.get('k') == 'loop'):
                        if any(y is bc for y in walk(lp['body'])) and pname and any(x.get('k') == 'ref' and x.get('n') == pname for x in walk([lp.get('cond'), lp.get('init'), lp.get('inc')])):
                            okbase = True
                            why = 'TSolver::popBacktrackPoint in a loop bounded by `%s`' % pname
        else:
            ex = count_on_paths(impl, lambda n: n.get('k') == 'call' and callee(n) == 'opensmt::TSolver::popBacktrackPoint')
            okbase = bool(ex) and all(c == 1 for _, c in ex)
            why = 'TSolver::popBacktrackPoint exactly once'
        if okbase:
            res.ok(r, '%s::%s: %s' % (short, impl['name'].split('::')[-1], why))
        else:
            res.bad(r, 'base-pop-count:%s' % short, fx.loc(impl), '%s::%s does not reach TSolver::popBacktrackPoint exactly once per popped point' % (short, impl['name'].split('::')[-1]))
        # own stack popped on the pop path (directly or in a helper called on this)
        def pops_own(f, depth=0):
            for n in fwalk(f):
                if n.get('k') == 'call' and mname(n) in popms and recv_path(n) == 'this.' + own:
                    return True
                if depth < 2 and n.get('k') == 'call' and n.get('recv') is not None and isinstance(see_through(n['recv']), dict) and see_through(n['recv']).get('k') == 'this' and n.get('id') in fx.F:
                    if fx.F[n['id']].get('class') == cls and pops_own(fx.F[n['id']], depth + 1):
                        return True
            return False
        # ArraySolver::popBacktrackPoints goes through the base loop to its own single pop
        chain = [impl] + [c for c in pop1 + popn if c is not impl]
        if any(pops_own(c) for c in chain):
            res.ok(r, '%s pops %s on the pop path' % (short, own))
        else:
            res.bad(r, 'own-pop-missing:%s' % short, fx.loc(impl), '%s never pops its own stack %s when backtrack points are popped' % (short, own))

    # ---- R1b the marker stored at a backtrack point is compared with the quantity it was sampled from
    r = res.rule('marker-quantity-agreement', 'the value each solver pushes on its own backtrack stack is sampled from the same quantity (container size / counter) '
                 'that the pop path later compares the popped marker with', floor=4)
    for cls in ('opensmt::Egraph', 'opensmt::LASolver', 'opensmt::ArraySolver', 'opensmt::STPSolver<opensmt::SafeInt>'):
        own, _pm = OWN_STACK[cls]
        short = cls.split('::', 1)[1]
        pf = methods_of(fx, cls, 'pushBacktrackPoint')[0]
        pushes = [n for n in fwalk(pf) if n.get('k') == 'call' and mname(n) in ('push', 'push_back') and recv_path(n) == 'this.' + own and n.get('a')]
        if not pushes:
            raise AnalysisBroken('%s::pushBacktrackPoint: push on %s not found' % (short, own))
        q_push = quantity(fx, pf, pushes[0]['a'][0])
        roots = methods_of(fx, cls, 'popBacktrackPoint') + methods_of(fx, cls, 'popBacktrackPoints')
        q_use = set()
        seen_f = set()

        def marker_read(e):
            e = see_through(e)
            return isinstance(e, dict) and e.get('k') == 'call' and (mname(e) in ('last', 'back', 'top') or e.get('op') == '[]') and recv_path(e) == 'this.' + own

        def scan(f, marker_params, depth):
            key = (f['id'], tuple(sorted(marker_params)))
            if key in seen_f or depth > 3:
                return
            seen_f.add(key)
            markers = set(marker_params)
            for n in fwalk(f):
                if n.get('k') == 'decl' and n.get('init') is not None and marker_read(n['init']):
                    markers.add(n['n'])

            def is_marker(e):
                e = see_through(e)
                return marker_read(e) or (isinstance(e, dict) and e.get('k') == 'ref' and e['n'] in markers)
            for n in fwalk(f):
                l = rr = None
                if n.get('k') == 'bin' and n.get('op') in ('<', '<=', '>', '>=', '==', '!=', '-'):
                    l, rr = n['l'], n['r']
                elif n.get('k') == 'call' and n.get('op') in ('<', '<=', '>', '>=', '==', '!=', '-') and n.get('recv') is not None and len(n.get('a', [])) == 1:
                    l, rr = n['recv'], n['a'][0]
                if l is not None:
                    for a, b in ((l, rr), (rr, l)):
                        if is_marker(a) and not is_marker(b):
                            q_use.add(quantity(fx, f, b))
                if n.get('k') == 'call' and n.get('id') in fx.F and not n.get('as'):
                    callee_f = fx.F[n['id']]
                    mp = [callee_f['params'][i]['n'] for i, a in enumerate(n.get('a', [])) if i < len(callee_f['params']) and is_marker(a)]
                    rv = see_through(n['recv']) if n.get('recv') is not None else None
                    on_this = isinstance(rv, dict) and (rv.get('k') == 'this' or (rv.get('k') == 'mem' and isinstance(see_through(rv.get('b')), dict) and see_through(rv['b']).get('k') == 'this'))
                    if mp or (on_this and callee_f.get('class') == cls):
                        scan(callee_f, mp, depth + 1)
        for f0 in roots:
            scan(f0, [], 0)
        q_use.discard(None)
        if not q_use:
            raise AnalysisBroken('%s: no comparison of the popped %s marker found on the pop path' % (short, own))
        if q_push is None:
            raise AnalysisBroken('%s::pushBacktrackPoint: pushed value not understood' % short)
        if q_use == {q_push}:
            res.ok(r, '%s: marker sampled from and compared with %s' % (short, q_push))
        else:
            res.bad(r, 'marker-mismatch:%s' % short, fx.loc(pf, pushes[0]['ln']), '%s stores %s at a backtrack point, but the pop path compares the marker with %s: after some histories the two '
                    'differ and a pop retracts more or less than the popped points (still-asserted literals are forgotten)' % (short, q_push, sorted(q_use)))

    # ---- R2 filter agreement between assertLits and backtrack; push before the isInformed filter
    r = res.rule('assert-backtrack-filters', 'THandler::assertLits pushes backtrack points for exactly the trail entries THandler::backtrack counts; '
                 'TSolverHandler::assertLit pushes a point on every scheduled solver before testing isInformed', floor=2)
    al = fx.func('opensmt::THandler::assertLits')
    bt = fx.func('opensmt::THandler::backtrack')
    ga, gb = guard_predicates(al), guard_predicates(bt)
    if ga == gb and ga:
        res.ok(r, 'skip predicates %s' % sorted(ga))
    else:
        res.bad(r, 'filter-mismatch', fx.loc(al), 'THandler::assertLits skips trail entries under %s but THandler::backtrack under %s: the number of pushed and popped backtrack points drifts apart'
                % (sorted(ga), sorted(gb)))
    # the one non-skipped path of assertLits must call assertLit; backtrack must pass its counter to popBacktrackPoints of every scheduled solver
    cnt_var = None
    for n in fwalk(bt):
        if n.get('k') == 'un' and n.get('op') == '++':
            cnt_var = path_of(n['e'])
    pops = [n for n in fwalk(bt) if is_call(n, 'popBacktrackPoints')]
    if cnt_var and pops and all(path_of(p['a'][0]) == cnt_var for p in pops) and any(x.get('k') == 'loop' and x.get('kind') == 'range' and 'solverSchedule' in str(x.get('range')) for x in walk(bt['body'])):
        res.ok(r, 'THandler::backtrack pops `%s` points on every scheduled solver' % cnt_var)
    else:
        res.bad(r, 'backtrack-count', fx.loc(bt), 'THandler::backtrack no longer pops exactly the counted number of points on every scheduled solver')
    ha = fx.func('opensmt::TSolverHandler::assertLit')
    okh = False
    for lp in (x for x in walk(ha['body']) if x.get('k') == 'loop'):
        body = lp['body']['c'] if lp['body'].get('k') == 'seq' else [lp['body']]
        body = [s for s in body if isinstance(s, dict) and not s.get('as')]
        idx_push = next((i for i, s in enumerate(body) if any(is_call(x, 'pushBacktrackPoint') for x in walk(s))), None)
        idx_filter = next((i for i, s in enumerate(body) if s.get('k') == 'if' and any(is_call(x, 'isInformed') for x in walk(s.get('cond')))), None)
        if idx_push is not None and body[idx_push].get('k') == 'e' and (idx_filter is None or idx_push < idx_filter):
            okh = True
    if okh:
        res.ok(r, 'TSolverHandler::assertLit: pushBacktrackPoint unconditionally, before the isInformed filter')
    else:
        res.bad(r, 'push-after-filter', fx.loc(ha), 'TSolverHandler::assertLit no longer pushes a backtrack point on every scheduled solver before the isInformed test '
                '(THandler::backtrack pops the same count from every solver)')

    # ---- R3 undo-log exhaustiveness
    r = res.rule('undo-kinds-handled', 'every operation kind pushed on the e-graph undo stack has a non-default case with an undo action in Egraph::backtrackToStackSize', floor=5)
    pushed = {}
    for f in fx.F.values():
        if f.get('class') != 'opensmt::Egraph':
            continue
        for n in fwalk(f):
            if n.get('k') == 'new' and (n.get('t') or '').endswith('Egraph::Undo') and n.get('a'):
                k0 = see_through(n['a'][0])
                if isinstance(k0, dict) and k0.get('k') == 'ref' and k0.get('d') == 'enum':
                    pushed.setdefault(k0['n'].split('::')[-1], []).append(fx.loc(f, n.get('ln')))
    bs = fx.func('opensmt::Egraph::backtrackToStackSize')
    handled = {}
    for sw in (x for x in walk(bs['body']) if x.get('k') == 'switch'):
        for a in switch_arms(sw):
            stmts = [s for s in a['stmts'] if isinstance(s, dict)]
            has_action = any(x.get('k') == 'call' and not x.get('as') for s in stmts for x in walk(s))
            for lab in a['labels']:
                nm = enum_label(lab) if lab is not None else None
                if nm:
                    handled[nm] = has_action
    NO_ACTION_OK = {'CONS': 'pushed nowhere today; kept as a no-op case'}
    if len(pushed) < 4:
        raise AnalysisBroken('only %d undo kinds found at push sites (expected >= 4): %s' % (len(pushed), sorted(pushed)))
    for kd, sites in sorted(pushed.items()):
        if kd in handled and (handled[kd] or kd in NO_ACTION_OK):
            res.ok(r, '%s pushed at %s, undone in backtrackToStackSize' % (kd, sites))
        else:
            res.bad(r, 'undo-kind-unhandled:%s' % kd, sites[0], 'undo record %s is pushed at %s but Egraph::backtrackToStackSize has no case with an undo action for it: the effect survives backtracking' % (kd, sites))

    # ---- R4 counters: activation counted on every path that records the decision
    r = res.rule('activation-count-balance', 'LASolver::popBacktrackPoints calls simplex.boundDeactivated once per popped decision, so Simplex::assertBound must call boundActivated '
                 'on every path that returns "no conflict" and on no path that returns a conflict; LASolver::assertLit records a decision exactly when assertBound succeeded', floor=4)
    sab = fx.func('opensmt::Simplex::assertBound')
    exits, eng = must_call(sab, {'act': lambda n: is_call(n, 'boundActivated')})
    nb = 0
    for k, nd, st in exits:
        if k != 'return' or not isinstance(nd, dict):
            continue
        e = see_through(nd.get('e'))
        empty = isinstance(e, dict) and ((e.get('k') in ('init', 'new') and not (e.get('e') or e.get('a'))))
        nonempty = isinstance(e, dict) and (e.get('k') in ('init', 'new') and (e.get('e') or e.get('a')))
        if empty and 'act' not in st:
            nb += 1
            res.bad(r, 'activation-missing', fx.loc(sab, nd.get('ln')), 'Simplex::assertBound returns "no conflict" at line %s without having called boundActivated, but LASolver::popBacktrackPoints '
                    'calls boundDeactivated for every recorded decision: the activation count of the variable underflows and a still-active bound is ignored' % nd.get('ln'))
        elif nonempty and 'act' in st:
            nb += 1
            res.bad(r, 'activation-on-conflict', fx.loc(sab, nd.get('ln')), 'Simplex::assertBound counts the bound as activated on a path that reports a conflict (no decision is recorded for it, so it is never deactivated)')
        elif empty or nonempty:
            res.ok(r, 'assertBound line %s: %s' % (nd.get('ln'), 'activated, no conflict' if empty else 'conflict, not activated'))
        else:
            raise AnalysisBroken('Simplex::assertBound: return expression at line %s not understood' % nd.get('ln'))
    lal = fx.func('opensmt::LASolver::assertLit')
    okd = False
    for n in walk(lal['body']):
        if n.get('k') == 'if' and any(is_call(x, 'assertBound') for x in walk(n['cond'])):
            t_dec = any(is_call(x, 'pushDecision') for x in walk(n['then']))
            e_dec = n.get('else') and any(is_call(x, 'pushDecision') for x in walk(n['else']))
            t_pol = any(is_call(x, 'setPolarity') for x in walk(n['then']))
            okd = t_dec and t_pol and not e_dec
    others = [x for x in fwalk(lal) if is_call(x, 'pushDecision')]
    if okd and len(others) == 1:
        res.ok(r, 'LASolver::assertLit: pushDecision + setPolarity exactly in the success branch of assertBound')
    else:
        res.bad(r, 'decision-record', fx.loc(lal), 'LASolver::assertLit no longer records the decision (pushDecision, setPolarity) exactly when assertBound succeeded')
    lpp = fx.func('opensmt::LASolver::popBacktrackPoints')
    okp = False
    for lp in (x for x in walk(lpp['body']) if x.get('k') == 'loop'):
        for n in walk(lp['body']):
            if n.get('k') == 'if' and 'PtAsgn_Undef' in str(n.get('cond')):
                okp = any(is_call(x, 'boundDeactivated') for x in walk(n['then'])) and any(is_call(x, 'clearPolarity') for x in walk(n['then']))
    fin = [x for x in fwalk(lpp) if is_call(x, 'finalizeBacktracking')]
    fin_in_loop = any(is_call(x, 'finalizeBacktracking') for lp in walk(lpp['body']) if lp.get('k') == 'loop' for x in walk(lp['body']))
    if okp and fin and not fin_in_loop:
        res.ok(r, 'LASolver::popBacktrackPoints: clearPolarity + boundDeactivated per popped decision, finalizeBacktracking once after the loop')
    else:
        res.bad(r, 'pop-deactivation', fx.loc(lpp), 'LASolver::popBacktrackPoints no longer deactivates the bound and clears the polarity of every popped decision, followed by one finalizeBacktracking')

    # ---- R5 polarity set/clear pairing
    r = res.rule('polarity-pairing', 'every class that calls setPolarity on its assert path clears the same atoms on its pop path', floor=4)
    # TSolver: storeDeduction sets, popBacktrackPoint clears what it pops from th_deductions
    sd = fx.func('opensmt::TSolver::storeDeduction')
    tp = fx.func('opensmt::TSolver::popBacktrackPoint')
    if any(is_call(n, 'setPolarity') for n in fwalk(sd)) and any(is_call(n, 'push', 'this.th_deductions') for n in fwalk(sd)) and \
            any(x.get('k') == 'loop' and any(is_call(y, 'clearPolarity') for y in walk(x['body'])) and any(is_call(y, 'pop', 'this.th_deductions') for y in walk(x['body'])) for x in walk(tp['body'])):
        res.ok(r, 'TSolver: storeDeduction (push + setPolarity) / popBacktrackPoint (clearPolarity + pop per deduction)')
    else:
        res.bad(r, 'polarity:TSolver', fx.loc(tp), 'TSolver::popBacktrackPoint no longer clears the polarity of every deduction it pops')
    # Egraph: SET_POLARITY undo record pushed right before setPolarity
    ea = fx.func('opensmt::Egraph::assertLit')
    exits, eng = must_call(ea, {'undo': lambda n: n.get('k') == 'call' and mname(n) == 'push' and recv_path(n) == 'this.undo_stack_main' and 'SET_POLARITY' in str(n.get('a')),
                                'set': lambda n: is_call(n, 'setPolarity')})
    if [1 for k, nd, st in exits if k != 'throw' and ('set' in st) != ('undo' in st)]:
        res.bad(r, 'polarity:Egraph', fx.loc(ea), 'Egraph::assertLit sets a polarity without pushing the SET_POLARITY undo record (or the reverse) on some path')
    elif not any('set' in st for k, nd, st in exits):
        raise AnalysisBroken('Egraph::assertLit no longer calls setPolarity')
    else:
        res.ok(r, 'Egraph::assertLit: SET_POLARITY undo record on every path that sets a polarity')
    # ArraySolver: setPolarity together with assertedLiterals.push; pop clears what it pops
    aa = fx.func('opensmt::ArraySolver::assertLit')
    exits, eng = must_call(aa, {'log': lambda n: is_call(n, 'push', 'this.assertedLiterals'), 'set': lambda n: is_call(n, 'setPolarity')})
    ap = fx.func('opensmt::ArraySolver::popBacktrackPoint')
    loop_ok = any(x.get('k') == 'loop' and any(is_call(y, 'clearPolarity') for y in walk(x['body'])) and any(is_call(y, 'pop', 'this.assertedLiterals') for y in walk(x['body'])) for x in walk(ap['body']))
    if [1 for k, nd, st in exits if k != 'throw' and ('set' in st) != ('log' in st)] or not loop_ok:
        res.bad(r, 'polarity:ArraySolver', fx.loc(aa), 'ArraySolver: setPolarity and the assertedLiterals log are no longer paired (assertLit) or popBacktrackPoint no longer clears what it pops')
    else:
        res.ok(r, 'ArraySolver: setPolarity iff logged in assertedLiterals; popBacktrackPoint clears every popped literal')
    res.ok(r, 'LASolver: checked under activation-count-balance')

    # ---- R6 clearSolver keeps its coverage
    # ---- retracting a literal restores every derived member its assertion may have changed (literal-stack solvers)
    import undo_cover as uc
    r = res.rule('retract-restores-what-assert-changed', 'for every theory solver whose popBacktrackPoint retracts literals one by one from its own stack: every member that assertLit can '
                 'mutate for a literal of polarity P is written on every path of popBacktrackPoint on which a literal of polarity P is retracted (a reset may be skipped when nothing is '
                 'retracted, or for a polarity under which the assertion does not touch the member)', floor=2)
    n_cls = 0
    for cls in sorted(fx.subclasses('opensmt::TSolver')):
        af = [f for f in fx.F.values() if f.get('class') == cls and f['name'].endswith('::assertLit') and f.get('body')]
        pf = [f for f in fx.F.values() if f.get('class') == cls and f['name'].split('::')[-1] == 'popBacktrackPoint' and f.get('body')]
        if not af or not pf:
            continue
        af, pf = af[0], pf[0]
        locs = {d['n'] for d in fwalk(pf) if d.get('k') == 'decl' and 'PtAsgn' in (d.get('ct') or d.get('t') or '')}
        # the solver's own literal stack: a vec<PtAsgn> member that popBacktrackPoint pops inside a loop
        rec = fx.R.get(cls) or {}
        lit_stacks = {f_['n'] for f_ in rec.get('fields', []) if 'PtAsgn' in (f_.get('ct') or f_.get('t') or '') and 'vec' in (f_.get('ct') or f_.get('t') or '')}
        stack = {(recv_path(x) or '').split('.')[-1] for l_ in walk(pf['body']) if l_.get('k') == 'loop' for x in walk(l_['body'])
                 if x.get('k') == 'call' and mname(x) in ('pop', 'pop_back') and (recv_path(x) or '').split('.')[-1] in lit_stacks}
        if not stack:
            continue        # this solver does not retract literal by literal (undo log / bound store): covered by the pairing and undo-kind rules
        n_cls += 1
        rd_a = uc.polarity_reader({af['params'][0]['n']})
        rd_p = uc.polarity_reader(locs)
        for P, pname in (('pos', 'positive'), ('neg', 'negative')):
            W = frozenset().union(*uc.write_sets(fx, cls, af, rd_a, P, must=False))
            paths = [s_ for s_ in uc.write_sets(fx, cls, pf, rd_p, P, must=True) if s_ & stack]
            if not paths:
                raise AnalysisBroken('%s::popBacktrackPoint: no path retracts a literal from %s' % (cls, sorted(stack)))
            R = frozenset.intersection(*paths)
            missing = sorted(W - R - stack)
            if missing:
                res.bad(r, 'retract-leaves-trace:%s:%s' % (cls.split('::')[-1], pname), fx.loc(pf), '%s::assertLit can change %s when a %s literal is asserted, but %s::popBacktrackPoint has a path that '
                        'retracts a %s literal without writing %s: the retracted literal leaves a trace in that state and later verdicts depend on it'
                        % (cls, missing, pname, cls, pname, missing))
            else:
                res.ok(r, '%s, %s literals: %s restored on every retracting path' % (cls.split('::')[-1], pname, sorted(W - stack)))
    if n_cls < 1:
        raise AnalysisBroken('no theory solver with a literal-by-literal popBacktrackPoint found (ArraySolver expected)')

    r = res.rule('clear-coverage', 'each clearSolver override still resets every member it resets on the reference tree, and the overrides that delegate still call TSolver::clearSolver', floor=6)
    for cls, ref in CLEAR_REFERENCE.items():
        fs = methods_of(fx, cls, 'clearSolver')
        if not fs:
            raise AnalysisBroken('%s::clearSolver vanished' % cls)
        rec = fx.record(cls)
        t = touched_fields(fx, fs[0])
        fields = {x['n'] for x in rec['fields']}
        for b in fx.bases_of(cls):
            fields |= {x['n'] for x in fx.R.get(b, {}).get('fields', [])}
        missing = [m for m in ref if m in fields and m not in t]
        gone = [m for m in ref if m not in fields]
        short = cls.split('::', 1)[1]
        if missing:
            res.bad(r, 'clear-dropped:%s:%s' % (short, ','.join(missing)), fx.loc(fs[0]), '%s::clearSolver no longer resets %s: state of the previous check survives into the next one' % (short, missing))
        else:
            res.ok(r, '%s::clearSolver resets %s%s' % (short, [m for m in ref if m in fields], (' (renamed/removed members: %s)' % gone) if gone else ''))
        if cls in CLEAR_CALLS_BASE:
            if any(n.get('k') == 'call' and callee(n) == 'opensmt::TSolver::clearSolver' for n in fwalk(fs[0])):
                res.ok(r, '%s::clearSolver -> TSolver::clearSolver' % short)
            else:
                res.bad(r, 'clear-no-base:%s' % short, fx.loc(fs[0]), '%s::clearSolver no longer calls TSolver::clearSolver (deductions, explanation and backtrack points survive)' % short)
    cs = fx.func('opensmt::CoreSMTSolver::clearSearch')
    if any(is_call(n, 'backtrack') and (recv_path(n) or '').endswith('theory_handler') for n in fwalk(cs)) and any(is_call(n, 'cancelUntil') for n in fwalk(cs)):
        res.ok(r, 'CoreSMTSolver::clearSearch: cancelUntil(0) + theory_handler.backtrack(-1) (empties the e-graph by undo)')
    else:
        res.bad(r, 'clearsearch-no-backtrack', fx.loc(cs), 'CoreSMTSolver::clearSearch no longer backtracks the theory handler to the empty stack')

    # ---- R7 getReasonFor bracket
    r = res.rule('reason-bracket', 'TSolver::getReasonFor pops the backtrack point it pushed on every normally returning path', floor=1)
    gr = fx.func('opensmt::TSolver::getReasonFor')
    exits, eng = must_call(gr, {'push': lambda n: is_call(n, 'pushBacktrackPoint'), 'pop': lambda n: is_call(n, 'popBacktrackPoint') or is_call(n, 'popBacktrackPoints')})
    bad = [nd for k, nd, st in exits if k != 'throw' and 'push' in st and 'pop' not in st]
    if bad:
        res.bad(r, 'reason-bracket', fx.loc(gr), 'TSolver::getReasonFor can return with its temporary negated assertion still on the solver')
    else:
        res.ok(r, fx.loc(gr))
    return res
