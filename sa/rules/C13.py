"""C13 -- preprocessing preserves satisfiability and models: the learnt transitivity facts (DESIGN 9.3-C13)."""
import itertools

from build import AnalysisBroken
from core import Result
from facts import Facts, fwalk
from prims import is_call
import boolctor
from boolctor import Interp, Unmodelled, Thrown, T, neg, ev_shape, show

LEVEL = 'other'
EXPLANATION = ('Of the preprocessing steps the property lists, one is decided: the "learnt transitivity facts". Logic::learnEqTransitivity is a pattern matcher that adds '
               '(or (and (= x w) (= w z)) (and (= x y) (= y z))) => (= x z); the formula it returns is conjoined to the assertions (UFTheory::preprocessBeforeSubstitutions), so '
               'equisatisfiability and model preservation require it to be valid in the theory of equality. The matcher looks at its input only through isOr / isAnd / isEquality, '
               'argument counts and identity of the eight variable positions, i.e. through a finite set of patterns: every disjunction of two or three disjuncts whose first two are '
               'conjunctions of two or three equalities over four variables (up to renaming) is pushed through the function by the abstract evaluator of sa/boolctor.py, and the '
               'returned formula is checked for validity by enumerating all equality patterns of the four variables. Equality substitution, ITE / div-mod / distinct elimination, '
               'purification and Boolean flattening are value-level rewrites over all terms and are not decided.')


def run(src, tier, seed):
    fx = Facts(src)
    res = Result('C13')
    res.assumptions += ['hash-consing: syntactically equal terms are identical (C28 rules)', 'the constructors called by the matcher (mkEq, mkImpl, mkAnd) mean what their names say (C14)']
    f = fx.func('opensmt::Logic::learnEqTransitivity')
    ev = {'mkEq': lambda a: ('eq',) + tuple(a) if a[0] != a[1] else T, 'mkImpl': lambda a: ('or', neg(a[0]), a[1]), 'mkAnd': lambda a: ('and',) + tuple(a), 'mkNot': lambda a: neg(a[0])}
    V = [('u', c) for c in 'xyzw']
    pairs = [(a, b) for a in V for b in V if a != b]
    B = ('v', 'b', True)
    extra_disjuncts = [None, B, ('eq', V[1], V[2]), ('and', ('eq', V[0], V[1]), ('eq', V[2], V[3]))]
    extra_conjuncts = [None, B]
    if tier != 'thorough':
        first = [(V[0], V[3])]            # up to renaming of the variables the first equality is (= x w)
    else:
        first = pairs
    r = res.rule('learnt-transitivity-valid', 'for every input pattern the formula returned by Logic::learnEqTransitivity is valid in the theory of equality '
                 '(true under every equality pattern of x, y, z, w and both values of a Boolean atom)', floor=1000)
    envs = [dict(zip('xyzw', vals), b=bv) for vals in itertools.product(range(4), repeat=4) for bv in (False, True)]
    n = learnt = 0
    bad = None
    try:
        for p1 in first:
            for p2, p3, p4 in itertools.product(pairs, repeat=3):
                for xd in extra_disjuncts:
                    for xc in extra_conjuncts:
                        if xd is not None and xc is not None and tier != 'thorough':
                            continue
                        a1 = ('and', ('eq',) + p1, ('eq',) + p2) + ((xc,) if xc is not None else ())
                        a2 = ('and', ('eq',) + p3, ('eq',) + p4)
                        tr = ('or', a1, a2) + ((xd,) if xd is not None else ())
                        n += 1
                        try:
                            out = Interp(fx, f, '?', ev, value_mode=True).run([tr])
                        except Thrown:
                            raise Unmodelled('throws on a well-formed input')
                        if out == T:
                            continue
                        learnt += 1
                        if bad is None:
                            for env in envs:
                                if not ev_shape(out, env):
                                    bad = (tr, out, env)
                                    break
    except Unmodelled as e:
        raise AnalysisBroken('Logic::learnEqTransitivity is outside the modelled subset: %s' % e)
    if learnt < 20:
        raise AnalysisBroken('learnEqTransitivity learnt a fact for only %d of %d patterns: the pattern enumeration no longer reaches the matcher' % (learnt, n))
    r['instances'] += n
    if bad:
        tr, out, env = bad
        r['instances'] -= 1
        res.bad(r, 'learnt-fact-not-valid', fx.loc(f), 'Logic::learnEqTransitivity(%s) returns %s, which is false when %s: an assertion set containing the matched term loses the models in '
                'which it holds through another disjunct (wrong unsat), although the same set is satisfiable in configurations that skip the heuristic'
                % (show(tr), show(out), {k: v for k, v in env.items()}))
    else:
        r['sites'].append('%d input patterns, %d of them make the matcher learn a fact, every learnt formula valid over %d interpretations' % (n, learnt, len(envs)))
    # the learnt formula is only ever conjoined (never replaces the input)
    r2 = res.rule('learnt-fact-conjoined', 'the only caller conjoins the learnt formula to the formula it was learnt from', floor=1)
    callers = [(g, c) for g in fx.F.values() if g.get('body') for c in fwalk(g) if is_call(c, 'learnEqTransitivity') and not c.get('as')]
    if not callers:
        raise AnalysisBroken('learnEqTransitivity has no caller any more')
    for g, c in callers:
        inside_and = any(is_call(x, 'mkAnd') and any(y is c for a in (x.get('a') or []) for y in __import__('facts').walk(a)) for x in fwalk(g))
        if inside_and:
            res.ok(r2, '%s: mkAnd(fla, learnEqTransitivity(fla))' % g['name'])
        else:
            res.bad(r2, 'learnt-fact-not-conjoined:%s' % g['name'].split('::')[-1], fx.loc(g, c.get('ln')), '%s uses the result of learnEqTransitivity other than as a conjunct of the formula' % g['name'])
    # ---- purification is the last step that may see mixed terms
    r4 = res.rule('rewrites-before-purification', 'in every preprocessing function that purifies (separates uninterpreted from arithmetic subterms), the rewriting steps that introduce new '
                  'atoms over existing subterms (rewriteDistincts, rewriteDivMod, ...: calls named rewrite*) come before purify: a definition such as t = n*d + m introduced afterwards for an '
                  'uninterpreted dividend t is never purified, the arithmetic solver does not see it and the formula handed to the search is weaker than the asserted one', floor=1)
    from prims import mname
    n_p = 0
    for g in fx.F.values():
        if not g.get('body') or not g['name'].startswith('opensmt::'):
            continue
        calls = [x for x in fwalk(g) if x.get('k') == 'call' and not x.get('as')]
        pur = [i for i, x in enumerate(calls) if mname(x) == 'purify']
        if not pur or g['name'].split('::')[-1] == 'purify':
            continue
        n_p += 1
        late = sorted({mname(x) for x in calls[pur[0] + 1:] if mname(x).startswith('rewrite')})
        if late:
            res.bad(r4, 'rewrite-after-purify:%s' % g['name'].split('::')[-1], fx.loc(g), '%s calls %s after purify: the atoms these rewrites introduce over uninterpreted subterms stay mixed' % (g['name'], late))
        else:
            res.ok(r4, '%s: %s before purify' % (g['name'].replace('opensmt::', ''), sorted({mname(x) for x in calls[:pur[0]] if mname(x).startswith('rewrite')})))
    if n_p == 0:
        raise AnalysisBroken('no preprocessing function calls purify any more')

    # ---- generic: a per-frame summary computed in a loop must summarise every element (found by the first C13 seed in MainSolver::simplifyFormulas)
    import generic
    r3 = res.rule('loop-summaries-accumulate', 'no Boolean that summarises the iterations of a loop (declared before it, read after it) is plainly overwritten in each iteration from the current element; '
                  'all functions of the solver, in particular the per-frame "nothing to add" test of MainSolver::simplifyFormulas', floor=500)
    generic.loop_summary_overwritten(fx, res, r3)
    return res
