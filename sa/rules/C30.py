"""C30 -- check-sat returns outside integer arithmetic: the anti-cycling switch of the simplex (DESIGN 9.3-C30)."""
from build import AnalysisBroken
from core import Result
from facts import Facts, fwalk, walk, callee, path_of, see_through
from prims import mname, is_call, as_assign
from walk import Client, Engine

LEVEL = 'other'
EXPLANATION = ('Termination of CDCL with restarts and clause deletion and of the lookahead search needs ranking arguments that no static analysis in reach provides; they are not decided. Of the '
               'three mechanisms the property names, one is structural: the simplex (LRA/RDL checks, and every relaxation inside LIA) terminates because Simplex::checkSimplex switches to '
               'Bland\'s smallest-index rule after finitely many pivots, and Bland\'s rule cannot cycle. Decided: every iteration of the pivoting loop increments the repeat counter and never '
               'lowers it; the Bland flag is only ever set (never cleared) inside the loop, under a comparison of the counter with a quantity the loop does not change; once it is set both '
               'the leaving and the entering variable come from the Bland selectors; the loop is left only by return; and both selectors keep the candidate with the smallest variable id. '
               'Two further necessary conditions come from hangs replayed on the pinned tree: the counter dec_vars by which the lookahead engine recognises a full assignment is written '
               'only together with the decision flags, and the arithmetic substitution step never yields a replacement that can contain another key, so the transitive closure terminates.')


class Iter(Client):
    """one iteration of the pivoting loop: (counter incremented?, flag value, selectors used)"""

    def __init__(self, counter, flag):
        self.counter, self.flag = counter, flag
        self.exits = set()
        self.problems = set()

    def on_cond(self, atom, s, branch):
        a = see_through(atom)
        neg = False
        while isinstance(a, dict) and a.get('k') == 'un' and a.get('op') == '!':
            neg = not neg
            a = see_through(a['e'])
        if isinstance(a, dict) and a.get('k') == 'ref' and a.get('n') == self.flag:
            val = branch != neg
            if s[1] is not None and s[1] != val:
                return None
            return (s[0], val, s[2])
        return s

    def on_assign(self, n, s):
        if n.get('k') == 'un' and n.get('op') in ('++', '--') and path_of(n['e']) == self.counter:
            if n['op'] == '--':
                self.problems.add('the repeat counter is decremented (line %s)' % n.get('ln'))
            return ((True, s[1], s[2]),)
        a = as_assign(n)
        if a and path_of(a[0]) == self.counter:
            self.problems.add('the repeat counter is overwritten inside the loop (line %s)' % n.get('ln'))
        if a and path_of(a[0]) == self.flag:
            v = see_through(a[1])
            if isinstance(v, dict) and v.get('k') == 'lit' and v.get('v') is True:
                return ((s[0], True, s[2]),)
            self.problems.add('the Bland flag is assigned something other than true inside the loop (line %s)' % n.get('ln'))
        return (s,)

    def on_call(self, n, s):
        m = mname(n)
        if m.startswith(('getBasicVarToFix', 'findNonBasicForPivot')):
            return ((s[0], s[1], s[2] | {(m, s[1])}),)
        return (s,)

    def on_exit(self, kind, node, s):
        self.exits.add((kind, s))


def run(src, tier, seed):
    fx = Facts(src)
    res = Result('C30')
    res.assumptions += ['Bland\'s theorem: the simplex with the smallest-index rule for both the leaving and the entering variable does not cycle', 'exact rational arithmetic (C15)']
    cs = fx.func('opensmt::Simplex::checkSimplex')
    loops = [l for l in walk(cs['body']) if l.get('k') == 'loop' and any(is_call(x, 'pivot') for x in walk(l['body']))]
    if len(loops) != 1:
        raise AnalysisBroken('checkSimplex: the pivoting loop was not found (%d candidates)' % len(loops))
    lp = loops[0]
    flags = [d['n'] for d in walk(cs['body']) if d.get('k') == 'decl' and 'bool' in (d.get('ct') or '') and any(x.get('k') == 'ref' and x.get('n') == d['n'] for x in walk(lp['body']))
             and any(as_assign(x) and path_of(as_assign(x)[0]) == d['n'] for x in walk(lp['body']))]
    counters = [d['n'] for d in walk(cs['body']) if d.get('k') == 'decl' and d['n'] not in flags and any(x.get('k') == 'un' and x.get('op') == '++' and path_of(x['e']) == d['n'] for x in walk(lp['body']))
                and not any(d2 is d for d2 in walk(lp['body']))]
    if len(flags) != 1 or len(counters) != 1:
        raise AnalysisBroken('checkSimplex: expected one Bland flag and one repeat counter declared before the loop (flags %s, counters %s)' % (flags, counters))
    flag, counter = flags[0], counters[0]

    r = res.rule('bland-switch-reached', 'every iteration of the pivoting loop increments the repeat counter, nothing in the loop lowers it or clears the Bland flag, and the flag is set under a comparison '
                 'of the counter with a quantity the loop does not change; the loop is left only by return', floor=3)
    c = Iter(counter, flag)
    pseudo = {'body': {'k': 'loop', 'kind': 'do', 'cond': {'k': 'lit', 'v': False, 't': 'bool'}, 'body': lp['body'], 'ln': lp.get('ln')}, 'lambdas': cs.get('lambdas', [])}
    for start in (False, True):
        eng = Engine(pseudo, c)
        eng.run([(False, start, frozenset())])
        if eng.broken:
            raise AnalysisBroken('checkSimplex: %s' % eng.broken)
    for p_ in sorted(c.problems):
        res.bad(r, 'bland-switch-defeated', fx.loc(cs, lp.get('ln')), 'Simplex::checkSimplex: %s: the switch to Bland\'s rule can be postponed for ever and the heuristic pivoting rule may cycle' % p_)
    cont = [(k, s) for k, s in c.exits if k == 'end']
    noinc = [s for k, s in cont if not s[0]]
    if noinc:
        res.bad(r, 'iteration-without-count', fx.loc(cs, lp.get('ln')), 'Simplex::checkSimplex: an iteration of the pivoting loop can go round without incrementing the repeat counter')
    elif cont:
        res.ok(r, 'every continuing iteration increments `%s`' % counter)
    else:
        raise AnalysisBroken('checkSimplex: no continuing path through the pivoting loop')
    if any(x.get('k') == 'break' for x in walk(lp['body'])) or see_through(lp.get('cond')).get('v') is not True:
        res.bad(r, 'loop-exit', fx.loc(cs, lp.get('ln')), 'Simplex::checkSimplex: the pivoting loop can be left other than by returning a verdict')
    else:
        res.ok(r, 'while (true) left only by return')
    guard_ok = False
    for n in walk(lp['body']):
        if n.get('k') == 'if' and not n.get('as') and any(as_assign(x) and path_of(as_assign(x)[0]) == flag for x in walk(n['then'])):
            cmpn = [x for x in walk(n['cond']) if x.get('k') == 'bin' and x.get('op') in ('>', '>=') and path_of(x['l']) == counter]
            if cmpn:
                bound = cmpn[0]['r']
                touched = {path_of(as_assign(x)[0]) for x in walk(lp['body']) if as_assign(x)} | {path_of(x['e']) for x in walk(lp['body']) if x.get('k') == 'un' and x.get('op') in ('++', '--')}
                refs = {x.get('n') for x in walk(bound) if x.get('k') == 'ref'}
                guard_ok = not (refs & {t for t in touched if t})
    if guard_ok:
        res.ok(r, '`%s` set when `%s` exceeds a loop-invariant bound' % (flag, counter))
    else:
        res.bad(r, 'bland-guard', fx.loc(cs, lp.get('ln')), 'Simplex::checkSimplex: the Bland flag is no longer set under `counter > bound` with a bound the loop leaves alone')

    r = res.rule('bland-mode-selectors', 'on every path on which the Bland flag is set, the leaving variable comes from getBasicVarToFixByBland and the entering one from findNonBasicForPivotByBland', floor=2)
    used = set()
    for k, s in c.exits:
        used |= s[2]
    badsel = sorted(m for m, fl in used if fl is True and not m.endswith('ByBland'))
    goodsel = sorted(m for m, fl in used if fl is True and m.endswith('ByBland'))
    if badsel:
        res.bad(r, 'heuristic-selector-in-bland-mode', fx.loc(cs), 'Simplex::checkSimplex calls %s on a path on which the Bland flag is set: the anti-cycling guarantee needs the smallest-index rule for both choices' % badsel)
    if len(goodsel) >= 2:
        for m in goodsel:
            res.ok(r, '%s under the flag' % m)
    elif not badsel:
        res.bad(r, 'bland-selectors-missing', fx.loc(cs), 'Simplex::checkSimplex no longer calls both Bland selectors when the flag is set (found %s)' % goodsel)

    r = res.rule('selectors-take-smallest-id', 'both Bland selectors keep the candidate with the smallest variable id: one iteration of each selection loop is evaluated abstractly with a running '
                 'minimum of 5 and a candidate id of 3, 5 and 7; afterwards the choice must be the candidate exactly for id 3 and the running minimum must be min(5, id)', floor=2)
    from boolctor import Interp, Unmodelled, Thrown
    for nm in ('opensmt::Simplex::getBasicVarToFixByBland', 'opensmt::Simplex::findNonBasicForPivotByBland'):
        f = fx.func(nm)
        seeds = mins_seed(f)
        mins = seeds | {d['n'] for d in fwalk(f) if d.get('k') == 'decl' and d.get('init') is not None and 'bool' not in (d.get('ct') or '') and isinstance(see_through(d['init']), dict) and see_through(d['init']).get('k') == 'ref' and see_through(d['init']).get('n') in seeds}
        rets = {path_of(x['e']) for x in fwalk(f) if x.get('k') == 'ret' and x.get('e') is not None and path_of(x['e'])}
        loops_ = [x for x in walk(f['body']) if x.get('k') == 'loop' and not x.get('as') and x.get('kind') == 'range']
        if not loops_ or not rets:
            raise AnalysisBroken('%s: no selection loop / returned choice found' % nm)
        n_ok = 0
        for l in loops_:
            curv = sorted({x.get('n') for x in walk(l['body']) if x.get('k') == 'ref' and x.get('n') in mins})
            chov = sorted({path_of(as_assign(x)[0]) for x in walk(l['body']) if as_assign(x) and path_of(as_assign(x)[0]) in rets})
            if len(curv) != 1 or len(chov) != 1:
                raise AnalysisBroken('%s: selection loop at line %s: running minimum %s / choice %s not identified' % (nm, l.get('ln'), curv, chov))
            curv, chov = curv[0], chov[0]
            problems = []
            try:
                for cid in (3, 5, 7):
                    it = Interp(fx, f, '?', {})
                    cand = ('cand',)
                    it.oracle = {'getVarId': lambda i, a, n, cid=cid: cid, 'mem:var': lambda i, a, n: cand, 'mem:coeff': lambda i, a, n: ('coeff',),
                                 'isPositive': lambda i, a, n: True, 'isModelStrictlyUnderUpperBound': lambda i, a, n: True, 'isModelStrictlyOverLowerBound': lambda i, a, n: True,
                                 'isNonBasic': lambda i, a, n: True, 'isBasic': lambda i, a, n: True}
                    it.env = {curv: 5, chov: ('old',), l['var']: cand, 'basicVar': ('basic',), 'Undef': ('undef-ref',)}
                    try:
                        it.block(l['body'])
                    except Thrown:
                        raise Unmodelled('throws')
                    want_choice = cand if cid < 5 else ('old',)
                    if it.env.get(chov) != want_choice:
                        problems.append('with running minimum 5 and candidate id %d the choice %s' % (cid, 'is not updated' if cid < 5 else 'is replaced'))
                    if it.env.get(curv) != min(5, cid):
                        problems.append('with running minimum 5 and candidate id %d the running minimum becomes %s' % (cid, it.env.get(curv)))
            except Unmodelled as e:
                raise AnalysisBroken('%s: selection loop at line %s is outside the modelled subset: %s' % (nm, l.get('ln'), e))
            if problems:
                res.bad(r, 'not-smallest-index:%s' % nm.split('::')[-1], fx.loc(f, l.get('ln')), '%s, selection loop at line %s: %s: the selector no longer returns the candidate with the smallest '
                        'variable id, which Bland\'s anti-cycling rule needs' % (nm, l.get('ln'), '; '.join(problems)))
            else:
                n_ok += 1
        if n_ok == len(loops_):
            res.ok(r, '%s: %d selection loop(s) keep the smallest id' % (nm.split('::')[-1], n_ok))
    decision_count_rule(fx, res)
    substitution_rule(fx, res)
    loop_breaker_rule(fx, res)
    return res


def loop_breaker_rule(fx, res):
    """SubstLoopBreaker::operator() repeats: find the loops reachable from the start nodes, cut each loop at its last node, add the children that node had
    to the start nodes.  If breakLoops does not hand back those children, a second loop reachable only through a removed edge is never looked at again, the
    substitution map stays cyclic and Logic::substitutionsTransitiveClosure does not terminate (seeded/C30-loop-breaker-orphans-lost)."""
    from boolctor import Interp, Unmodelled, Thrown
    r = res.rule('loop-breaker-restarts-from-orphans', 'SubstLoopBreaker::breakLoops, evaluated abstractly on two loops whose last nodes have two and one children: it returns exactly those '
                 'children and leaves the two nodes without children; operator() adds everything breakLoops returns to the start nodes before searching again', floor=3)
    f = fx.func('opensmt::SubstLoopBreaker::breakLoops')
    children = {('sn', 2): [('sn', 10), ('sn', 11)], ('sn', 3): [('sn', 12)], ('sn', 1): [('sn', 2)]}
    before = {k: list(v) for k, v in children.items()}

    def node_of(i, n, a):
        v = i.val(n['recv']) if n.get('recv') is not None else a[0]
        if not (isinstance(v, tuple) and v and v[0] == 'node'):
            raise Unmodelled('node method on %s' % (v,))
        return ('sn', v[1])
    it = Interp(fx, f, '?', {})
    it.oracle = {
        'nChildren': lambda i, a, n: len(children[node_of(i, n, a)]),
        'swipeChildren': lambda i, a, n: children.__setitem__(node_of(i, n, a), []),
        'op:[]': lambda i, a, n: children[('sn', a[0][1])][a[1]] if isinstance(a[0], tuple) and a[0] and a[0][0] == 'node' else NotImplemented,
    }
    try:
        out = it.run_env({f['params'][0]['n']: [[('sn', 1), ('sn', 2)], [('sn', 3)]], 'this.sna': {k: ('node', k[1]) for k in children}})
    except Thrown:
        raise AnalysisBroken('SubstLoopBreaker::breakLoops throws on the abstract graph')
    except Unmodelled as e:
        raise AnalysisBroken('SubstLoopBreaker::breakLoops is outside the modelled subset: %s' % e)
    want = before[('sn', 2)] + before[('sn', 3)]
    if isinstance(out, list) and sorted(out) == sorted(want):
        res.ok(r, 'breakLoops returns the children of the cut nodes: %s' % [x[1] for x in out])
    else:
        res.bad(r, 'orphans-lost', fx.loc(f), 'SubstLoopBreaker::breakLoops returns %s for two loops whose cut nodes had the children %s: the search for further loops is not restarted from them, a loop '
                'reachable only through a removed edge survives and the transitive closure of the substitutions does not terminate' % ([x[1] for x in out] if isinstance(out, list) else out, [x[1] for x in want]))
    if children[('sn', 2)] == [] and children[('sn', 3)] == [] and children[('sn', 1)] == before[('sn', 1)]:
        res.ok(r, 'breakLoops removes the children of the last node of each loop and of no other node')
    else:
        res.bad(r, 'loop-not-cut', fx.loc(f), 'SubstLoopBreaker::breakLoops leaves the children %s (expected: last node of each loop without children, other nodes untouched): the loop is not broken' % children)
    op = fx.func('opensmt::SubstLoopBreaker::operator()')
    ok = False
    for lp in (l for l in walk(op['body']) if l.get('k') == 'loop'):
        decl = [d for d in walk(lp['body']) if d.get('k') == 'decl' and d.get('init') is not None and any(is_call(x, 'breakLoops') for x in [see_through(d['init'])] + list(walk(d['init'])))]
        for d in decl:
            for inner in (l for l in walk(lp['body']) if l.get('k') == 'loop' and l.get('kind') == 'range' and path_of(l.get('range')) == d['n']):
                if any(x.get('k') == 'call' and mname(x) in ('push', 'push_back') and path_of((x.get('a') or [None])[0]) == inner.get('var') for x in walk(inner['body'])):
                    ok = True
    if ok:
        res.ok(r, 'operator(): every node returned by breakLoops becomes a start node of the next search')
    else:
        res.bad(r, 'orphans-not-restarted', fx.loc(op), 'SubstLoopBreaker::operator() no longer adds the nodes returned by breakLoops to the start nodes of the next search')


def decision_count_rule(fx, res):
    """The lookahead engine recognises a full assignment by `trail.size() == dec_vars`; dec_vars must therefore equal the number of set entries of decision[].
    On the pinned tree CoreSMTSolver::addVar_ set decision[v] directly: the count fell behind and an incremental :pure-lookahead script never returned (replays/C30)."""
    r = res.rule('decision-count-in-sync', 'the decision flag of a variable and the counter dec_vars are written only by CoreSMTSolver::setDecisionVar (which updates both together); '
                 'the lookahead engine compares the trail size with dec_vars to recognise a full assignment', floor=3)
    readers = [f for f in fx.F.values() if f.get('body') and 'LookaheadSMTSolver' in f['name'] and any(x.get('k') == 'mem' and x.get('n') == 'dec_vars' for x in fwalk(f))]
    if not readers:
        raise AnalysisBroken('decision-count-in-sync: the lookahead engine no longer reads dec_vars (anchor)')
    for f in sorted(readers, key=lambda f: f['name']):
        res.ok(r, '%s compares against dec_vars' % f['name'].replace('opensmt::', ''))
    n_sync = 0
    for f in sorted(fx.F.values(), key=lambda f: f['name']):
        if not f.get('body'):
            continue
        short = f['name'].split('::')[-1]
        for n in fwalk(f):
            tgt = None
            a = as_assign(n) if n.get('k') in ('bin', 'call') else None
            if a:
                tgt = path_of(a[0])
            elif n.get('k') == 'un' and n.get('op') in ('++', '--'):
                tgt = path_of(n['e'])
            if not tgt or not (tgt.startswith('this.decision[') or tgt == 'this.decision' or tgt == 'this.dec_vars'):
                continue
            mem = [x for x in walk(a[0] if a else n['e']) if x.get('k') == 'mem' and x.get('n') in ('decision', 'dec_vars')] + \
                  ([see_through(a[0] if a else n['e'])] if see_through(a[0] if a else n['e']).get('k') == 'mem' else [])
            if not any('CoreSMTSolver' in (x.get('of') or '') for x in mem):
                continue
            if short == 'setDecisionVar':
                n_sync += 1
                continue
            res.bad(r, 'decision-flag-bypasses-count:%s' % short, fx.loc(f, n.get('ln')), '%s writes %s directly instead of through setDecisionVar: dec_vars no longer equals the number of decision '
                    'variables, and the lookahead engine (full assignment iff trail.size() == dec_vars) does not terminate or stops early' % (f['name'].replace('opensmt::', ''), tgt.replace('this.', '')))
    if n_sync < 3:
        raise AnalysisBroken('decision-count-in-sync: setDecisionVar no longer updates decision[] and dec_vars (%d writes found)' % n_sync)
    res.ok(r, 'setDecisionVar: %d writes, flag and counter together' % n_sync)
    res.ok(r, 'no other function writes decision[] or dec_vars')


def substitution_rule(fx, res):
    """Logic::substitutionsTransitiveClosure rewrites the replacements until nothing changes; it terminates only if no replacement can (transitively) contain its own key.  The
    equality-based substitutions pass through SubstLoopBreaker; the arithmetic ones are added afterwards.  On the pinned tree f(x) -> h(g(y)) and g(y) -> k(f(x)) were produced
    and check-sat did not return (replays/C30)."""
    import itertools
    from boolctor import Interp, Unmodelled, Thrown
    r = res.rule('arithmetic-substitutions-acyclic', 'with uninterpreted functions or arrays, polyToPTRefSubstitution (evaluated abstractly on polynomials over plain variables, applications and a '
                 'constant) yields a replacement only when every other term is a plain variable - a replacement then cannot contain the key of another substitution - or the arithmetic '
                 'substitutions pass through the loop breaker before the transitive closure', floor=8)
    rs = fx.func('opensmt::ArithLogic::retrieveSubstitutions')
    ae = fx.func('opensmt::ArithLogic::arithmeticElimination')
    if any(x.get('k') in ('new', 'call') and 'SubstLoopBreaker' in ((x.get('t') or '') + (x.get('f') or '') + (x.get('id') or '')) for g in (rs, ae) for x in fwalk(g)):
        for _ in range(8):
            res.ok(r, 'arithmetic substitutions pass through SubstLoopBreaker')
        return
    fs = [f for f in fx.F.values() if f['name'].endswith('::polyToPTRefSubstitution') and f.get('body')]
    if len(fs) != 1:
        raise AnalysisBroken('polyToPTRefSubstitution not found (%d)' % len(fs))
    f = fs[0]
    pn = [p['n'] for p in f['params']]
    if len(pn) != 3:
        raise AnalysisBroken('polyToPTRefSubstitution: expected (logic, var, poly)')
    try:
        for keykind, others, ufs in itertools.product(('var', 'app'), [(), ('var',), ('app',), ('var', 'app'), ('const',)], ((True, False), (False, True))):
            terms = [('term', 'k', keykind)] + [('term', 'o%d' % i, k) for i, k in enumerate(others)]
            it = Interp(fx, f, '?', {})
            it.oracle = {
                'hasUFs': lambda i, a, n, v=ufs[0]: v, 'hasArrays': lambda i, a, n, v=ufs[1]: v, 'isVar': lambda i, a, n: a[-1][2] == 'var',
                'mem:var': lambda i, a, n: ('undef-ref',) if a[0][2] == 'const' else a[0],
                'getCoeff': lambda i, a, n: ('real',), 'isOne': lambda i, a, n: True, 'negate': lambda i, a, n: None, 'yieldsSortInt': lambda i, a, n: False,
                'removeVar': lambda i, a, n: None, 'divideBy': lambda i, a, n: None, 'polyToPTRef': lambda i, a, n: ('rhs',), 'getSortRef': lambda i, a, n: ('sort',),
            }
            out = it.run_env({pn[0]: ('logic',), pn[1]: terms[0], pn[2]: terms, 'PTRef_Undef': ('undef-ref',)})
            nested = 'app' in others
            if nested and out != ('undef-ref',):
                res.bad(r, 'replacement-may-contain-a-key', fx.loc(f), 'polyToPTRefSubstitution (logic with %s) turns an equality whose eliminated term is %s and whose other terms include an '
                        'application into a substitution: the replacement can contain the key of another substitution (f(x) -> h(g(y)), g(y) -> k(f(x))), nothing breaks such a cycle '
                        'after the arithmetic elimination, and Logic::substitutionsTransitiveClosure does not terminate' % ('uninterpreted functions' if ufs[0] else 'arrays', 'a plain variable' if keykind == 'var' else 'an application'))
            else:
                res.ok(r, 'eliminated term %s, other terms %s: %s' % (keykind, list(others), 'no substitution' if out == ('undef-ref',) else 'substitution'))
    except Thrown:
        raise AnalysisBroken('polyToPTRefSubstitution throws on the abstract input')
    except Unmodelled as e:
        raise AnalysisBroken('polyToPTRefSubstitution is outside the modelled subset: %s' % e)


def mins_seed(f):
    """locals initialised from numeric_limits<...>::max()"""
    return {d['n'] for d in fwalk(f) if d.get('k') == 'decl' and d.get('init') is not None and any(is_call(x, 'max') for x in walk(d['init']))}
