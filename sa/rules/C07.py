"""C07 -- minimal unsat cores are irreducible: the protocol clauses of the deletion loop (DESIGN 9.3-C07)."""
from build import AnalysisBroken
from core import Result
from facts import Facts, fwalk, walk, callee, path_of, recv_path, see_through
from prims import mname, is_call
from walk import Client, Engine

LEVEL = 'other'
EXPLANATION = ('Irreducibility itself is a statement about satisfiability of subsets and is not decided. Decided are the protocol clauses of the deletion-based minimisation '
               '(UnsatCoreBuilder::Minimize::performNaive) without which the result cannot be irreducible or is not a core at all: on every path through one iteration '
               '(a) the trial check runs inside a push/pop bracket in which the candidate itself has not been asserted, (b) the candidate is dropped only on a path that '
               'established the unsat verdict and kept on every other path, (c) a kept candidate is asserted outside the bracket so that later trials see it, (d) the bracket is '
               'balanced; the trial asserts exactly the not-yet-decided candidates after the current one; the background (all unnamed current assertions in named mode) is '
               'asserted before the first trial and is built from the current assertion stack, skipping exactly the named terms.')


def run(src, tier, seed):
    fx = Facts(src)
    res = Result('C07')
    res.assumptions += ['the inner solver answers correctly (C01/C02 of the nested MainSolver); an undetermined inner verdict keeps the candidate (conservative)']
    pn = fx.func('opensmt::UnsatCoreBuilder::Minimize::performNaive')
    solver = pn['params'][0]['n']
    top = [s for s in pn['body']['c'] if isinstance(s, dict)]
    mains = [s for s in top if s.get('k') == 'loop' and any(is_call(x, 'check') for x in walk(s['body']))]
    if len(mains) != 1:
        raise AnalysisBroken('performNaive: expected one top-level loop that runs the trial check, found %d' % len(mains))
    lp = mains[0]
    if lp.get('kind') != 'for' or not isinstance(lp.get('init'), dict) or lp['init'].get('k') != 'decl':
        raise AnalysisBroken('performNaive: the candidate loop is not an index loop (line %s); the iteration model does not apply' % lp.get('ln'))
    idx = lp['init']['n']

    # which vector holds the candidates: the one indexed by the loop variable in the body
    cand_vecs = {path_of(x['recv']) for x in walk(lp['body']) if x.get('k') == 'call' and x.get('op') == '[]' and x.get('recv') is not None
                 and path_of(x['a'][0]) == idx and path_of(x['recv'])}
    if len(cand_vecs) != 1:
        raise AnalysisBroken('performNaive: cannot identify the candidate vector (indexed by %s): %s' % (idx, sorted(cand_vecs)))
    cvec = cand_vecs.pop()

    # ---- R1 the candidate loop covers every candidate
    r = res.rule('every-candidate-tried', 'the candidate loop starts at 0, runs while index < number of candidates and advances by one', floor=1)
    i0 = see_through(lp['init'].get('init'))
    cond = see_through(lp.get('cond'))
    inc = see_through(lp.get('inc'))
    size_names = size_aliases(pn, cvec)
    problems = []
    if not (isinstance(i0, dict) and i0.get('k') == 'lit' and i0.get('v') == 0):
        problems.append('does not start at 0')
    if not (isinstance(cond, dict) and cond.get('k') == 'bin' and cond.get('op') in ('<', '!=') and path_of(cond['l']) == idx and is_size(cond['r'], cvec, size_names)):
        problems.append('bound is not `%s < size of %s`' % (idx, cvec))
    if not (isinstance(inc, dict) and inc.get('k') == 'un' and inc.get('op') == '++' and path_of(inc['e']) == idx):
        problems.append('step is not ++%s' % idx)
    if problems:
        res.bad(r, 'candidate-loop-range', fx.loc(pn, lp.get('ln')), 'performNaive: the candidate loop %s: some candidate is never tried (it is then neither tested nor reported)' % '; '.join(problems))
    else:
        res.ok(r, 'for (%s = 0; %s < |%s|; ++%s)' % (idx, idx, cvec, idx))

    # ---- R2 trial set
    r = res.rule('trial-asserts-later-candidates', 'inside the bracket the trial asserts candidates idx+1 .. end (earlier ones are already decided: dropped, or kept and hard-asserted)', floor=1)
    inner = [s for s in walk(lp['body']) if s.get('k') == 'loop']
    if len(inner) != 1 or inner[0].get('kind') != 'for' or not isinstance(inner[0].get('init'), dict):
        raise AnalysisBroken('performNaive: expected one inner index loop that asserts the remaining candidates (found %d loops)' % len(inner))
    il = inner[0]
    j = il['init']['n']
    j0 = see_through(il['init'].get('init'))
    jc = see_through(il.get('cond'))
    jinc = see_through(il.get('inc'))
    problems = []
    if not (isinstance(j0, dict) and j0.get('k') == 'bin' and j0.get('op') == '+' and path_of(j0['l']) == idx and see_through(j0['r']).get('v') == 1):
        problems.append('does not start at %s + 1' % idx)
    if not (isinstance(jc, dict) and jc.get('k') == 'bin' and jc.get('op') in ('<', '!=') and path_of(jc['l']) == j and is_size(jc['r'], cvec, size_names)):
        problems.append('does not run to the end of %s' % cvec)
    if not (isinstance(jinc, dict) and jinc.get('k') == 'un' and jinc.get('op') == '++' and path_of(jinc['e']) == j):
        problems.append('step is not ++%s' % j)
    asserted = [x for x in walk(il['body']) if is_call(x, 'insertFormula', solver)]
    elem_ok = False
    for x in asserted:
        a = see_through(x['a'][0])
        src_e = a
        if isinstance(a, dict) and a.get('k') == 'ref':
            d = [d for d in walk(il['body']) if d.get('k') == 'decl' and d['n'] == a['n']]
            src_e = see_through(d[0]['init']) if d else a
        if isinstance(src_e, dict) and src_e.get('k') == 'call' and src_e.get('op') == '[]' and path_of(src_e['recv']) == cvec and path_of(src_e['a'][0]) == j:
            elem_ok = True
    if not elem_ok:
        problems.append('does not assert %s[%s]' % (cvec, j))
    if problems:
        res.bad(r, 'trial-set', fx.loc(pn, il.get('ln')), 'performNaive: the loop that asserts the remaining candidates %s' % '; '.join(problems))
    else:
        res.ok(r, 'for (%s = %s + 1; %s < |%s|; ++%s) insertFormula(%s[%s])' % (j, idx, j, cvec, j, cvec, j))

    # ---- R3 one iteration, path-sensitive
    r = res.rule('iteration-protocol', 'every path through one iteration: trial check inside a push/pop bracket without the candidate; dropped only on the unsat verdict; kept otherwise; '
                 'a kept candidate is asserted outside the bracket; brackets balanced', floor=2)
    c = IterWalk(solver, cvec, idx)
    c.loop_conds = {id(x) for l_ in walk(lp['body']) if l_.get('k') == 'loop' and l_.get('cond') is not None for x in walk(l_['cond'])}
    pseudo = {'body': {'k': 'loop', 'kind': 'do', 'cond': {'k': 'lit', 'v': False, 't': 'bool'}, 'body': lp['body'], 'ln': lp.get('ln')}, 'lambdas': pn.get('lambdas', [])}
    eng = Engine(pseudo, c)
    eng.run([IterWalk.INIT])
    if eng.broken:
        raise AnalysisBroken('performNaive: %s' % eng.broken)
    if not c.exits:
        raise AnalysisBroken('performNaive: no path through the iteration')
    for st in sorted(c.exits, key=str):
        depth, checked, verdict, kept, hard, early, flags = st
        what = []
        if depth != 0:
            what.append('leaves %d push level(s) open' % depth)
        if checked is None:
            what.append('never runs the trial check')
        elif checked < 1:
            what.append('runs the trial check outside a push/pop bracket (the trial assertions then persist)')
        if early:
            what.append('asserts the candidate itself before the trial check (every trial is then unsat)')
        if not kept and verdict != 'unsat':
            what.append('drops the candidate on a path that has not established the unsat verdict (verdict on this path: %s)' % verdict)
        if kept and verdict == 'unsat':
            what.append('keeps the candidate although the trial without it was unsat')
        if kept and not hard:
            what.append('keeps the candidate without asserting it outside the bracket: later trials run without it')
        desc = 'verdict=%s kept=%s' % (verdict, kept)
        if what:
            res.bad(r, 'iteration:%s' % ('kept' if kept else 'dropped'), fx.loc(pn, lp.get('ln')), 'performNaive, path with %s: %s' % (desc, '; '.join(what)))
        else:
            res.ok(r, desc)
    if c.unknown:
        raise AnalysisBroken('performNaive: the keep/drop decision depends on conditions the model does not know: %s' % sorted(c.unknown))

    # ---- R3b no shortcut around the loop other than "nothing to minimise"
    r = res.rule('no-shortcut-around-the-trials', 'Minimize::perform hands the candidates to performNaive on every path except the one that has established that there is no candidate '
                 '(in named mode a single named term can still be redundant against the unnamed background)', floor=1)
    pf = fx.func('opensmt::UnsatCoreBuilder::Minimize::perform')

    class Short(Client):
        def __init__(self):
            self.exits = set()

        def on_cond(self, atom, s, branch):
            a = see_through(atom)
            if isinstance(a, dict) and a.get('k') == 'bin' and a.get('op') in ('==', '<=', '<', '!=', '>', '>=') and is_size(a['l'], 'this.targetTerms', set()):
                k_ = see_through(a['r']).get('v')
                if isinstance(k_, int):
                    truth = {'==': lambda n: n == k_, '<=': lambda n: n <= k_, '<': lambda n: n < k_, '!=': lambda n: n != k_, '>': lambda n: n > k_, '>=': lambda n: n >= k_}[a['op']]
                    sizes = frozenset(n for n in s[1] if truth(n) == branch)
                    return (s[0], sizes) if sizes else None
            if isinstance(a, dict) and a.get('k') == 'call' and mname(a) == 'empty' and path_of(a.get('recv')) == 'this.targetTerms':
                sizes = frozenset(n for n in s[1] if (n == 0) == branch)
                return (s[0], sizes) if sizes else None
            return s

        def on_call(self, n, s):
            if is_call(n, 'performNaive'):
                return ((True, s[1]),)
            return (s,)

        def on_exit(self, kind, node, s):
            if kind == 'return':
                self.exits.add(s)
    c3 = Short()
    eng = Engine(pf, c3)
    eng.run([(False, frozenset(range(0, 6)))])
    if eng.broken:
        raise AnalysisBroken('Minimize::perform: %s' % eng.broken)
    skipped = sorted({n for called, sizes in c3.exits if not called for n in sizes})
    if not c3.exits:
        raise AnalysisBroken('Minimize::perform: no returning path')
    if any(n > 0 for n in skipped):
        res.bad(r, 'trials-skipped', fx.loc(pf), 'Minimize::perform can return without running the trials when there are %s candidate(s): a candidate that is redundant against the background '
                '(or the other candidates) is reported in the "minimal" core' % [n for n in skipped if n > 0])
    else:
        res.ok(r, 'perform: performNaive on every path with at least one candidate')

    # ---- R4 background
    r = res.rule('background-asserted-first', 'every background term is asserted at the base level before the first trial; in named mode the background is every current '
                 'assertion that has no name', floor=4)
    pos = top.index(lp)
    bg = [s for s in top[:pos] if s.get('k') == 'loop' and s.get('kind') == 'range' and path_of(s.get('range')) == 'this.backgroundTerms']
    if bg and any(is_call(x, 'insertFormula', solver) and path_of(x['a'][0]) == bg[0].get('var') for x in walk(bg[0]['body'])) \
            and not any(is_call(x, 'push', solver) for s in top[:pos] for x in walk(s)):
        res.ok(r, 'performNaive: for (term : backgroundTerms) insertFormula(term) before the candidate loop')
    else:
        res.bad(r, 'background-not-asserted', fx.loc(pn), 'performNaive no longer asserts every background term at the base level before the first trial')
    ctor = [f for f in fx.funcs('opensmt::UnsatCoreBuilder::Minimize::Minimize') if len(f['params']) == 3]
    if not ctor:
        raise AnalysisBroken('Minimize constructor with background terms not found')
    ini = {i.get('m'): i for i in ctor[0].get('inits', [])}
    bt = ini.get('backgroundTerms')
    if bt is not None and any(x.get('k') == 'ref' and x.get('n') == ctor[0]['params'][2]['n'] for x in walk(bt['e'])):
        res.ok(r, 'Minimize::backgroundTerms initialised from the constructor argument')
    else:
        res.bad(r, 'background-dropped', fx.loc(ctor[0]), 'the Minimize constructor no longer stores its background terms argument')
    mi = fx.func('opensmt::UnsatCoreBuilder::minimize')
    # the loop that fills the background is recognised by what it does (pushes its variable into the hidden/background vector); what it iterates over is then judged
    loops = [s for s in walk(mi['body']) if s.get('k') == 'loop' and s.get('kind') == 'range' and s.get('var') and
             any(x.get('k') == 'call' and mname(x) in ('push', 'push_back', 'emplace_back') and x.get('a') and path_of(x['a'][0]) == s['var'] and 'hidden' in (recv_path(x) or '').lower()
                 for x in walk(s['body']))]
    if len(loops) != 1:
        raise AnalysisBroken('UnsatCoreBuilder::minimize: expected one loop that collects the background terms, found %d' % len(loops))
    bl = loops[0]
    srcs = sorted({mname(x) for x in walk(bl.get('range')) if x.get('k') == 'call' and not callee(x).startswith('std::')})
    if any(m in ('getCurrentAssertionsView', 'getCurrentAssertions') for m in srcs):
        res.ok(r, 'minimize: the background is collected from %s' % srcs)
    else:
        res.bad(r, 'background-source', fx.loc(mi, bl.get('ln')), 'UnsatCoreBuilder::minimize collects the background from %s instead of the whole current assertion stack: unnamed assertions of the '
                'other levels are missing from the minimiser\'s background, so a named assertion that is redundant because of them stays in the "minimal" core' % (srcs or 'an unknown source'))
    c2 = BgWalk(bl.get('var'))
    pseudo = {'body': {'k': 'loop', 'kind': 'do', 'cond': {'k': 'lit', 'v': False, 't': 'bool'}, 'body': bl['body'], 'ln': bl.get('ln')}, 'lambdas': mi.get('lambdas', [])}
    eng = Engine(pseudo, c2)
    eng.run([(None, False)])
    if eng.broken:
        raise AnalysisBroken('minimize: %s' % eng.broken)
    bad = [st for st in c2.exits if (st[0] is not True and not st[1]) or (st[0] is True and st[1])]
    if bad or c2.unknown:
        res.bad(r, 'background-selection', fx.loc(mi, bl.get('ln')), 'UnsatCoreBuilder::minimize: a current assertion is left out of the background although it is not known to be named, or a named '
                'one is put in (path states %s%s): minimisation then runs against a weaker or different background than "all unnamed current assertions"'
                % (sorted(map(str, bad)), ('; other conditions: %s' % sorted(c2.unknown)) if c2.unknown else ''))
    else:
        res.ok(r, 'minimize: hiddenTerms gets every current assertion unless termNames.contains(term)')
    # whether an assertion is "named" must be a property of the assertion, not of its term: terms are hash-consed, so the same formula asserted once with and
    # once without a name is one PTRef, and a test on the term treats the unnamed occurrence as named too
    r2 = res.rule('named-status-per-assertion', 'the loop that builds the unnamed background decides "named" per assertion occurrence, not by asking whether the assertion\'s term has a name', floor=1)
    by_term = [x for x in walk(bl['body']) if x.get('k') == 'call' and mname(x) in ('contains', 'count', 'find', 'has') and x.get('a') and path_of(x['a'][0]) == bl.get('var')
               and 'TermNames' in ((x.get('cls') or '') + str(x.get('recv')))]
    if by_term:
        res.bad(r2, 'named-by-term-identity', fx.loc(mi, by_term[0].get('ln')), 'UnsatCoreBuilder::minimize leaves an assertion out of the unnamed background whenever its *term* has a name '
                '(termNames.%s(term)): a formula asserted both without and with a name is one hash-consed term, its unnamed occurrence is missing from the background, and the named one stays in '
                'the "minimal" core although it is redundant (replays/C07/same-formula-named-and-unnamed.smt2)' % mname(by_term[0]))
    else:
        res.ok(r2, 'minimize: the named / unnamed decision does not go through the term-keyed name table')
    mk = [x for x in fwalk(mi) if x.get('k') in ('new', 'init', 'call') and 'Minimize' in (x.get('t') or '') + (callee(x) if x.get('k') == 'call' else '')
          and any(y.get('k') == 'mem' and y.get('n') == 'hiddenTerms' or (y.get('k') == 'ref' and y.get('n') == 'hiddenTerms') for y in walk(x))]
    if mk:
        res.ok(r, 'minimize: Minimize constructed with hiddenTerms as background')
    else:
        res.bad(r, 'background-not-passed', fx.loc(mi), 'UnsatCoreBuilder::minimize no longer passes the collected unnamed assertions to the minimiser')
    return res


def size_aliases(f, cvec):
    out = set()
    for d in fwalk(f):
        if d.get('k') == 'decl' and d.get('init') is not None:
            i = see_through(d['init'])
            if isinstance(i, dict) and i.get('k') == 'call' and mname(i) in ('size', 'size_') and path_of(i.get('recv')) == cvec:
                out.add(d['n'])
    return out


def is_size(e, cvec, aliases):
    e = see_through(e)
    if isinstance(e, dict) and e.get('k') == 'ref' and e['n'] in aliases:
        return True
    return isinstance(e, dict) and e.get('k') == 'call' and mname(e) in ('size', 'size_') and path_of(e.get('recv')) == cvec


class IterWalk(Client):
    # (push depth, depth at trial check | None, verdict, kept, hard-asserted at depth 0, candidate asserted before the check, bool locals)
    INIT = (0, None, 'unknown', False, False, False, frozenset())

    def __init__(self, solver, cvec, idx):
        self.solver, self.cvec, self.idx = solver, cvec, idx
        self.cand_alias = set()
        self.res_vars = set()
        self.flag_vars = {}       # bool local -> ('unsat' | 'sat') meaning when true
        self.exits = set()
        self.unknown = set()

    def is_cand(self, e):
        e = see_through(e)
        if not isinstance(e, dict):
            return False
        if e.get('k') == 'ref' and e['n'] in self.cand_alias:
            return True
        return e.get('k') == 'call' and e.get('op') == '[]' and e.get('recv') is not None and path_of(e['recv']) == self.cvec and path_of(e['a'][0]) == self.idx

    def verdict_of(self, e):
        """meaning of a Boolean expression over the check result: ('unsat'|'sat', polarity) or None"""
        e = see_through(e)
        if not isinstance(e, dict):
            return None
        if e.get('k') == 'ref' and e['n'] in self.flag_vars:
            return self.flag_vars[e['n']], True
        if e.get('k') == 'un' and e.get('op') == '!':
            v = self.verdict_of(e['e'])
            return (v[0], not v[1]) if v else None
        if (e.get('k') == 'bin' and e.get('op') in ('==', '!=')) or (e.get('k') == 'call' and e.get('op') in ('==', '!=')):
            l, r_ = (e['l'], e['r']) if e.get('k') == 'bin' else (e['a'][0], e['a'][1]) if len(e.get('a') or []) == 2 else (e.get('recv'), e['a'][0])
            for a, b in ((l, r_), (r_, l)):
                a, b = see_through(a), see_through(b)
                if isinstance(a, dict) and a.get('k') == 'ref' and a['n'] in self.res_vars and isinstance(b, dict) and b.get('k') == 'ref':
                    lab = b['n'].split('::')[-1]
                    if lab in ('s_False', 's_True'):
                        return ('unsat' if lab == 's_False' else 'sat'), e.get('op') == '=='
        return None

    def on_decl(self, n, s):
        i = see_through(n.get('init')) if n.get('init') is not None else None
        if self.is_cand(i):
            self.cand_alias.add(n['n'])
        if isinstance(i, dict) and is_call(i, 'check', self.solver):
            self.res_vars.add(n['n'])
        v = self.verdict_of(i) if i is not None else None
        if v and 'bool' in (n.get('ct') or n.get('t') or ''):
            self.flag_vars[n['n']] = v[0] if v[1] else None
            if not v[1]:
                # negated meaning: remember as the opposite test
                self.flag_vars[n['n']] = 'not-' + v[0]
        return (s,)

    def on_call(self, n, s):
        depth, checked, verdict, kept, hard, early, flags = s
        if is_call(n, 'push', self.solver):
            return ((depth + 1, checked, verdict, kept, hard, early, flags),)
        if is_call(n, 'pop', self.solver):
            return ((depth - 1, checked, verdict, kept, hard, early, flags),)
        if is_call(n, 'check', self.solver):
            return ((depth, depth, verdict, kept, hard, early, flags),)
        if is_call(n, 'insertFormula', self.solver) and n.get('a') and self.is_cand(n['a'][0]):
            if checked is None:
                early = True
            if depth == 0:
                hard = True
            return ((depth, checked, verdict, kept, hard, early, flags),)
        if mname(n) in ('push', 'push_back', 'emplace_back') and n.get('a') and self.is_cand(n['a'][0]) and recv_path(n) not in (None, self.solver):
            return ((depth, checked, verdict, True, hard, early, flags),)
        return (s,)

    def on_cond(self, atom, s, branch):
        depth, checked, verdict, kept, hard, early, flags = s
        v = self.verdict_of(atom)
        if v is None:
            if id(atom) in getattr(self, 'loop_conds', ()):
                return s
            a = see_through(atom)
            txt = (atom.get('s') if isinstance(atom, dict) else None) or (callee(a).split('::')[-1] if isinstance(a, dict) and a.get('k') == 'call' else str(a.get('n') or a.get('op') if isinstance(a, dict) else a))
            self.unknown.add(txt)
            return s
        what, pol = v
        if what.startswith('not-'):
            what, pol = what[4:], not pol
        holds = (branch == pol)           # the verdict `what` holds on this branch
        if holds:
            new = what
        else:
            new = verdict if verdict not in ('unknown',) else ('not-' + what)
        if verdict in ('unsat', 'sat') and holds and verdict != what:
            return None                   # contradictory
        if verdict == 'not-' + what and holds:
            return None
        if verdict == what and not holds:
            return None
        return (depth, checked, new, kept, hard, early, flags)

    def on_exit(self, kind, node, s):
        if kind != 'throw':
            self.exits.add(s)


class BgWalk(Client):
    """one iteration of the loop collecting the background: (named?, pushed into the background)"""

    def __init__(self, var):
        self.var = var
        self.exits = set()
        self.unknown = set()

    def on_cond(self, atom, s, branch):
        a = see_through(atom)
        neg = False
        while isinstance(a, dict) and a.get('k') == 'un' and a.get('op') == '!':
            neg = not neg
            a = see_through(a['e'])
        if isinstance(a, dict) and a.get('k') == 'call' and mname(a) == 'contains' and a.get('a') and path_of(a['a'][0]) == self.var:
            return ((branch != neg), s[1])
        self.unknown.add((atom.get('s') if isinstance(atom, dict) else None) or str(a.get('k') if isinstance(a, dict) else a))
        return s

    def on_call(self, n, s):
        if mname(n) in ('push', 'push_back', 'emplace_back') and n.get('a') and path_of(n['a'][0]) == self.var and 'hidden' in (recv_path(n) or '').lower():
            return ((s[0], True),)
        return (s,)

    def on_exit(self, kind, node, s):
        if kind != 'throw':
            self.exits.add(s)
