"""C03 -- models produced after sat satisfy every current assertion: structural clauses (DESIGN 3-C03)."""
from build import AnalysisBroken
from core import Result
from facts import Facts, fwalk, walk, callee, path_of, recv_path, see_through
from prims import mname, is_call, as_assign, must_call
import satrules

LEVEL = 'other'
EXPLANATION = ('Decided: (1) when the simplifying solver reports sat, the model is extended to the eliminated variables (extendModel) before it is returned, and only '
               'elimination writes the reconstruction stack; frozen-variable guards as in C01 (a named or theory variable must never need reconstruction); '
               '(2) each engine copies the final assignment into the persistent model vector on its sat exit, and the Boolean model is read from that vector, never '
               'from the live assignment that clearSearch() destroys; (3) theory models are computed before the search state is cleared, under the same produce-models '
               'predicate that guards get-model, and the request is forwarded to every scheduled theory solver; (4) model queries are rejected (throw) unless the solver is '
               'in the sat state. Whether the values are right (delta computation, potentials, e-graph classes, evaluation) is not decided.')


def run(src, tier, seed):
    fx = Facts(src)
    res = Result('C03')
    res.assumptions += ['default build configuration, -UNDEBUG']
    # ---- R1 extension of eliminated variables
    r = res.rule('model-extension', 'SimpSMTSolver::solve_(bool,bool) calls extendModel() under `result == l_True`, after the inner solve_() and before returning; '
                 'the reconstruction stack elimclauses is written only by the elimination helpers', floor=2)
    ss = fx.func('opensmt::SimpSMTSolver::solve_', nparams=2)
    top = [s for s in ss['body']['c'] if isinstance(s, dict)]
    idx_inner = idx_ext = idx_ret = None
    var = None
    for i, s in enumerate(top):
        for n in walk(s):
            aa = as_assign(n) if isinstance(n, dict) else None
            if aa and any(is_call(x, 'solve_') and not x.get('a') for x in walk(aa[1])):
                idx_inner, var = i, path_of(aa[0])
        if s.get('k') == 'if' and any(is_call(x, 'extendModel') for x in walk(s['then'])):
            c = see_through(s['cond'])
            ok_cond = isinstance(c, dict) and c.get('op') == '==' and var is not None and var in str(c) and satrules.lbool_is((c.get('a') or [c.get('r')])[0] if c.get('k') == 'call' else c.get('r'), 0)
            if ok_cond:
                idx_ext = i
        if s.get('k') == 'ret':
            idx_ret = i
    if idx_inner is not None and idx_ext is not None and idx_ret is not None and idx_inner < idx_ext < idx_ret and \
            not any(as_assign(n) and path_of(as_assign(n)[0]) == var for s in top[idx_inner + 1:idx_ret] for n in walk(s) if isinstance(n, dict)):
        res.ok(r, 'solve_: %s = solve_(); if (%s == l_True) extendModel(); ... return %s' % (var, var, var))
    else:
        res.bad(r, 'no-model-extension', fx.loc(ss), 'SimpSMTSolver::solve_(bool,bool) no longer extends the model to the eliminated variables on every sat path: '
                'eliminated variables keep arbitrary values and get-model / get-value / get-assignment can contradict the assertions')
    writers = set()
    for f in fx.F.values():
        for n in fwalk(f):
            if n.get('k') == 'call' and not n.get('mc') and not n.get('as') and mname(n) in ('push', 'push_back', 'clear', 'shrink', 'pop', 'growTo'):
                rp = recv_path(n) or ''
                if rp.endswith('elimclauses'):
                    writers.add(f['name'])
    allowed = {'opensmt::mkElimClause', 'opensmt::SimpSMTSolver::eliminateVar', 'opensmt::SimpSMTSolver::SimpSMTSolver'}
    if writers and writers <= allowed:
        res.ok(r, 'elimclauses written only by %s' % sorted(writers))
    else:
        res.bad(r, 'elimclauses-writers', fx.loc(ss), 'the model reconstruction stack elimclauses is written by %s' % sorted(writers - allowed))
    satrules.elimination_rule(res, fx)

    # ---- R2 model vector
    r = res.rule('model-vector', 'each engine copies value(i) into `model` on its sat exit; the Boolean model is read from `model`', floor=3)
    for fname in ('opensmt::CoreSMTSolver::solve_', 'opensmt::LookaheadSMTSolver::solve_'):
        f = fx.func(fname, nparams=0)
        ok = False
        for n in walk(f['body']):
            if n.get('k') == 'if' and not n.get('as'):
                cs = str(n['cond'])
                if any(x.get('k') == 'loop' and any(as_assign(y) and (path_of(as_assign(y)[0]) or '').startswith('this.model') and any(is_call(z, 'value') for z in walk(as_assign(y)[1])) for y in walk(x['body']) if isinstance(y, dict))
                       for x in walk(n['then'])) and ('sat' in cs or satrules.lbool_is((see_through(n['cond']).get('a') or [None])[0], 0)):
                    ok = True
        if ok:
            res.ok(r, '%s: model[i] = value(i) for all variables on the sat exit' % fname)
        else:
            res.bad(r, 'model-not-copied:%s' % fname, fx.loc(f), '%s no longer copies the final assignment into the model vector on its sat exit' % fname)
    fb = fx.func('opensmt::CoreSMTSolver::fillBooleanVars')
    reads_model = any(x.get('k') == 'mem' and x.get('n') == 'model' for x in fwalk(fb))
    reads_live = any(is_call(x, 'value') or (x.get('k') == 'mem' and x.get('n') == 'assigns') for x in fwalk(fb) if not x.get('as'))
    if reads_model and not reads_live:
        res.ok(r, 'fillBooleanVars reads the persistent model vector only')
    else:
        res.bad(r, 'model-read-live', fx.loc(fb), 'CoreSMTSolver::fillBooleanVars reads the live assignment, which clearSearch() has already undone when get-model runs')

    # ---- R3 theory model computed before the search state is cleared
    r = res.rule('theory-model-before-clear', 'MainSolver::solve calls thandler->computeModel() under status == s_True && produce_models() before smt_solver->clearSearch(); '
                 'get-model is guarded by the same predicate and by a record that the model was computed; computeModel / fillTheoryFunctions are forwarded to every scheduled solver', floor=5)
    so = fx.func('opensmt::MainSolver::solve')
    order = [(mname(n), n) for n in fwalk(so) if n.get('k') == 'call' and mname(n) in ('computeModel', 'clearSearch') and not n.get('as')]
    names = [o[0] for o in order]
    guard_ok = False
    for n in walk(so['body']):
        if n.get('k') == 'if' and any(is_call(x, 'computeModel') for x in walk(n['then'])):
            cs = str(n['cond'])
            guard_ok = 's_True' in cs and 'produce_models' in cs and len([x for x in walk(n['cond']) if x.get('k') == 'call' and not x.get('op')]) <= 1
    if names == ['computeModel', 'clearSearch'] and guard_ok:
        res.ok(r, 'MainSolver::solve: computeModel (status == s_True && produce_models()) then clearSearch')
    else:
        res.bad(r, 'model-after-clear', fx.loc(so), 'MainSolver::solve no longer computes the theory model, under status == s_True && produce_models(), before clearSearch() backtracks the theory solvers (%s)' % names)
    gm = fx.func('opensmt::MainSolver::getModel')
    rej = [n for n in walk(gm['body']) if n.get('k') == 'if' and not n.get('as') and any(x.get('k') == 'throw' for x in walk(n['then']))]
    conds = ' '.join(str(n['cond']) for n in rej)
    if 'produce_models' in conds and 's_True' in conds:
        res.ok(r, 'getModel throws unless produce_models() and status == s_True')
    else:
        res.bad(r, 'getmodel-unguarded', fx.loc(gm), 'MainSolver::getModel no longer rejects the request when models are not produced or the state is not sat')
    # the option can be switched on after the check: the guard of getModel must also know that the theory model was computed by the check that produced the state
    flags = set()
    for n in walk(so['body']):
        if n.get('k') == 'if' and any(is_call(x, 'computeModel') for x in walk(n['then'])):
            for x in walk(n['then']):
                a = as_assign(x) if x.get('k') in ('bin', 'call') else None
                if a and (path_of(a[0]) or '').startswith('this.'):
                    flags.add(path_of(a[0]))
    reads = {path_of(x) for n in rej for x in [see_through(n['cond'])] + list(walk(n['cond'])) if isinstance(x, dict) and x.get('k') == 'mem'}
    reset_first = any(as_assign(x) and path_of(as_assign(x)[0]) in flags and str(see_through(as_assign(x)[1]).get('v')) == 'False' for x in fwalk(so) if x.get('k') in ('bin', 'call'))
    if flags & reads and reset_first:
        res.ok(r, 'getModel also rejects unless %s, which solve() sets together with computeModel() and clears before each check' % sorted(flags & reads))
    else:
        res.bad(r, 'model-availability-unrecorded', fx.loc(gm), 'MainSolver::getModel is guarded by the option and the status only: the theory solvers compute their model at check-sat and only if '
                ':produce-models is set at that moment, so (set-option :produce-models true) after a check-sat lets get-model read theory model storage that was never written '
                '(replays/C18/produce-models-enabled-late.smt2); solve() must record that the model was computed and getModel must test that record')
    for fname, inner in (('opensmt::TSolverHandler::computeModel', 'computeModel'), ('opensmt::TSolverHandler::fillTheoryFunctions', 'fillTheoryFunctions')):
        f = fx.func(fname)
        ok = any(x.get('k') == 'loop' and x.get('kind') == 'range' and 'solverSchedule' in str(x.get('range')) and any(is_call(y, inner) for y in walk(x['body'])) and
                 not any(y.get('k') in ('if', 'break', 'continue') and not y.get('as') for y in walk(x['body'])) for x in walk(f['body']))
        if ok:
            res.ok(r, '%s: unconditional loop over the solver schedule' % fname)
        else:
            res.bad(r, 'model-not-forwarded:%s' % inner, fx.loc(f), '%s no longer forwards to every scheduled theory solver' % fname)
    # ---- R4 queries rejected outside the sat state
    r = res.rule('model-queries-guarded', 'getTermValue / getModel reject (throw) unless status == s_True', floor=2)
    for fname in ('opensmt::MainSolver::getTermValue', 'opensmt::MainSolver::getModel'):
        f = fx.func(fname)
        rej = [n for n in walk(f['body']) if n.get('k') == 'if' and not n.get('as') and any(x.get('k') == 'throw' for x in walk(n['then'])) and 's_True' in str(n['cond'])]
        if rej:
            res.ok(r, '%s: throws when status != s_True' % fname)
        else:
            res.bad(r, 'query-unguarded:%s' % fname, fx.loc(f), '%s answers although the solver is not in the sat state' % fname)
    # ---- R5 fresh numeric values in UF+arithmetic models stay fresh
    r = res.rule('fresh-model-values', 'EgraphModelBuilder::computeNumericValues: every value recorded for a class in the collecting loop also raises the running maximum '
                 '(updateMaxValue with the same value), so that the fresh values max+1, max+2, ... handed to value-less classes cannot coincide with a value already in use; '
                 'the allocation loop advances the maximum after each fresh value', floor=3)
    cn = fx.func('opensmt::EgraphModelBuilder::computeNumericValues')

    def ins_value(n):
        if n.get('k') == 'call' and mname(n) == 'insert' and recv_path(n) == 'updatedValues' and len(n.get('a', [])) == 2:
            return path_of(n['a'][1]) or n['a'][1]
        return None
    n_ins = 0
    for blk in (b for b in walk(cn['body']) if b.get('k') == 'seq'):
        items = [x for x in blk['c'] if isinstance(x, dict)]
        for i, st in enumerate(items):
            if st.get('k') != 'e' or not isinstance(see_through(st.get('e')), dict):
                continue
            v = ins_value(see_through(st['e']))
            if v is None:
                continue
            n_ins += 1
            after = items[i + 1:]
            ok = False
            for a in after:
                for x in walk(a):
                    if x.get('k') == 'call' and x.get('op') == '()' and path_of(x.get('recv')) == 'updateMaxValue' and isinstance(v, str) and v in str(x.get('a')):
                        ok = True
                    aa = as_assign(x) if isinstance(x, dict) else None
                    if aa and path_of(aa[0]) == 'maxModelValue':
                        ok = True
            if ok:
                res.ok(r, 'line %s: recorded value also raises the maximum' % st.get('ln'))
            else:
                res.bad(r, 'value-not-counted:%s' % (v if isinstance(v, str) else 'expr'), fx.loc(cn, st.get('ln')), 'computeNumericValues records a value for a class (line %s) without raising the running maximum: '
                        'a later fresh value max+k can equal it, and two classes that must differ get the same value in the model' % st.get('ln'))
    if n_ins < 3:
        raise AnalysisBroken('computeNumericValues: expected three recording sites, found %d' % n_ins)
    # ---- R6 get-assignment answers true/false for every named Boolean term
    r = res.rule('assignment-vocabulary', 'Interpret::getAssignment prints only `true` or `false` as the value of a named term (SMT-LIB get-assignment has no third value) and lists Boolean terms only', floor=1)
    ga = fx.func('opensmt::Interpret::getAssignment')
    words = sorted({x['v'] for x in fwalk(ga) if x.get('k') == 'str' and x['v'] in ('true', 'false', 'unknown', 'undef', 'undefined')})
    if 'true' not in words or 'false' not in words:
        raise AnalysisBroken('getAssignment: the value vocabulary was not found')
    extra = [w for w in words if w not in ('true', 'false')]
    if extra:
        gv = fx.func('opensmt::MainSolver::getTermValue')
        res.bad(r, 'assignment-prints-%s' % extra[0], fx.loc(ga), 'Interpret::getAssignment prints `%s` for a named term whose value MainSolver::getTermValue reports as undefined (terms without a SAT literal: '
                'simplified away by preprocessing, or not Boolean), instead of its truth value in the model' % extra[0])
    else:
        res.ok(r, 'vocabulary %s' % words)
    # ---- the concrete infinitesimal: producer and consumer agree on its upper bound (two independent seeds removed the clamp)
    r = res.rule('delta-bound-contract', 'Simplex::computeDelta returns a literal bound U or a value known to be at most U on that path (an earlier `x > U` test returned U), and '
                 'LASolver::collectEqualitiesFor, which decides which interface terms may coincide in the model, cuts off at ratio < -U with the same U', floor=1)
    delta_contract(fx, res, r)
    return res


def num_lit(e):
    e = see_through(e)
    while isinstance(e, dict) and e.get('k') in ('new', 'init') and len(e.get('a') or e.get('e') or []) == 1:
        e = see_through((e.get('a') or e.get('e'))[0])
    if isinstance(e, dict) and e.get('k') == 'un' and e.get('op') == '-':
        v = num_lit(e['e'])
        return -v if v is not None else None
    if isinstance(e, dict) and e.get('k') == 'lit' and isinstance(e.get('v'), (int, float)) and not isinstance(e.get('v'), bool):
        return e['v']
    return None


def delta_contract(fx, res, r):
    cd = fx.func('opensmt::Simplex::computeDelta')
    top = [s_ for s_ in cd['body']['c'] if isinstance(s_, dict)]
    # early returns of the form  if (... || x > U) return U;
    clamps = {}      # variable -> U
    for s_ in top:
        if s_.get('k') == 'if' and not s_.get('as'):
            rets = [x for x in walk(s_['then']) if x.get('k') == 'ret']
            if len(rets) == 1 and num_lit(rets[0].get('e')) is not None:
                U = num_lit(rets[0]['e'])
                for c in walk(s_['cond']):
                    if c.get('k') in ('bin', 'call') and c.get('op') == '>':
                        l_ = c['l'] if c.get('k') == 'bin' else (c.get('recv') if c.get('recv') is not None else (c.get('a') or [None])[0])
                        r_ = c['r'] if c.get('k') == 'bin' else ((c.get('a') or [None])[0] if c.get('recv') is not None else (c.get('a') or [None, None])[1])
                        if path_of(l_) and num_lit(r_) == U:
                            clamps[path_of(l_).split('.')[0]] = U
    final = [s_ for s_ in top if s_.get('k') == 'ret']
    if not final:
        raise AnalysisBroken('Simplex::computeDelta: final return not found')
    U = None
    problems = []
    for rt in [x for x in walk(cd['body']) if x.get('k') == 'ret' and not x.get('as')]:
        v = num_lit(rt.get('e'))
        if v is not None:
            U = v if U is None else max(U, v)
            continue
        # value derived from a clamped variable, possibly divided by a constant >= 1
        e = see_through(rt['e'])
        div = 1
        if isinstance(e, dict) and e.get('k') in ('bin', 'call') and e.get('op') == '/':
            num = e['l'] if e.get('k') == 'bin' else (e.get('recv') if e.get('recv') is not None else e['a'][0])
            den = e['r'] if e.get('k') == 'bin' else (e['a'][0] if e.get('recv') is not None else e['a'][1])
            div = num_lit(den)
            e = see_through(num)
        base = None
        for x in walk(e):
            if x.get('k') == 'ref' and x.get('n') in clamps:
                base = x['n']
        if base is None or div is None or div < 1:
            problems.append('the value returned at line %s is not bounded: no earlier `x > U` test returns U for it' % rt.get('ln'))
        else:
            U = clamps[base] if U is None else max(U, clamps[base])
    if problems or U is None:
        res.bad(r, 'delta-unbounded', fx.loc(cd), 'Simplex::computeDelta: %s; LASolver::collectEqualitiesFor assumes 0 < delta <= 1 when it decides which interface terms may get the same value, '
                'so with a larger delta two terms the e-graph keeps apart can coincide and the model falsifies an assertion' % ('; '.join(problems) or 'no bound found'))
        return
    res.ok(r, 'computeDelta returns at most %s on every path' % U)
    ce = fx.func('opensmt::LASolver::collectEqualitiesFor')
    cuts = []
    for n in walk(ce['body']):
        if n.get('k') == 'if' and not n.get('as') and any(x.get('k') == 'continue' for x in walk(n['then'])):
            for c in walk(n['cond']):
                if c.get('k') in ('bin', 'call') and c.get('op') == '<':
                    r_ = c['r'] if c.get('k') == 'bin' else ((c.get('a') or [None])[0] if c.get('recv') is not None else (c.get('a') or [None, None])[1])
                    v = num_lit(r_)
                    if v is not None and v < 0:
                        cuts.append(v)
    if not cuts:
        raise AnalysisBroken('LASolver::collectEqualitiesFor: the cut-off `ratio < -bound` was not found')
    if all(-c >= U for c in cuts):
        res.ok(r, 'collectEqualitiesFor considers every delta up to %s (cut-off %s)' % (max(-c for c in cuts), cuts))
    else:
        res.bad(r, 'delta-bound-mismatch', fx.loc(ce), 'LASolver::collectEqualitiesFor ignores coincidences for delta above %s but Simplex::computeDelta can return up to %s' % (min(-c for c in cuts), U))
