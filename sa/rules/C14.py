"""C14 -- term constructors return equivalent terms: the Boolean simplifying constructors (DESIGN 9.3-C14)."""
from build import AnalysisBroken
from core import Result
from facts import Facts
import boolctor
from boolctor import Unmodelled, show, neg

LEVEL = 'other'
EXPLANATION = ('Decides the Boolean simplifying constructors only: Logic::mkNot, mkXor, mkImpl, mkIte, mkBinaryEq (on Boolean arguments), mkAnd and mkOr touch their arguments only through '
               'identity comparisons and the predicates isTrue / isFalse / isNot, so their behaviour is a function of a finite set of argument patterns. Every pattern over the '
               'shapes {true, false, x, (not x), y, (not y), z, (not z)} (all pairs / triples; argument lists up to length 3 for and/or, under three creation orders of the atoms) is '
               'pushed through the constructor\'s decision structure by an abstract evaluator over the mini-AST (nothing is compiled or run), and the shape returned is compared with '
               'the operator\'s definition by a truth table. Nested constructor calls use the definition of the callee (each is checked on its own). Arithmetic constructors, '
               'equality over non-Boolean sorts, select/store and longer argument lists are value-level and not decided. Logic::mkDistinct is checked the same way on arguments of a '
               'value sort: two constants (different values) and two variables, lists of length 0-4, against "pairwise different".')


def run(src, tier, seed):
    fx = Facts(src)
    res = Result('C14')
    res.assumptions += ['hash-consing gives syntactically equal terms the same PTRef (C28 rules), so identity comparison of shapes models PTRef comparison',
                        'the constants true and false are created before every other term (Logic constructor), atoms in one of three tried orders']
    ctor_eval = {
        'mkNot': lambda a: neg(a[0]),
        'mkAnd': lambda a: ('and',) + tuple(a),
        'mkOr': lambda a: ('or',) + tuple(a),
        'mkXor': lambda a: ('xor',) + tuple(a),
        'mkImpl': lambda a: ('or', neg(a[0]), a[1]),
        'mkBinaryEq': lambda a: ('eq',) + tuple(a),
        'mkEq': lambda a: ('eq',) + tuple(a),
    }
    pick = {
        'mkNot': lambda g: len(g['params']) == 1 and 'vec' not in g['params'][0]['t'],
        'mkXor': lambda g: len(g['params']) == 1 and 'vec' in g['params'][0]['t'],
        'mkImpl': lambda g: len(g['params']) == 1 and 'vec' in g['params'][0]['t'],
        'mkIte': lambda g: len(g['params']) == 1 and 'vec' in g['params'][0]['t'],
        'mkBinaryEq': lambda g: len(g['params']) == 2 and g['file'].endswith('Logic.cc'),
        'mkAnd': lambda g: len(g['params']) == 1 and 'vec' in g['params'][0]['t'] and g['eline'] - g['line'] > 10,
        'mkOr': lambda g: len(g['params']) == 1 and 'vec' in g['params'][0]['t'] and g['eline'] - g['line'] > 10,
    }
    r = res.rule('boolean-constructor-equivalent', 'for every argument pattern the term shape returned by the constructor is equivalent to the operator applied to the arguments (truth table over x, y, z)', floor=500)
    for name in ('mkNot', 'mkXor', 'mkImpl', 'mkBinaryEq', 'mkIte', 'mkAnd', 'mkOr'):
        f = fx.func('opensmt::Logic::' + name, pred=pick[name])
        ev = dict(ctor_eval)
        ev.pop(name, None) if name not in ('mkNot',) else None
        try:
            if name in boolctor.DEFS:
                n, bad = boolctor.check_constructor(fx, f, name, ev)
            else:
                n, bad = boolctor.check_nary(fx, f, name, ev, max_len=4 if tier == 'thorough' else 3, all_orders=(tier == 'thorough'))
        except Unmodelled as e:
            raise AnalysisBroken('Logic::%s is outside the modelled subset: %s' % (name, e))
        for combo, out, why in bad[:3]:
            res.bad(r, 'not-equivalent:%s' % name, fx.loc(f), 'Logic::%s(%s) returns %s, which is not equivalent to the operator applied to the arguments (%s)%s'
                    % (name, ', '.join(show(s) for s in combo), show(out), ('falsified by %s' % why) if isinstance(why, dict) else why,
                       '; %d more pattern(s)' % (len(bad) - 1) if len(bad) > 1 else ''))
            break
        r['instances'] += n - (1 if bad else 0)
        if not bad:
            r['sites'].append('Logic::%s: %d argument patterns' % (name, n))
    # ---- distinct over a value sort
    f = fx.func('opensmt::Logic::mkDistinct')
    ev = dict(ctor_eval)
    ev['mkDistinct'] = lambda a: ('distinct',) + tuple(a)
    try:
        n, bad = boolctor.check_distinct(fx, f, ev, max_len=5 if tier == 'thorough' else 4)
    except Unmodelled as e:
        raise AnalysisBroken('Logic::mkDistinct is outside the modelled subset: %s' % e)
    for combo, out, why in bad[:1]:
        res.bad(r, 'not-equivalent:mkDistinct', fx.loc(f), 'Logic::mkDistinct(%s) returns %s, which is not equivalent to "the arguments are pairwise different" (%s)%s'
                % (', '.join(show(s) for s in combo), show(out), ('falsified by %s' % why) if isinstance(why, dict) else why, '; %d more pattern(s)' % (len(bad) - 1) if len(bad) > 1 else ''))
    r['instances'] += n - (1 if bad else 0)
    if not bad:
        r['sites'].append('Logic::mkDistinct: %d argument patterns over constants c0, c1 and variables u, v of a value sort' % n)
    return res
