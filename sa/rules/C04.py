"""C04 -- incremental answers equal fresh answers: structural clauses (DESIGN 3-C04)."""
from build import AnalysisBroken
from core import Result
from facts import Facts, fwalk, walk, callee, path_of, recv_path, see_through
from prims import (PUSH_POP, mname, is_call, ret_value, must_call, lockstep, member_scope_calls, callers_of)

LEVEL = 'other'
EXPLANATION = ('All-paths structural rules on the assertion-stack machinery: every scoped member pushed by MainSolver::push / '
               'Preprocessor::push[Internal] is popped on every successful path of the matching pop; Interpret keeps its define-fun '
               'scopes in lockstep with solver pushes/pops; pop lowers the simplification frontier and restores ok unless the frame '
               'is marked unsat; push propagates the unsat mark; CNF caches are keyed by frame; every engine that calls analyzeFinal '
               'sets conflict_frame; per-check reset calls are on every path; a flag a callee guards on is written before the call. '
               'Decides these clauses, not that learnt facts are logically confined to frames.')

# push-like calls in a push function that deliberately have no pop partner (reason each)
PAIR_EXCEPTIONS = {
    ('opensmt::MainSolver::push', 'this.frameTerms'): 'vec append indexed by the never-reused frame id (frames.last().getId()); frame terms persist by design',
}


def pair_rule(res, fx, rname, push_name, pop_name, floor):
    r = res.rule(rname, 'every member scope-pushed in %s is popped on every successful exit of %s' % (push_name, pop_name), floor=floor)
    fp, fq = fx.func(push_name), fx.func(pop_name)
    expected = []
    for rp, m, ln, nargs in member_scope_calls(fp):
        if (push_name, rp) in PAIR_EXCEPTIONS:
            res.notes.append('%s: %s.%s has no pop partner: %s' % (push_name, rp, m, PAIR_EXCEPTIONS[(push_name, rp)]))
            continue
        if m in ('push_back', 'emplace_back'):
            continue
        expected.append((rp, m))
    if not expected:
        raise AnalysisBroken('%s performs no scope push: anchor drifted' % push_name)
    reqs = {}
    for rp, m in expected:
        if m == '++':
            reqs['%s--' % rp] = (lambda n, rp=rp: n.get('k') == 'un' and n['op'] == '--' and path_of(n['e']) == rp)
        else:
            reqs['%s.%s' % (rp, '/'.join(PUSH_POP[m]))] = (lambda n, rp=rp, m=m: n.get('k') == 'call' and mname(n) in PUSH_POP[m] and recv_path(n) == rp)
    exits, eng = must_call(fq, reqs)
    if eng.broken:
        raise AnalysisBroken('%s: %s' % (pop_name, eng.broken))
    is_bool = fq['ret'] == 'bool'
    nexits = 0
    for req in reqs:
        missing_at = []
        for kind, node, st in exits:
            if kind == 'throw':
                continue
            if is_bool and kind == 'return' and ret_value(node) is False:
                continue
            nexits += 1
            if req not in st:
                missing_at.append(node.get('ln') if isinstance(node, dict) else 'end')
        if missing_at:
            res.bad(r, 'unpaired:%s:%s' % (pop_name, req), fx.loc(fq), '%s does not perform %s on the path(s) leaving at line(s) %s although %s pushes it'
                    % (pop_name, req, sorted(set(map(str, missing_at))), push_name))
        else:
            res.ok(r, '%s: %s on all %s successful exits' % (pop_name, req, 'bool-true/unknown' if is_bool else 'normal'))
    # symmetry the other way: pop-like calls in pop with no push partner
    back = {v: k for k, vs in PUSH_POP.items() for v in vs}
    pushed = {rp for rp, m in expected}
    for n in fwalk(fq):
        if n.get('k') == 'call' and mname(n) in back and not n.get('as'):
            rp = recv_path(n)
            if rp and rp.startswith('this.') and rp not in pushed and mname(n) not in ('pop_back',):
                res.bad(r, 'unpaired-pop:%s:%s' % (pop_name, rp), fx.loc(fq, n['ln']), '%s pops %s which %s never pushes' % (pop_name, rp, push_name))


def run(src, tier, seed):
    fx = Facts(src)
    res = Result('C04')
    res.assumptions += ['default build configuration, analysed with -UNDEBUG; assert(...) expansions produce no events',
                        'member scopes are recognised by method names push/pushScope/pushInternal/pushBacktrackPoint and ++/-- on members']
    # ---- R1/R2 scope pairs
    pair_rule(res, fx, 'stack-pairs:MainSolver', 'opensmt::MainSolver::push', 'opensmt::MainSolver::pop', 3)
    pair_rule(res, fx, 'stack-pairs:Preprocessor', 'opensmt::MainSolver::Preprocessor::push', 'opensmt::MainSolver::Preprocessor::pop', 1)
    pair_rule(res, fx, 'stack-pairs:PreprocessorInternal', 'opensmt::MainSolver::Preprocessor::pushInternal', 'opensmt::MainSolver::Preprocessor::popInternal', 3)

    # ---- R3 Interpret keeps define-fun scopes in lockstep with the solver's stack
    r = res.rule('interp-lockstep', 'Interpret::push: each defined_functions.pushScope is followed by main_solver->push before the next one/exit; '
                 'Interpret::pop: each successful main_solver->pop is followed by defined_functions.popScope, never one without the other', floor=2)
    ipush = fx.func('opensmt::Interpret::push')
    ipop = fx.func('opensmt::Interpret::pop')
    c, eng = lockstep(ipush, lambda n: is_call(n, 'pushScope', 'this.defined_functions'), lambda n: is_call(n, 'push', 'this.main_solver'))
    if c.counts['a'] == 0 or c.counts['b'] == 0:
        raise AnalysisBroken('Interpret::push no longer calls defined_functions.pushScope / main_solver->push')
    if c.errors or eng.broken:
        res.bad(r, 'lockstep:Interpret::push', fx.loc(ipush), 'define-fun scope and solver push are not in lockstep: %s' % (c.errors or eng.broken))
    else:
        res.ok(r, fx.loc(ipush) + ' (pushScope ; push)*')
    c, eng = lockstep(ipop, lambda n: is_call(n, 'pop', 'this.main_solver'), lambda n: is_call(n, 'popScope', 'this.defined_functions'), result_guard=True)
    if c.counts['a'] == 0 or c.counts['b'] == 0:
        raise AnalysisBroken('Interpret::pop no longer calls main_solver->pop / defined_functions.popScope')
    if c.errors or eng.broken:
        res.bad(r, 'lockstep:Interpret::pop', fx.loc(ipop), 'solver pop and define-fun scope pop are not in lockstep: %s' % (c.errors or eng.broken))
    else:
        res.ok(r, fx.loc(ipop) + ' (pop[ok] ; popScope)*')

    # ---- R4 pop lowers the frontier and restores ok
    mpop = fx.func('opensmt::MainSolver::pop')
    r = res.rule('pop-resets', 'every successful path of MainSolver::pop assigns firstNotSimplifiedFrame (bounded by the new frame count) and calls '
                 'restoreOK unless the remaining top frame is marked unsat', floor=2)
    reqs = {
        'frontier': lambda n: n.get('k') == 'bin' and n['op'] == '=' and path_of(n['l']) == 'this.firstNotSimplifiedFrame'
        and any(is_call(x, 'frameCount') for x in walk(n['r'])),
        'restoreOK': lambda n: is_call(n, 'restoreOK'),
    }
    flags = {'lastUnsat': lambda a: is_call(a, 'isLastFrameUnsat')}
    exits, eng = must_call(mpop, reqs, flags)
    bad_f, bad_r, n_ok = [], [], 0
    for kind, node, st in exits:
        if kind != 'return' or ret_value(node) is False:
            continue
        n_ok += 1
        if 'frontier' not in st:
            bad_f.append(node['ln'])
        if 'restoreOK' not in st and 'lastUnsat=T' not in st:
            bad_r.append(node['ln'])
    if n_ok == 0:
        raise AnalysisBroken('MainSolver::pop has no successful exit')
    if bad_f:
        res.bad(r, 'pop-frontier', fx.loc(mpop), 'MainSolver::pop can succeed (return at %s) without lowering firstNotSimplifiedFrame to the new frame count' % bad_f)
    else:
        res.ok(r, 'firstNotSimplifiedFrame lowered on %d successful exit(s)' % n_ok)
    if bad_r:
        res.bad(r, 'pop-restoreOK', fx.loc(mpop), 'MainSolver::pop can succeed (return at %s) without restoreOK() although the remaining frame is not marked unsat' % bad_r)
    else:
        res.ok(r, 'restoreOK unless isLastFrameUnsat on %d successful exit(s)' % n_ok)

    # ---- R5 push propagates the unsat mark
    mpush = fx.func('opensmt::MainSolver::push')
    r = res.rule('push-propagates-unsat', 'MainSolver::push: if the top frame was marked unsat before frames.push(), the new frame is marked too', floor=1)
    reqs = {'remember': lambda n: is_call(n, 'rememberLastFrameUnsat'), 'framespush': lambda n: is_call(n, 'push', 'this.frames')}
    exits, eng = must_call(mpush, reqs, {'lastUnsat': lambda a: is_call(a, 'isLastFrameUnsat')})
    bad = [st for kind, node, st in exits if kind != 'throw' and 'lastUnsat=F' not in st and 'remember' not in st]
    sampled = [st for kind, node, st in exits if 'lastUnsat=T' in st or 'lastUnsat=F' in st]
    # the predicate must be evaluated before frames.push (otherwise it reads the new frame)
    order_ok = False
    seen_pred = False
    for n in fwalk(mpush):
        if is_call(n, 'isLastFrameUnsat'):
            seen_pred = True
        if is_call(n, 'push', 'this.frames'):
            order_ok = seen_pred
            break
    if bad or not order_ok:
        res.bad(r, 'push-unsat-mark', fx.loc(mpush), 'MainSolver::push does not carry the unsat mark of the previous top frame to the new frame '
                '(missing rememberLastFrameUnsat on the marked path, or the mark is read after frames.push)')
    else:
        res.ok(r, fx.loc(mpush))

    # ---- R6 check(): early s_False iff marked; R7 insertFormula lowers the frontier
    mcheck = fx.func('opensmt::MainSolver::check')
    r = res.rule('check-early-unsat', 'MainSolver::check returns s_False before simplifying when the top frame is marked unsat, and marks a frame only after an s_False verdict', floor=2)
    first = None
    for n in fwalk(mcheck):
        if n.get('k') == 'call' and mname(n) in ('isLastFrameUnsat', 'simplifyFormulas', 'solve'):
            first = first or mname(n)
    okearly = False
    for n in walk(mcheck['body']):
        if n.get('k') == 'if' and is_call(see_through(n['cond']), 'isLastFrameUnsat'):
            rets = [x for x in walk(n['then']) if x.get('k') == 'ret']
            okearly = bool(rets) and all(ret_value(x) == 's_False' for x in rets)
    if first == 'isLastFrameUnsat' and okearly:
        res.ok(r, fx.loc(mcheck) + ' early return')
    else:
        res.bad(r, 'check-early-unsat', fx.loc(mcheck), 'MainSolver::check no longer answers s_False up front for a frame already marked unsat')
    exits, eng = must_call(mcheck, {'remember': lambda n: is_call(n, 'rememberUnsatFrame')},
                           {'isFalse': lambda a: isinstance(a, dict) and a.get('k') in ('bin', 'call') and
                            (a.get('op') == '==') and any(x.get('k') == 'ref' and x['n'].endswith('s_False') for x in walk(a))})
    badm = [st for k, nd, st in exits if 'remember' in st and 'isFalse=T' not in st]
    if badm:
        res.bad(r, 'remember-only-on-false', fx.loc(mcheck), 'rememberUnsatFrame is reachable on a path where the verdict was not tested to be s_False')
    else:
        res.ok(r, 'rememberUnsatFrame only under rval == s_False')
    ins = fx.func('opensmt::MainSolver::insertFormula')
    r = res.rule('insert-lowers-frontier', 'every normal path of MainSolver::insertFormula that adds to frames lowers firstNotSimplifiedFrame', floor=1)
    exits, eng = must_call(ins, {'add': lambda n: is_call(n, 'add', 'this.frames'),
                                 'frontier': lambda n: n.get('k') == 'bin' and n['op'] == '=' and path_of(n['l']) == 'this.firstNotSimplifiedFrame'})
    badi = [nd for k, nd, st in exits if k != 'throw' and 'add' in st and 'frontier' not in st]
    noadd = [nd for k, nd, st in exits if k != 'throw' and 'add' not in st]
    if badi or noadd:
        res.bad(r, 'insert-frontier', fx.loc(ins), 'insertFormula can return normally %s' % ('without frames.add' if noadd else 'after frames.add without lowering firstNotSimplifiedFrame'))
    else:
        res.ok(r, fx.loc(ins))

    # ---- R8 frame-keyed CNF caches
    r = res.rule('frame-keyed-cache', 'Cnfizer::Cache looks terms up under (term, frame) or (term, baseFrame) only, inserts (term, frame), and every user passes its current frame id', floor=4)
    cont = fx.func('opensmt::Cnfizer::Cache::contains')
    insf = fx.func('opensmt::Cnfizer::Cache::insert')
    finds = [n for n in fwalk(cont) if n.get('k') == 'call' and mname(n) == 'find' and not n.get('as')]
    saw_frame = False
    for n in finds:
        key = n['a'][0] if n['a'] else None
        elts = key_elts(key)
        second = path_of(elts[1]) if elts and len(elts) == 2 else None
        if second == 'frame':
            saw_frame = True
            res.ok(r, fx.loc(cont, n['ln']) + ' find({term, frame})')
        elif second == 'this.baseFrame':
            res.ok(r, fx.loc(cont, n['ln']) + ' find({term, baseFrame})')
        else:
            res.bad(r, 'cache-key:contains', fx.loc(cont, n['ln']), 'Cache::contains looks up a key whose frame component is %s, not the queried frame or the base frame' % second)
    if not saw_frame:
        res.bad(r, 'cache-key:contains-noframe', fx.loc(cont), 'Cache::contains never looks up the queried frame')
    # any other access to `cache` in contains (iteration etc.) bypasses the frame key
    for n in fwalk(cont):
        if n.get('k') == 'loop':
            res.bad(r, 'cache-key:contains-loop', fx.loc(cont, n.get('ln')), 'Cache::contains iterates instead of a frame-keyed lookup')
    insk = [n for n in fwalk(insf) if n.get('k') == 'call' and mname(n) in ('insert', 'emplace') and recv_path(n) == 'this.cache']
    if not insk:
        raise AnalysisBroken('Cnfizer::Cache::insert performs no insert')
    for n in insk:
        key = n['a'][0] if n['a'] else None
        elts = key_elts(key) or (n['a'] if len(n['a']) == 2 else None)
        second = path_of(elts[1]) if elts and len(elts) == 2 else None
        if second == 'frame':
            res.ok(r, fx.loc(insf, n['ln']) + ' insert({term, frame})')
        else:
            res.bad(r, 'cache-key:insert', fx.loc(insf, n['ln']), 'Cache::insert stores a key whose frame component is %s' % second)
    users = callers_of(fx, pred=lambda n: callee(n) in ('opensmt::Cnfizer::Cache::contains', 'opensmt::Cnfizer::Cache::insert'))
    for f, n in users:
        if f['name'].startswith('opensmt::Cnfizer::Cache::'):
            continue
        a = path_of(n['a'][1]) if len(n['a']) > 1 else None
        if a in ('frame_id', 'currentFrameId', 'this.currentFrameId', 'this.frame_id', 'frameId'):
            res.ok(r, '%s passes %s' % (fx.loc(f, n['ln']), a))
        else:
            res.bad(r, 'cache-user:%s' % f['name'], fx.loc(f, n['ln']), '%s passes %s as the frame of a cache query' % (f['name'], a))

    # ---- R9 every engine that calls analyzeFinal records the conflict frame
    r = res.rule('conflict-frame', 'every function that calls analyzeFinal assigns conflict_frame afterwards on every path that then returns the unsat verdict', floor=2)
    an_callers = {}
    for f, n in callers_of(fx, 'opensmt::CoreSMTSolver::analyzeFinal'):
        an_callers.setdefault(f['id'], f)
    if len(an_callers) < 2:
        raise AnalysisBroken('expected >= 2 callers of analyzeFinal (CDCL and lookahead engines), found %d' % len(an_callers))
    for f in an_callers.values():
        exits, eng = must_call(f, {'final': lambda n: is_call(n, 'analyzeFinal'),
                                   'cf': lambda n: n.get('k') == 'bin' and n['op'] == '=' and (path_of(n['l']) or '').endswith('conflict_frame')})
        # order: the assignment must come after analyzeFinal: check per exit that both are present and, structurally, that an assignment follows the call
        bad = [nd for k, nd, st in exits if k == 'return' and 'final' in st and 'cf' not in st]
        if bad:
            res.bad(r, 'conflict-frame:%s' % f['name'], fx.loc(f), '%s returns after analyzeFinal without setting conflict_frame (return at line(s) %s)'
                    % (f['name'], sorted({b.get('ln') for b in bad})))
        else:
            res.ok(r, f['name'])
    # the value: one more than the largest assumption order among *all* positive literals of the final conflict (the negated failing assumption, which has the
    # highest order, is conflict[0]).  The block between analyzeFinal and the assignment is evaluated abstractly in every engine.
    from boolctor import Interp, Unmodelled, Thrown
    rv = res.rule('conflict-frame-value', 'in every engine the statements between analyzeFinal and the assignment of conflict_frame, evaluated abstractly on three final conflicts, give 1 + the '
                  'largest assumption order over all positive literals of the conflict, wherever in the vector that literal stands', floor=1)
    for f in an_callers.values():
        done = False
        for blk in (b for b in walk(f['body'], f.get('lambdas')) if b.get('k') == 'seq'):
            items = [x for x in blk.get('c') or [] if isinstance(x, dict)]
            i0 = next((i for i, st in enumerate(items) if st.get('k') == 'e' and is_call(see_through(st['e']), 'analyzeFinal')), None)
            i1 = next((i for i, st in enumerate(items) if st.get('k') == 'e' and isinstance(see_through(st['e']), dict) and see_through(st['e']).get('k') == 'bin' and
                       see_through(st['e']).get('op') == '=' and (path_of(see_through(st['e'])['l']) or '').endswith('conflict_frame')), None)
            if i0 is None or i1 is None or i1 < i0:
                continue
            done = True
            problems = []
            for lits, want in (([('a', False), ('b', False), ('c', True)], 4), ([('b', False), ('a', False)], 4), ([('c', True), ('b', False)], 2)):
                order = {('var', 'a'): 3, ('var', 'b'): 1, ('var', 'c'): 2}
                it = Interp(fx, f, '?', {})
                it.oracle = {'analyzeFinal': lambda i, a, n: None, 'sign': lambda i, a, n: a[0][2], 'var': lambda i, a, n: ('var', a[0][1]), 'op:~': lambda i, a, n: ('lit', a[0][1], not a[0][2])}
                it.env = {'this.conflict': [('lit', v_, sg_) for v_, sg_ in lits], 'conflict': [('lit', v_, sg_) for v_, sg_ in lits], 'this.assumptions_order': order, 'assumptions_order': order,
                          'p': ('lit', 'p', False), 'this.conflict_frame': 0}
                it.steps = 0
                try:
                    for st in items[i0:i1 + 1]:
                        it.block(st)
                except (Unmodelled, Thrown) as e:
                    raise AnalysisBroken('%s: the conflict-frame computation is outside the modelled subset: %s' % (f['name'], e))
                got = it.env.get('this.conflict_frame')
                if got != want:
                    problems.append('for the final conflict %s (orders a=3, b=1, c=2) it computes %s, expected %s' % ([('-' if sg_ else '') + v_ for v_, sg_ in lits], got, want))
            if problems:
                res.bad(rv, 'conflict-frame-too-low:%s' % f['name'].split('::')[-1], fx.loc(f, items[i1].get('ln')), '%s: %s: a lower frame than the failing one is remembered as unsat, and check-sat keeps '
                        'answering unsat after the real culprit has been popped (the engines then contradict each other)' % (f['name'].replace('opensmt::', ''), '; '.join(problems)))
            else:
                res.ok(rv, '%s: 1 + max order over all positive literals' % f['name'].replace('opensmt::', ''))
        if not done:
            if not any(n.get('k') == 'bin' and n.get('op') == '=' and (path_of(n['l']) or '').endswith('conflict_frame') for n in fwalk(f)):
                continue               # no assignment at all: reported by the rule above
            raise AnalysisBroken('%s: analyzeFinal and the conflict_frame assignment are not in one block' % f['name'])
    writers = set()
    for f in fx.F.values():
        for n in fwalk(f):
            if n.get('k') == 'bin' and n['op'] == '=' and (path_of(n['l']) or '').endswith('conflict_frame'):
                writers.add(f['name'])
    res.extra['conflict_frame_writers'] = sorted(writers)
    # the verdict state set at an assumption conflict (ok = false happens in the same engines) is reset as a whole when a level is popped
    ro = fx.func('opensmt::CoreSMTSolver::restoreOK')
    reset = {(path_of(n['l']) or '').split('.')[-1] for n in fwalk(ro) if n.get('k') == 'bin' and n['op'] == '='}
    need = {'ok', 'conflict_frame'}
    if need <= reset:
        res.ok(r, 'restoreOK resets %s' % sorted(need))
    else:
        res.bad(r, 'conflict-frame:restoreOK-partial', fx.loc(ro), 'CoreSMTSolver::restoreOK resets %s but not %s: the conflict frame of a popped unsat level survives and a later '
                'unsat verdict is attributed to the wrong level' % (sorted(reset), sorted(need - reset)))

    # ---- R10 per-check reset
    r = res.rule('per-check-reset', 'each engine declares the current variables to the theories (clearing theory state) before searching, and MainSolver::solve clears the search after every solve_', floor=3)
    for nm in ('opensmt::CoreSMTSolver::solve_', 'opensmt::LookaheadSMTSolver::solve_'):
        for f in fx.funcs(nm):
            searchers = [n for n in fwalk(f) if n.get('k') == 'call' and mname(n) in ('search', 'lookaheadLoop', 'buildAndTraverse')]
            if not searchers:
                continue
            exits = []
            seen_decl = False
            okorder = True
            for n in fwalk(f):
                if is_call(n, 'declareVarsToTheories'):
                    seen_decl = True
                if n.get('k') == 'call' and mname(n) in ('search', 'lookaheadLoop', 'buildAndTraverse') and not seen_decl:
                    okorder = False
            ex, eng = must_call(f, {'decl': lambda n: is_call(n, 'declareVarsToTheories'), 'search': lambda n: n.get('k') == 'call' and mname(n) in ('search', 'lookaheadLoop', 'buildAndTraverse')})
            bad = [nd for k, nd, st in ex if 'search' in st and 'decl' not in st]
            if bad or not okorder:
                res.bad(r, 'reset:%s' % nm, fx.loc(f), '%s can search without declareVarsToTheories() first' % nm)
            else:
                res.ok(r, '%s: declareVarsToTheories precedes search' % nm)
    msolve = fx.func('opensmt::MainSolver::solve')
    ex, eng = must_call(msolve, {'solve_': lambda n: is_call(n, 'solve_'), 'clear': lambda n: is_call(n, 'clearSearch')})
    bad = [nd for k, nd, st in ex if k != 'throw' and 'solve_' in st and 'clear' not in st]
    if bad:
        res.bad(r, 'reset:MainSolver::solve', fx.loc(msolve), 'MainSolver::solve can return after solve_ without clearSearch()')
    else:
        res.ok(r, 'MainSolver::solve: clearSearch after solve_ on every normal exit')
    dv = fx.func('opensmt::CoreSMTSolver::declareVarsToTheories')
    if any(is_call(n, 'clear') and (recv_path(n) or '').endswith('theory_handler') for n in fwalk(dv)):
        res.ok(r, 'declareVarsToTheories clears the theory handler')
    else:
        res.bad(r, 'reset:declareVarsToTheories', fx.loc(dv), 'declareVarsToTheories no longer clears the theory handler state')

    # ---- R11 a flag a callee guards on must be written before the call
    stale_guard_rule(res, fx)
    res.extra['units'] = fx.stats['units']
    # ---- variables of a newly added clause are decision variables again (a check switches clause-less variables off)
    r = res.rule('added-clause-reactivates-variables', 'in every addOriginalSMTClause that (re)activates variables, each iteration of the loop over the clause\'s literals reaches, on every path, a '
                 'call that makes the variable a decision variable again (a function assigning decision[v]): a check-sat switches variables without clauses off, and a variable that '
                 'reappears in a later clause must be branched on', floor=1)
    from walk import Client, Engine
    setters = {f['id'] for f in fx.F.values() if f.get('body') and f['name'].startswith('opensmt::') and
               any(n.get('k') in ('bin',) and n.get('op') == '=' and (path_of(n['l']) or '').startswith('this.decision[') for n in fwalk(f))}
    for _ in range(2):
        setters |= {f['id'] for f in fx.F.values() if f.get('body') and f['name'].startswith('opensmt::') and f['name'].split('::')[-1] in ('addVar_', 'addVar', 'setDecisionVar') and
                    any(n.get('k') == 'call' and set(fx.targets(n)) & setters for n in fwalk(f))}
    if not setters:
        raise AnalysisBroken('no function assigns decision[v]')
    # the announcing function itself: for a variable that already exists (v < nVars()) it must switch the decision flag back on
    av = fx.func('opensmt::CoreSMTSolver::addVar_')
    base_setters = {f['id'] for f in fx.F.values() if f.get('body') and any(n.get('k') in ('bin',) and n.get('op') == '=' and (path_of(n['l']) or '').startswith('this.decision[') for n in fwalk(f))}
    existing = [n for n in walk(av['body']) if n.get('k') == 'if' and not n.get('as') and any(is_call(x, 'nVars') for x in walk(n['cond'])) and
                isinstance(see_through(n['cond']), dict) and see_through(n['cond']).get('op') == '<']
    reactivates = any(x.get('k') == 'call' and set(fx.targets(x)) & base_setters for n in existing for x in walk(n['then']))
    if not reactivates:
        res.bad(r, 'variable-not-reactivated:CoreSMTSolver::addVar_', fx.loc(av), 'CoreSMTSolver::addVar_ does nothing for a variable that already exists: every check-sat switches the decision flag of '
                'variables without clauses off (declareVarsToTheories), and a variable that reappears in a later clause is then never branched on - a later check answers sat with the clause '
                'unsatisfied, unlike a fresh solver')
        setters |= {av['id']}          # keep judging the callers: they do reach addVar_

    class Reach(Client):
        def __init__(self):
            self.exits = set()

        def on_call(self, n, s):
            if set(fx.targets(n)) & setters:
                return (True,)
            return (s,)

        def on_exit(self, kind, node, s):
            if kind == 'end':
                self.exits.add(s)
    n_loops = 0
    for f in fx.F.values():
        if not f.get('body') or f['name'].split('::')[-1] != 'addOriginalSMTClause':
            continue
        for lp in (x for x in walk(f['body']) if x.get('k') == 'loop'):
            if not any(n.get('k') == 'call' and set(fx.targets(n)) & setters for n in walk(lp['body'])):
                continue
            if any(c is not lp and c.get('k') == 'loop' and any(n.get('k') == 'call' and set(fx.targets(n)) & setters for n in walk(c['body'])) for c in walk(lp['body'])):
                continue
            n_loops += 1
            c = Reach()
            pseudo = {'body': {'k': 'loop', 'kind': 'do', 'cond': {'k': 'lit', 'v': False, 't': 'bool'}, 'body': lp['body'], 'ln': lp.get('ln')}, 'lambdas': f.get('lambdas', [])}
            eng = Engine(pseudo, c)
            eng.run([False])
            if eng.broken:
                raise AnalysisBroken('%s: %s' % (f['name'], eng.broken))
            if False in c.exits:
                res.bad(r, 'variable-not-reactivated:%s' % f['name'].replace('opensmt::', ''), fx.loc(f, lp.get('ln')), '%s: an iteration of the loop over the new clause\'s literals can finish without '
                        'making the variable a decision variable again: a variable that a previous check-sat switched off (it had no clause left) and that reappears in this clause is never '
                        'branched on, so a later check can answer sat with the clause unsatisfied, unlike a fresh solver' % f['name'])
            else:
                res.ok(r, '%s: every literal of the added clause reaches %s' % (f['name'].replace('opensmt::', ''), sorted({fx.F[i]['name'].split('::')[-1] for i in setters})))
    if n_loops == 0:
        raise AnalysisBroken('no addOriginalSMTClause reactivates variables any more')

    return res


def key_elts(key):
    key = see_through(key)
    if isinstance(key, dict) and key.get('k') == 'init':
        return key.get('e')
    if isinstance(key, dict) and key.get('k') == 'new':
        return key.get('a')
    return None


def guard_fields(f):
    """fields X such that f tests this.X[param] (or this.X) in a condition: {(field, param index)}"""
    out = set()
    pnames = [p['n'] for p in f['params']]
    for n in walk(f['body']):
        if n.get('k') != 'if' or n.get('as'):
            continue
        for x in walk(n['cond']):
            b = None
            idx = None
            if x.get('k') == 'idx':
                b, idx = x['b'], x['i']
            elif x.get('k') == 'call' and x.get('op') == '[]' and x.get('recv') is not None and x.get('a'):
                b, idx = x['recv'], x['a'][0]
            if b is None:
                continue
            bp, ip = path_of(b), path_of(idx)
            if bp and bp.startswith('this.') and ip in pnames:
                out.add((bp, pnames.index(ip)))
    return out


def stale_guard_rule(res, fx):
    r = res.rule('guard-written-before-call', 'in the SAT-engine classes, a statement `this.X[v] = ...` directly following a call g(v) whose body '
                 'guards on this.X[param] is a stale-guard ordering (the callee saw the old flag)', floor=3)
    scope = ('opensmt::CoreSMTSolver::', 'opensmt::SimpSMTSolver::', 'opensmt::LookaheadSMTSolver::', 'opensmt::GhostSMTSolver::')
    gf = {}
    for i, f in fx.F.items():
        if f['name'].startswith(scope):
            g = guard_fields(f)
            if g:
                gf[i] = g
    checked = 0
    for i, f in fx.F.items():
        if not f['name'].startswith(scope):
            continue
        for n in walk(f['body']):
            if n.get('k') != 'seq':
                continue
            items = n['c']
            for a, b in zip(items, items[1:]):
                if not (isinstance(a, dict) and isinstance(b, dict) and a.get('k') == 'e' and b.get('k') == 'e'):
                    continue
                ca = see_through(a['e'])
                if not (isinstance(ca, dict) and ca.get('k') == 'call' and ca.get('id') in gf):
                    continue
                checked += 1
                res.ok(r, '%s: call %s' % (fx.loc(f, ca['ln']), mname(ca)))
                wb = b['e']
                if not (isinstance(wb, dict) and wb.get('k') == 'bin' and wb['op'] == '='):
                    continue
                l = wb['l']
                bp = ip = None
                if l.get('k') == 'idx':
                    bp, ip = path_of(l['b']), path_of(l['i'])
                elif l.get('k') == 'call' and l.get('op') == '[]' and l.get('a'):
                    bp, ip = path_of(l['recv']), path_of(l['a'][0])
                for (field, pi) in gf[ca['id']]:
                    if bp == field and pi < len(ca['a']) and path_of(ca['a'][pi]) == ip and ip is not None:
                        r['instances'] -= 1
                        res.bad(r, 'stale-guard:%s:%s' % (f['name'], mname(ca)), fx.loc(f, wb.get('ln')),
                                '%s writes %s[%s] immediately after calling %s(%s), whose body guards on that flag: the callee saw the stale value'
                                % (f['name'], field, ip, mname(ca), ip))
    res.extra['guarded_callees'] = len(gf)
