"""C24 -- solver instances in different threads do not interfere: no unsynchronised process-wide mutable state (DESIGN 3-C24)."""
from build import AnalysisBroken
from core import Result
from facts import Facts, fwalk, walk, callee
from prim_globals import Globals, is_atomic_type, is_sync_type

LEVEL = 'other'
EXPLANATION = ('Every variable with static storage duration defined in the library (namespace-scope, static data member, function-local static; '
               'template instantiations included) that is writable and has a mutating use outside its own initialiser must be thread_local, '
               'std::atomic, a synchronisation object, or be mutated only inside scopes that hold a std::lock_guard/unique_lock/scoped_lock; '
               'calls into libc entry points with hidden process-wide state (rand, strtok, localtime ...) are likewise forbidden in library code. '
               'Two independent instances can only interfere through such state, so this is a necessary condition of the property; races on instance '
               'state shared through API misuse, and equality of results, are not decided.')

EXCLUDED_DIRS = ('src/bin/', 'src/parallel/')

# static-initialisation-only writers: the constructor named here may touch the variable, provided every construction of the class
# happens in the initialiser of a namespace-scope object (checked below), i.e. before main and before any thread exists
STATIC_INIT_ONLY = {
    'opensmt::SolverDescr::id_counter': 'opensmt::SolverDescr::SolverDescr',
    'opensmt::SolverDescr::getSolverList()::options': 'opensmt::SolverDescr::SolverDescr',
}
# hidden-state calls outside the instance level (one reason each)
HIDDEN_EXEMPT = {
    ('opensmt::Interpret::interpPipe', 'strerror'): 'the pipe reader owns the process-wide standard input; it is the executable front end, not an operation of a solver instance',
}


def in_scope(fx, path):
    r = fx.rel(path)
    return r.startswith(('src/', 'gen/')) and not r.startswith(EXCLUDED_DIRS)


def run(src, tier, seed):
    fx = Facts(src)
    res = Result('C24')
    res.assumptions += ['default build configuration; all library units (src/bin and src/parallel excluded)',
                        'a lock counts only when a lock object is alive in an enclosing scope of the same function (no caller-holds-lock summaries)',
                        'const objects without mutable members, constexpr objects and string-literal pointers that are never written are immutable',
                        'glibc stdio streams (std::cout/cerr, stdout/stderr) are internally locked and outside the rule']
    g = Globals(fx)
    cands = [v for v in g.candidates() if in_scope(fx, v['file'])]
    r = res.rule('no-unsynchronised-static-state', 'a writable static-storage variable with a mutating use outside its initialiser is thread_local, atomic, '
                 'a mutex/once_flag, mutated only under a scoped lock, or written only during static initialisation', floor=100)
    if len(fx.G) < 250:
        raise AnalysisBroken('only %d static-storage variables extracted (expected >= 250): extractor drifted' % len(fx.G))
    ctor_sites = {}
    n_mut = 0
    for v in sorted(cands, key=lambda v: v['name']):
        name = v['name']
        ct = v.get('ct', v['t'])
        uses = [u for u in g.uses.get(name, []) if in_scope(fx, u.func['file']) and not u.in_assert]
        # an accessor's own `return x;` is not a mutation: calls of the accessor are followed instead
        uses = [u for u in uses if not (u.kind.startswith('returned as') and u.func['id'] in g.accessors)]
        where = '%s:%s' % (fx.rel(v['file']), v['line'])
        if not uses:
            res.ok(r, '%s: never mutated after initialisation' % name)
            continue
        n_mut += 1
        if v.get('tls'):
            res.ok(r, '%s: thread_local' % name)
            continue
        if is_atomic_type(ct):
            res.ok(r, '%s: %s' % (name, ct))
            continue
        if is_sync_type(ct):
            res.ok(r, '%s: synchronisation object' % name)
            continue
        unlocked = [u for u in uses if not u.locked]
        if not unlocked:
            res.ok(r, '%s: all %d mutating uses hold a scoped lock' % (name, len(uses)))
            continue
        if name in STATIC_INIT_ONLY:
            ctor = STATIC_INIT_ONLY[name]
            foreign = [u for u in unlocked if u.func['name'] != ctor]
            if ctor not in ctor_sites:
                cls = ctor.rsplit('::', 1)[0]
                sites = []
                for f in fx.F.values():
                    for n in fwalk(f):
                        if n.get('k') == 'new' and (n.get('t') or '').replace('class ', '').replace('struct ', '') == cls:
                            sites.append(f['name'])
                        if n.get('k') == 'decl' and (n.get('ct') or '').replace('class ', '').replace('struct ', '') == cls and not n.get('static'):
                            sites.append(f['name'])
                ctor_sites[ctor] = sites
            if not foreign and not ctor_sites[ctor]:
                res.ok(r, '%s: written only by %s, which runs only in initialisers of namespace-scope objects' % (name, ctor))
                continue
            unlocked = foreign or unlocked
            if ctor_sites[ctor]:
                res.bad(r, 'static-init-only-broken:%s' % name, where, '%s is allowlisted as written during static initialisation only, but %s is now also constructed in %s'
                        % (name, ctor.rsplit('::', 1)[0], sorted(set(ctor_sites[ctor]))[:4]))
                continue
        u0 = unlocked[0]
        res.bad(r, 'unsynchronised-static:%s' % name, where,
                '%s (%s) is process-wide mutable state without thread_local/atomic/lock: %d unsynchronised mutating use(s), e.g. %s in %s (%s)'
                % (name, ct[:60], len(unlocked), u0.kind[:60], u0.func['name'], fx.loc(u0.func, u0.ln)),
                ['%s %s: %s' % (fx.loc(u.func, u.ln), u.func['name'], u.kind[:80]) for u in unlocked[:12]])
    r2 = res.rule('no-hidden-state-libc', 'library code does not call libc entry points with hidden process-wide state outside a scoped lock', floor=0)
    byf = {}
    for f, ln, c, why, locked in g.hidden:
        if not in_scope(fx, f['file']) or locked:
            continue
        byf.setdefault((f['name'], c), []).append((f, ln, why))
    for (fn, c), lst in sorted(byf.items()):
        f, ln, why = lst[0]
        if (fn, c) in HIDDEN_EXEMPT:
            res.ok(r2, '%s: %s exempt: %s' % (fn, c, HIDDEN_EXEMPT[(fn, c)]))
            continue
        res.bad(r2, 'hidden-state-call:%s:%s' % (c, fn), fx.loc(f, ln), '%s calls %s() (%s) at %d site(s): concurrent instances perturb each other\'s sequence'
                % (fn, c, why, len(lst)), ['%s' % fx.loc(x[0], x[1]) for x in lst[:12]])
    res.extra.update({'static_storage_variables': len(fx.G), 'writable_candidates_in_library': len(cands), 'with_mutating_use': n_mut,
                      'accessor_functions': sorted(fx.F[i]['name'] for i in g.accessors), 'units': fx.stats['units']})
    return res
