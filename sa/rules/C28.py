"""C28 -- equal terms share one identity (hash-consing discipline) and subterms come first (DESIGN 3-C28)."""
import re

from build import AnalysisBroken
from core import Result
from facts import Facts, fwalk, walk, callee, path_of, recv_path, see_through
from prims import mname, is_call, callers_of

LEVEL = 'other'
EXPLANATION = ('Structural rules on the term factory: only the factory may allocate terms; every allocation sits in the miss-branch of a lookup in, '
               'and is followed by an insert into, the same hash-consing table under the same key; commutative symbols have their arguments sorted '
               'before the key is built; term ids are appended monotonically; the sign normalisation of arithmetic equalities is applied to a '
               'normalised polynomial. Decides these clauses, not that every simplifying constructor normalises argument order.')

ALLOC_CALLERS = {'opensmt::PtStore::newTerm'}
NEWTERM_CALLERS = {'opensmt::Logic::mkFun', 'opensmt::Logic::mkDistinct'}
# constructors whose result must not depend on argument order: argument sorting must precede key construction
SORT_BEFORE_KEY = {
    'opensmt::Logic::mkDistinct': 'termSort',
    'opensmt::Logic::mkXor': 'termSort',
}
NOT_NORMALISED = {'Boolean `=` built through mkFun is not order-normalised today (mkFun sorts only symbols with commutes() in its non-Boolean branch); '
                  'the property allows this ("where the constructor normalises it")'}


def stmts_of(n):
    if n is None:
        return []
    if n.get('k') == 'seq':
        return n['c']
    return [n]


def conjuncts(e):
    e = see_through(e)
    if isinstance(e, dict) and e.get('k') == 'bin' and e.get('op') == '&&':
        return conjuncts(e['l']) + conjuncts(e['r'])
    return [e]


def src_of(e):
    e = see_through(e)
    if not isinstance(e, dict):
        return '?'
    if e.get('k') == 'un':
        return e.get('op', '') + src_of(e.get('e'))
    if e.get('k') == 'call':
        return callee(e).split('::')[-1] + '(...)'
    return e.get('s') or e.get('n') or e.get('k')


def run(src, tier, seed):
    fx = Facts(src)
    res = Result('C28')
    res.assumptions += ['default build configuration; analysed with -UNDEBUG']
    res.notes += sorted(NOT_NORMALISED)
    # ---- R1 who may allocate
    r = res.rule('who-may-allocate', 'PtermAllocator::alloc is called only by PtStore::newTerm, and PtStore::newTerm only by the term factory (Logic::mkFun, Logic::mkDistinct)', floor=5)
    n_alloc = 0
    for f, n in callers_of(fx, pred=lambda n: callee(n) == 'opensmt::PtermAllocator::alloc'):
        n_alloc += 1
        # overloads: alloc(sym, args) builds a new term; alloc(Pterm&, bool) is the garbage-collector relocation
        if f['name'] in ALLOC_CALLERS:
            res.ok(r, '%s -> PtermAllocator::alloc' % f['name'])
        elif f['name'].startswith('opensmt::Pterm::relocate') or f['name'].startswith('opensmt::Pterm::') or 'reloc' in f['name'].lower():
            res.ok(r, '%s (relocation during garbage collection)' % f['name'])
        else:
            res.bad(r, 'foreign-alloc:%s' % f['name'], fx.loc(f, n['ln']), '%s allocates a term directly, bypassing the hash-consing tables' % f['name'])
    sites = callers_of(fx, 'opensmt::PtStore::newTerm')
    if len(sites) < 4:
        raise AnalysisBroken('expected >= 4 PtStore::newTerm call sites, found %d' % len(sites))
    for f, n in sites:
        if f['name'] in NEWTERM_CALLERS:
            res.ok(r, '%s -> newTerm' % fx.loc(f, n['ln']))
        else:
            res.bad(r, 'foreign-newTerm:%s' % f['name'], fx.loc(f, n['ln']), '%s creates terms through PtStore::newTerm outside the term factory' % f['name'])

    # ---- R2 lookup / allocate / insert on the same table and key
    r = res.rule('lookup-alloc-insert', 'each newTerm call is in the miss branch of has<K>Key(k); the hit branch returns getFrom<K>Map(k); the miss branch inserts with '
                 'addTo<K>Map(k, result) for the same table K and the same key', floor=4)
    checked = 0
    for fname in sorted(NEWTERM_CALLERS):
        f = fx.func(fname)
        for n in walk(f['body']):
            if n.get('k') != 'if' or n.get('as'):
                continue
            c = see_through(n['cond'])
            if not (isinstance(c, dict) and c.get('k') == 'call'):
                continue
            m = re.match(r'has(\w+)Key$', mname(c))
            if not m:
                continue
            K = m.group(1)
            key = path_of(c['a'][0]) if c.get('a') else None
            then_calls = [x for x in walk(n['then']) if x.get('k') == 'call']
            else_calls = [x for x in walk(n['else']) if x.get('k') == 'call'] if n.get('else') else []
            news = [x for x in else_calls if mname(x) == 'newTerm']
            if not news:
                continue
            checked += 1
            where = fx.loc(f, n['ln'])
            problems = []
            gets = [x for x in then_calls if re.match(r'getFrom\w+Map$', mname(x))]
            if not gets or any(mname(x) != 'getFrom%sMap' % K or path_of(x['a'][0]) != key for x in gets):
                problems.append('hit branch does not return getFrom%sMap(%s)' % (K, key))
            adds = [x for x in else_calls if re.match(r'addTo\w+Map$', mname(x))]
            if not adds:
                problems.append('miss branch allocates without inserting into any table')
            for x in adds:
                if mname(x) != 'addTo%sMap' % K:
                    problems.append('looked up in the %s table but inserted with %s' % (K, mname(x)))
                kk = x['a'][0]
                kk = kk['a'][0] if isinstance(kk, dict) and kk.get('k') == 'call' and callee(kk).endswith('move') and kk.get('a') else kk
                if path_of(kk) != key:
                    problems.append('inserted under key %s, looked up under %s' % (path_of(kk), key))
            # order: newTerm precedes addTo in every block of the miss branch that contains both
            for blk in [b for b in walk(n['else']) if b.get('k') == 'seq']:
                seq = [mname(x) for s in blk['c'] for x in walk(s) if x.get('k') == 'call' and (mname(x) == 'newTerm' or re.match(r'addTo\w+Map$', mname(x)))]
                if 'newTerm' in seq and any(s.startswith('addTo') for s in seq) and seq.index('newTerm') > min(i for i, s in enumerate(seq) if s.startswith('addTo')):
                    problems.append('insert precedes allocation')
            if problems:
                res.bad(r, 'hashcons:%s:%s' % (fname, K), where, '%s, %s table: %s' % (fname, K, '; '.join(problems)))
            else:
                res.ok(r, '%s: has%sKey / getFrom%sMap / newTerm + addTo%sMap on key %s' % (where, K, K, K, key))
    nnew = len(sites)
    if checked < nnew:
        res.bad(r, 'unguarded-newTerm', fx.loc(fx.func('opensmt::Logic::mkFun')), '%d of %d newTerm call(s) are not in the miss branch of a has<K>Key test' % (nnew - checked, nnew))

    # ---- R3 argument order normalisation precedes the key
    r = res.rule('sort-before-key', 'for commutative symbols the argument list is sorted (termSort) before the hash-consing key is looked up', floor=3)
    mk = fx.func('opensmt::Logic::mkFun')
    ok = False
    for blk in (b for b in walk(mk['body']) if b.get('k') == 'seq'):
        idx_sort = idx_has = None
        for i, s in enumerate(blk['c']):
            if not isinstance(s, dict):
                continue
            if s.get('k') == 'if' and any(is_call(x, 'commutes') for x in walk(s['cond'])) and any(is_call(x, 'termSort') for x in walk(s['then'])):
                idx_sort = i
            if s.get('k') == 'if' and any(is_call(x, 'hasCplxKey') for x in walk(s['cond'])):
                idx_has = i
        if idx_sort is not None and idx_has is not None:
            ok = idx_sort < idx_has
    # the canonical sort may be guarded by commutativity only: any further conjunct (e.g. "not already sorted" under another order than the
    # virtual termSort's) lets two spellings of one term keep different argument orders
    def has_sort(n):
        return any(is_call(x, 'termSort') for x in walk(n))
    for s_ in (b for b in walk(mk['body']) if b.get('k') == 'if' and has_sort(b['then'])
               and not any(c is not b and c.get('k') == 'if' and has_sort(c) for c in walk(b['then']))):
        extra = [a for a in conjuncts(s_['cond']) if not (isinstance(see_through(a), dict) and is_call(see_through(a), 'commutes'))]
        if extra:
            ok = None
            res.bad(r, 'sort-skipped-conditionally:mkFun', fx.loc(mk, s_.get('ln')), 'Logic::mkFun sorts the arguments of a commutative symbol only under an additional condition (%s): when it '
                    'does not hold the arguments keep the order they were given in, and two spellings of one term get different identities' % '; '.join(src_of(a) for a in extra))
    if ok is None:
        pass
    elif ok:
        res.ok(r, 'mkFun: if (commutes()) termSort(k.args) precedes hasCplxKey(k)')
    else:
        res.bad(r, 'mkFun-no-sort', fx.loc(mk), 'Logic::mkFun no longer sorts the arguments of commutative symbols before looking the key up: (f a b) and (f b a) get different identities')
    for fname, sorter in SORT_BEFORE_KEY.items():
        f = fx.func(fname, pred=lambda f: f['file'].endswith('.cc'))   # the in-class two-argument forwarder is not the constructor
        order = []
        for n in fwalk(f):
            if n.get('k') == 'call' and not n.get('as'):
                if mname(n) == sorter:
                    order.append('sort')
                elif re.match(r'has\w+Key$', mname(n)) or mname(n) in ('mkFun', 'lookupSymbol', 'mkBinaryEq'):
                    order.append('key')
        if 'sort' in order and 'key' in order and order.index('sort') < order.index('key'):
            res.ok(r, '%s: %s before key construction' % (fname, sorter))
        else:
            res.bad(r, 'no-sort:%s' % fname, fx.loc(f), '%s builds its hash-consing key without sorting the arguments first' % fname)
    for fname in ('opensmt::Logic::mkAnd', 'opensmt::Logic::mkOr'):
        fs = [f for f in fx.funcs(fname) if any(n.get('k') == 'call' and mname(n) in ('sort', 'termSort') for n in fwalk(f))]
        big = [f for f in fx.funcs(fname) if f['eline'] - f['line'] > 10]
        if not big:
            raise AnalysisBroken('%s: main overload not found' % fname)
        if fs:
            res.ok(r, '%s sorts its argument list' % fname)
        else:
            res.bad(r, 'no-sort:%s' % fname, fx.loc(big[0]), '%s no longer sorts its argument list' % fname)

    # ---- R4 monotone ids
    r = res.rule('ids-appended', 'PtStore::newTerm appends the new term to idToPTRef (ids grow with creation order, so subterms precede their parents)', floor=1)
    nt = fx.func('opensmt::PtStore::newTerm')
    if any(is_call(n, 'push', 'this.idToPTRef') for n in fwalk(nt)) and any(is_call(n, 'alloc', 'this.pta') for n in fwalk(nt)):
        res.ok(r, fx.loc(nt))
    else:
        res.bad(r, 'newTerm-no-id', fx.loc(nt), 'PtStore::newTerm no longer records the new term in idToPTRef')

    # ---- R5 sign normalisation is applied to a normalised polynomial
    r = res.rule('normal-form-precondition', 'every argument of ArithLogic::hasNegativeLeadingVariable is the polynomial component returned by sumToNormalizedPair '
                 '(leading-term tests are meaningless on an unnormalised sum, whose summand order depends on creation history)', floor=1)
    for f, n in callers_of(fx, 'opensmt::ArithLogic::hasNegativeLeadingVariable'):
        arg = path_of(n['a'][0]) if n.get('a') else None
        norm_vars = set()
        for d in fwalk(f):
            if d.get('k') == 'decl' and d.get('bind') and any(is_call(x) and mname(x).startswith('sumToNormalized') and mname(x).endswith('Pair') for x in walk(d.get('init'))):
                if len(d['bind']) == 2:
                    norm_vars.add(d['bind'][1])
        if arg in norm_vars:
            res.ok(r, '%s: hasNegativeLeadingVariable(%s), %s from sumToNormalizedPair' % (fx.loc(f, n['ln']), arg, arg))
        else:
            res.bad(r, 'unnormalised-sign-test:%s' % f['name'], fx.loc(f, n['ln']),
                    '%s tests the leading-term sign of %s, which is not the normalised polynomial returned by sumToNormalizedPair: (= a b) and (= b a) can get different identities' % (f['name'], arg))
    res.extra['newTerm_sites'] = nnew
    return res
