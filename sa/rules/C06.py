"""C06 -- unsat cores are unsatisfiable and name current assertions only: structural clauses (DESIGN 3-C06)."""
from build import AnalysisBroken
from core import Result
from facts import Facts, fwalk, walk, callee, path_of, recv_path, see_through
from prims import mname, is_call, must_call, callers_of, as_assign

LEVEL = 'other'
EXPLANATION = ('A core is read off the refutation as: original clauses of the proof -> their partition masks -> assertions carrying those partition '
               'indices -> names. Decided: (1) every original clause MainSolver adds gets its partition mask when partitions are tracked; (2) the proof '
               'traversal of the core builder collects CLA_ORIG leaves and expands every clause kind that carries a derivation chain in the resolution '
               'proof; (3) the formula->partition-index maps follow the protocol "latest insertion wins" (stores overwrite; a stale entry would tag the '
               'clauses of a re-asserted formula with a popped partition) and (4) are rolled back when assertions are popped; (5) the assertions '
               'handed to the SAT engine are looked up under the formula whose index was transferred; (6) named/unnamed splitting and minimisation '
               'consult the scoped TermNames registry and the current assertion stack only; pop invalidates the popped partitions. '
               'Decides these clauses, not unsatisfiability of the reported set.')

CLAUSE_KINDS_NOT_EXPANDED = {
    'CLA_THEORY': 'theory lemmas are valid without any assertion',
    'CLA_SPLIT': 'split clauses are theory-valid',
    'CLA_ASSUMPTION': 'activation literal of an assertion level, not an assertion',
    'CLA_DERIVED': 'created only inside ProofGraph transformations, never stored in ResolutionProof (checked below)',
}
OVERWRITING = {'operator[]', 'insert_or_assign'}
KEEPING = {'emplace', 'insert', 'try_emplace'}


def pop_invalidates(fx, res, r, pop=None):
    """shared with C08: the partition bits of popped assertions are cleared on every successful pop while partitions are tracked"""
    pop = pop or fx.func('opensmt::MainSolver::pop')
    exits, eng = must_call(pop, {'inval': lambda n: is_call(n, 'invalidatePartitions')},
                           {'track': lambda a: is_call(see_through(a), 'trackPartitions')})
    bad = [nd for k, nd, st in exits if k == 'return' and 'track=T' in st and 'inval' not in st and str(see_through(nd.get('e')).get('v')) != 'False']
    if bad:
        res.bad(r, 'pop-no-invalidate', fx.loc(pop), 'MainSolver::pop can succeed while tracking partitions without invalidating the popped partitions: their bits stay in the term masks, '
                'a later interpolation counts an A-local symbol as shared (B is the complement of the A-mask) and cores name popped assertions')
    else:
        res.ok(r, 'MainSolver::pop: invalidatePartitions on every successful tracked path')


def run(src, tier, seed):
    fx = Facts(src)
    res = Result('C06')
    res.assumptions += ['default build configuration, -UNDEBUG; assert(...) is not a runtime check',
                        'clauses of popped assertion levels cannot occur in a refutation (they carry a disabled frame literal): decided under C04/C10, assumed here']

    # ---- R1 mask after clause
    r = res.rule('clause-mask-after-add', 'after every smt_solver->addOriginalSMTClause in MainSolver, pmanager.addClauseClassMask follows on every path on which '
                 'a clause was created and partitions are tracked (one instance per function that adds clauses: a helper or lambda may merge sites)', floor=2)
    n_sites = 0
    for f in fx.F.values():
        if f.get('class') != 'opensmt::MainSolver':
            continue
        adds = [n for n in fwalk(f) if is_call(n, 'addOriginalSMTClause')]
        if not adds:
            continue
        n_sites += len(adds)
        trackvars = {d['n'] for d in fwalk(f) if d.get('k') == 'decl' and is_call(see_through(d.get('init')), 'trackPartitions')}
        refvars = {d['n'] for d in fwalk(f) if d.get('k') == 'decl' and (path_of(d.get('init')) or '').endswith('.first')}

        def is_track(a, tv=trackvars):
            a = see_through(a)
            return is_call(a, 'trackPartitions') or (isinstance(a, dict) and a.get('k') == 'ref' and a['n'] in tv)

        def is_hasref(a, rv=refvars):
            a = see_through(a)
            if isinstance(a, dict) and a.get('k') in ('bin', 'call') and a.get('op') == '!=':
                l = a.get('l') if a.get('k') == 'bin' else a.get('recv')
                rr = a.get('r') if a.get('k') == 'bin' else (a.get('a') or [None])[0]
                for x, y in ((l, rr), (rr, l)):
                    p = path_of(x) or ''
                    if (p.endswith('.first') or p in rv) and 'CRef_Undef' in str(y):
                        return True
            return False
        exits, eng = must_call(f, {'add': lambda n: is_call(n, 'addOriginalSMTClause'), 'mask': lambda n: is_call(n, 'addClauseClassMask')},
                               {'track': is_track, 'hasref': is_hasref})
        bad = [nd for k, nd, st in exits if k != 'throw' and 'add' in st and 'mask' not in st and 'track=F' not in st and 'hasref=F' not in st]
        if bad:
            res.bad(r, 'no-mask:%s' % f['name'], fx.loc(f, adds[0]['ln']), '%s adds an original clause that can reach the function exit (line %s) without a partition mask '
                    'although partitions are tracked: the clause is invisible to the core / interpolation' % (f['name'], sorted({b.get('ln') if isinstance(b, dict) else 'end' for b in bad}, key=str)))
        else:
            res.ok(r, '%s: addOriginalSMTClause -> addClauseClassMask (%d site(s): lines %s)' % (f['name'], len(adds), [a['ln'] for a in adds]))
    if n_sites < 2:
        raise AnalysisBroken('expected addOriginalSMTClause sites in MainSolver::initialize and giveToSolver, found %d site(s)' % n_sites)

    # ---- R2 proof traversal covers the clause kinds
    r = res.rule('core-traversal-kinds', 'UnsatCoreBuilder::computeClauses collects CLA_ORIG leaves and expands every clause kind that carries a chain in ResolutionProof', floor=6)
    enum = [e['n'] for e in fx.enum('opensmt::clause_type')['e']]
    cc = fx.func('opensmt::UnsatCoreBuilder::computeClauses')
    tested = {}
    for n in walk(cc['body']):
        if n.get('k') == 'if' and not n.get('as'):
            c = see_through(n['cond'])
            kinds = [x['n'].split('::')[-1] for x in walk(c) if x.get('k') == 'ref' and x.get('d') == 'enum' and x.get('en', '').endswith('clause_type')]
            for kd in kinds:
                body_calls = [mname(x) for x in walk(n['then']) if x.get('k') == 'call']
                tested[kd] = 'collect' if any(m in ('push', 'push_back', 'insert') for m in body_calls) and not any(x.get('k') == 'loop' for x in walk(n['then'])) else \
                    ('expand' if any(x.get('k') == 'loop' for x in walk(n['then'])) else 'other')
    for sw in (x for x in walk(cc['body']) if x.get('k') == 'switch'):
        from facts import switch_arms, enum_label
        for a in switch_arms(sw):
            for lab in a['labels']:
                nm = enum_label(lab) if lab is not None else None
                if nm:
                    tested[nm] = 'expand' if any(x.get('k') == 'loop' for s in a['stmts'] for x in walk(s)) else ('collect' if any(x.get('k') == 'call' and mname(x) in ('push', 'push_back') for s in a['stmts'] for x in walk(s)) else 'other')
    # kinds that ResolutionProof itself can store with a chain
    chain_kinds = set()
    for f in fx.F.values():
        if f.get('class') != 'opensmt::ResolutionProof':
            continue
        for n in fwalk(f):
            if n.get('k') == 'bin' and n.get('op') == '=' and (path_of(n['l']) or '').endswith('.type'):
                for x in walk(n['r']):
                    if x.get('k') == 'ref' and x.get('d') == 'enum':
                        chain_kinds.add(x['n'].split('::')[-1])
    if not chain_kinds:
        raise AnalysisBroken('ResolutionProof no longer assigns a clause kind to finished chains')
    for kd in enum:
        if kd == 'CLA_ORIG':
            if tested.get(kd) == 'collect':
                res.ok(r, 'CLA_ORIG collected')
            else:
                res.bad(r, 'orig-not-collected', fx.loc(cc), 'computeClauses does not collect CLA_ORIG leaves')
        elif kd in chain_kinds:
            if tested.get(kd) == 'expand':
                res.ok(r, '%s expanded through its chain' % kd)
            else:
                res.bad(r, 'chain-kind-not-expanded:%s' % kd, fx.loc(cc), 'ResolutionProof stores %s derivations with a premise chain, but computeClauses does not expand them: '
                        'assertions used only below such a clause are missing from the core' % kd)
        elif kd in CLAUSE_KINDS_NOT_EXPANDED:
            res.ok(r, '%s not expanded: %s' % (kd, CLAUSE_KINDS_NOT_EXPANDED[kd]))
        else:
            res.bad(r, 'kind-unclassified:%s' % kd, fx.loc(cc), 'clause kind %s is neither collected, expanded nor listed as assertion-free' % kd)

    # ---- R3 partition maps: latest insertion wins
    r = res.rule('partition-map-latest-wins', 'every store into a FlaPartitionMap member overwrites an existing entry (operator[]= / insert_or_assign): the maps are not cleaned '
                 'on pop, so a kept stale entry would give a re-asserted formula the index of a popped partition', floor=2)
    rec = fx.record('opensmt::FlaPartitionMap')
    maps = [fl['n'] for fl in rec['fields'] if 'map<' in fl['ct']]
    if len(maps) < 2:
        raise AnalysisBroken('FlaPartitionMap: expected two map members, found %s' % maps)
    stores = {m: [] for m in maps}
    erases = {m: [] for m in maps}
    for f in fx.F.values():
        if f.get('class') != 'opensmt::FlaPartitionMap':
            continue
        for n in fwalk(f):
            if n.get('k') == 'call' and not n.get('as'):
                rp = recv_path(n) or ''
                for m in maps:
                    if rp == 'this.' + m:
                        if mname(n) in OVERWRITING | KEEPING:
                            # operator[] counts as a store only when it is the target of an assignment
                            stores[m].append((f, n))
                        elif mname(n) in ('erase', 'clear'):
                            erases[m].append((f, n))
    for m in maps:
        real = []
        for f, n in stores[m]:
            if mname(n) == 'operator[]':
                # must be the lhs of an assignment somewhere in f
                is_lhs = any(x.get('k') == 'bin' and x.get('op') == '=' and see_through(x['l']) is n for x in fwalk(f)) or \
                    any(x.get('k') == 'bin' and x.get('op') == '=' and any(y is n for y in walk(x['l'])) for x in fwalk(f))
                if is_lhs:
                    real.append((f, n))
            else:
                real.append((f, n))
        if not real:
            raise AnalysisBroken('FlaPartitionMap::%s has no store' % m)
        for f, n in real:
            if mname(n) in KEEPING and not erases[m]:
                res.bad(r, 'stale-entry-kept:%s' % m, fx.loc(f, n['ln']), 'FlaPartitionMap::%s is written with %s in %s, which keeps an existing entry; entries are never erased, '
                        'so a formula seen again after a pop keeps the index of its popped occurrence' % (m, mname(n), f['name']))
            else:
                res.ok(r, '%s: %s.%s' % (f['name'], m, mname(n)))

    # ---- R4 partition maps are rolled back on pop
    r = res.rule('partition-map-scoped', 'the formula->index entries created by MainSolver::insertFormula are erased or restored when the assertion is popped '
                 '(the index is unique per insertion, the key is the formula: an overwritten entry of a still-active earlier insertion is lost)', floor=1)
    pop = fx.func('opensmt::MainSolver::pop')
    ins = fx.func('opensmt::MainSolver::insertFormula')
    if not any(is_call(n, 'assignTopLevelPartitionIndex') for n in fwalk(ins)):
        raise AnalysisBroken('MainSolver::insertFormula no longer assigns a top-level partition index')
    undo = [n for n in fwalk(pop) if n.get('k') == 'call' and (recv_path(n) or '').endswith('pmanager') and mname(n) not in ('getPartitionIndex', 'invalidatePartitions')]
    top = [m for m in maps if 'top' in m]
    if undo or any(erases[m] for m in top):
        res.ok(r, 'MainSolver::pop -> %s' % [callee(u) for u in undo])
    else:
        res.bad(r, 'partition-index-not-scoped:top_level_flas', fx.loc(pop),
                'MainSolver::insertFormula stores a fresh index under the formula (FlaPartitionMap::top_level_flas[fla] = idx, overwriting), and MainSolver::pop neither erases nor '
                'restores it: when the same formula is asserted again on a higher level and popped, the still-active lower occurrence is left with the popped index and drops out of every core')

    # ---- R5 clauses are tagged under the formula whose index was transferred
    r = res.rule('index-transferred-before-use', 'in the per-partition branch of simplifyFormulas every rewrite of a formula is followed by transferPartitionMembership(old, new) '
                 'before giveToSolver looks the index up', floor=2)
    sf = fx.func('opensmt::MainSolver::simplifyFormulas')
    tr = [n for n in fwalk(sf) if is_call(n, 'transferPartitionMembership')]
    rewrites = []
    for n in fwalk(sf):
        if n.get('k') == 'decl' or as_assign(n):
            init = n.get('init') if n.get('k') == 'decl' else as_assign(n)[1]
            c = see_through(init) if init is not None else None
            if isinstance(c, dict) and c.get('k') == 'call' and mname(c) in ('preprocessAfterSubstitutions', 'rewriteMaxArity'):
                rewrites.append((n, mname(c)))
    # the per-partition branch: rewrites inside the `if (context.perPartition)` then-branch
    per = None
    for n in walk(sf['body']):
        if n.get('k') == 'if' and 'perPartition' in str(n.get('cond')):
            per = n['then']
    if per is None:
        raise AnalysisBroken('simplifyFormulas: per-partition branch not found')
    per_nodes = list(walk(per, sf.get('lambdas')))
    per_ids = {id(x) for x in per_nodes}
    n_rw = 0
    for n, what in rewrites:
        if id(n) not in per_ids:
            continue
        n_rw += 1
        ln = n.get('ln', 0)
        following = [t for t in tr if id(t) in per_ids and t.get('ln', 0) >= ln and t.get('ln', 0) <= ln + 3]
        if following:
            res.ok(r, '%s -> transferPartitionMembership (%s)' % (what, fx.loc(sf, ln)))
        else:
            res.bad(r, 'rewrite-without-transfer:%s' % what, fx.loc(sf, ln), 'the result of %s in the per-partition branch is handed on without transferPartitionMembership: '
                    'giveToSolver finds no (or a stale) partition index for it' % what)
    if n_rw < 2:
        raise AnalysisBroken('simplifyFormulas: expected two rewrites in the per-partition branch, found %d' % n_rw)

    # ---- R6 names and current assertions
    r = res.rule('names-from-scoped-registry', 'partitionNamedTerms / minimize decide "named" through solver.getTermNames().contains and take hidden terms from the current assertion view; '
                 'MainSolver::pop invalidates the popped partitions when tracking', floor=3)
    pn = fx.func('opensmt::UnsatCoreBuilder::partitionNamedTerms')
    if any(is_call(n, 'contains') for n in fwalk(pn)) and any(is_call(n, 'getTermNames') for n in fwalk(pn)):
        res.ok(r, 'partitionNamedTerms: termNames.contains(term)')
    else:
        res.bad(r, 'named-split', fx.loc(pn), 'partitionNamedTerms no longer splits by TermNames::contains')
    mi = fx.func('opensmt::UnsatCoreBuilder::minimize')
    if any(is_call(n, 'getCurrentAssertionsView') or is_call(n, 'getCurrentAssertions') for n in fwalk(mi)):
        res.ok(r, 'minimize: hidden terms from the current assertion view')
    else:
        res.bad(r, 'minimize-hidden', fx.loc(mi), 'minimize no longer takes the unnamed background from the current assertion stack')
    pop_invalidates(fx, res, r, pop)
    # ---- R7 the recorded assertion is the term the name was given to
    r = res.rule('named-term-is-recorded-term', 'MainSolver::insertFormula records (frames.add / assignTopLevelPartitionIndex) the formula it received: names are attached to that PTRef by '
                 'tryAddNamedAssertion, and the core builder recognises a named assertion by looking the recorded term up in the name registry', floor=1)
    ins = fx.func('opensmt::MainSolver::insertFormula')
    par = ins['params'][0]['n']
    nodes = [n for n in fwalk(ins) if not n.get('as')]
    rewrites = []
    recorded = None
    for n in nodes:
        a = as_assign(n)
        if a and path_of(a[0]) == par and recorded is None:
            rewrites.append(n.get('ln'))
        if n.get('k') == 'call' and ((is_call(n, 'add') and (recv_path(n) or '').endswith('frames')) or is_call(n, 'assignTopLevelPartitionIndex')):
            if any(x.get('k') == 'ref' and x.get('n') == par for x in walk(n.get('a') or [])):
                recorded = recorded or n.get('ln')
    if recorded is None:
        raise AnalysisBroken('MainSolver::insertFormula: the call that records the formula (frames.add) was not found')
    if rewrites:
        res.bad(r, 'recorded-term-rewritten', fx.loc(ins, rewrites[0]), 'MainSolver::insertFormula replaces the formula it received (line %s) before recording it (line %s): an assertion named with '
                ':named is recorded under a different term than the one the name belongs to whenever the rewrite changes it, the core builder then treats it as unnamed and leaves its '
                'name out of the core' % (rewrites, recorded))
    else:
        res.ok(r, 'insertFormula records its argument unchanged (line %s)' % recorded)

    # ---- R8 internal clauses do not share a partition bit with a user assertion
    r = res.rule('base-mask-disjoint', 'the partition mask given to the solver\'s own unit clauses (MainSolver::initialize) uses only bit positions below the first partition index handed to '
                 'user assertions (the initial value of insertedFormulasCount)', floor=1)
    ini = fx.func('opensmt::MainSolver::initialize')
    masks = []
    for n in fwalk(ini):
        if is_call(n, 'addClauseClassMask') and len(n.get('a') or []) >= 2:
            m = see_through(n['a'][1])
            while isinstance(m, dict) and m.get('k') in ('new', 'init') and len(m.get('a') or m.get('e') or []) == 1:
                m = see_through((m.get('a') or m.get('e'))[0])
            if isinstance(m, dict) and m.get('k') == 'lit' and isinstance(m.get('v'), int):
                masks.append((m['v'], n.get('ln')))
            else:
                raise AnalysisBroken('MainSolver::initialize: the mask of a base clause is not a literal (line %s)' % n.get('ln'))
    if not masks:
        raise AnalysisBroken('MainSolver::initialize no longer masks its base unit clauses')
    fld = [f_ for f_ in fx.record('opensmt::MainSolver')['fields'] if f_['n'] == 'insertedFormulasCount']
    if not fld:
        raise AnalysisBroken('MainSolver::insertedFormulasCount vanished')
    start = fld[0].get('initv')
    if start is None:
        import re as _re
        src_line = open(fx.record('opensmt::MainSolver')['file'], errors='replace').read()
        mm = _re.search(r'insertedFormulasCount\s*(?:=|\{)\s*(\d+)', src_line)
        start = int(mm.group(1)) if mm else None
    if start is None:
        raise AnalysisBroken('initial value of MainSolver::insertedFormulasCount not found')
    clash = [(v, ln) for v, ln in masks if v != 0 and v.bit_length() - 1 >= start]
    if clash:
        res.bad(r, 'base-mask-shares-user-bit', fx.loc(ini, clash[0][1]), 'MainSolver::initialize tags the solver\'s own unit clauses (true / not false) with partition mask %d, i.e. bit %d, and '
                'user assertions get partition indices from %d upwards: the first assertion ever made shares its bit with the base clauses, so a refutation that uses a base clause drags that '
                'assertion into the core even after it was popped' % (clash[0][0], clash[0][0].bit_length() - 1, start))
    else:
        res.ok(r, 'base masks %s below the first user index %d' % ([v for v, _ in masks], start))

    # the term -> names map the core builder reads must follow the scopes exactly (shared with C21)
    import C21
    C21.registry_undo_rules(fx, res, classes=['opensmt::TermNames'])
    return res
