"""C29 -- input outside the declared logic is rejected, never answered wrongly: rejecting gates (DESIGN 3-C29)."""
from build import AnalysisBroken
from core import Result
from facts import Facts, fwalk, walk, callee, path_of, recv_path, see_through, ends_abruptly
from prims import mname, is_call

LEVEL = 'other'
EXPLANATION = ('assert(...) is compiled out of the released binary, so a requirement on the shape of user-derived input that is only asserted is not enforced. '
               'Decided: (1) in the difference-logic solver the atom intake (STPSolver<T>::declareAtom -> parseRef) tests every shape requirement of a difference '
               'constraint (two summands, variable, product, coefficient -1, variable) on a non-assert branch that throws, no shape predicate is left assert-only '
               'apart from the two guaranteed by upstream gates, and the atom is recorded as known only after it was accepted; (2) the upstream gates exist: '
               'TSolverHandler::declareAtom filters by isValid and STPSolver::isValid is the <=-test; (3) constants are converted exactly and a value that does not '
               'fit is rejected by a throw; (4) the arithmetic term constructors reject non-linear products / non-constant divisors / zero divisors by throwing; '
               '(5) every Logic_t enumerator has a property record, createTheory handles or rejects every enumerator, and mixed Int/Real operands are rejected by '
               'checkArithSortCompatible in every polymorphic constructor. Decides that these gates exist and reject; that accepted inputs are answered correctly is C01/C02.')

SHAPE_PREDICATES = {'isNumVar', 'isTimes', 'isPlus', 'isNumConst', 'isLeq', 'getNumConst', 'size', 'isConstant', 'isVar', 'isInteger'}
# shape predicates that may stay assert-only in the STP intake (one reason each)
ASSERT_ONLY_OK = {
    'isLeq': 'upstream gate: TSolverHandler::declareAtom calls declareAtom only if isValid(tr), and STPSolver::isValid is logic.isLeq (checked below)',
    'isNumConst@leq[0]': 'normal form of <= atoms: ArithLogic builds every <= as (<= constant term)',
}
# rejecting tests parseRef must contain (short predicate name -> minimum number of non-assert rejecting uses)
REQUIRED_REJECTS = {'size': 1, 'isNumVar': 2, 'isTimes': 1, 'getNumConst': 1}


def rejecting_ifs(fx, f):
    """[(if node, predicates in its condition)] for non-assert ifs whose then-branch always throws (directly or via a local noreturn lambda)"""
    lams = f.get('lambdas', [])
    throwing_lambdas = set()
    for n in walk(f['body']):
        if n.get('k') == 'decl' and isinstance(n.get('init'), dict):
            i = see_through(n['init'])
            while isinstance(i, dict) and i.get('k') in ('new', 'init') and len(i.get('a') or i.get('e') or []) == 1:
                i = see_through((i.get('a') or i.get('e'))[0])
            if isinstance(i, dict) and i.get('k') == 'lambda' and lams and lams[i['id']]:
                body = lams[i['id']]['body']
                if any(x.get('k') == 'throw' for x in walk(body)):
                    throwing_lambdas.add(n['n'])
    out = []

    def throws(stmt):
        for x in walk(stmt, lams, into_lambdas=False):
            if x.get('k') == 'throw':
                return True
            if x.get('k') == 'call' and x.get('noret'):
                return True
            if x.get('k') == 'call' and x.get('op') == '()' and path_of(x.get('recv')) in throwing_lambdas:
                return True
            if x.get('k') == 'call' and isinstance(x.get('callee'), dict) and path_of(x['callee']) in throwing_lambdas:
                return True
        return False
    for n in walk(f['body']):
        if n.get('k') == 'if' and not n.get('as') and throws(n['then']):
            preds = [mname(x) for x in walk(n['cond']) if x.get('k') == 'call' and mname(x) in SHAPE_PREDICATES]
            out.append((n, preds))
    return out, throwing_lambdas


def run(src, tier, seed):
    fx = Facts(src)
    res = Result('C29')
    res.assumptions += ['default build configuration analysed with -UNDEBUG: assert conditions are visible and tagged, and do not count as enforcement']
    # ---- R1 STP intake
    r = res.rule('stp-intake-rejects', 'STPSolver<T>::parseRef rejects (throws) unless the atom is a difference constraint; no shape requirement is assert-only; '
                 'declareAtom records the atom as known only after parseRef accepted it', floor=8)
    insts = [f for f in fx.funcs('opensmt::STPSolver::parseRef')] or [f for f in fx.F.values() if f['name'].startswith('opensmt::STPSolver<') and f['name'].endswith('::parseRef')]
    if not insts:
        raise AnalysisBroken('STPSolver<T>::parseRef not found')
    for f in sorted(insts, key=lambda f: f['name']):
        rej, tl = rejecting_ifs(fx, f)
        counts = {}
        for n, preds in rej:
            for p in preds:
                counts[p] = counts.get(p, 0) + 1
        short = f['name'].split('opensmt::', 1)[1]
        for p, need in sorted(REQUIRED_REJECTS.items()):
            if counts.get(p, 0) >= need:
                res.ok(r, '%s: %s tested on %d rejecting branch(es)' % (short, p, counts[p]))
            else:
                res.bad(r, 'stp-shape-unchecked:%s' % p, fx.loc(f), '%s: the difference-logic shape requirement `%s` guards only %d rejecting branch(es) (needs %d): atoms outside the fragment '
                        '(more than two variables, non-unit coefficients) are read as some other difference constraint' % (short, p, counts.get(p, 0), need))
        # assert-only predicates
        asserted = []
        for n in fwalk(f):
            if n.get('k') == 'call' and n.get('as') and mname(n) in SHAPE_PREDICATES:
                key = mname(n)
                if key == 'isNumConst' and 'leq' in str(n.get('a')):
                    key = 'isNumConst@leq[0]'
                asserted.append((key, n.get('ln')))
        for key, ln in asserted:
            base = key.split('@')[0]
            if key in ASSERT_ONLY_OK:
                res.ok(r, '%s: assert-only %s accepted: %s' % (short, key, ASSERT_ONLY_OK[key]))
            elif counts.get(base, 0) > 0 and base in REQUIRED_REJECTS:
                res.ok(r, '%s: %s asserted at line %s and also enforced by a rejecting branch' % (short, base, ln))
            else:
                res.bad(r, 'stp-assert-only:%s' % key, fx.loc(f, ln), '%s: the input-shape requirement %s (line %s) is checked by assert only: a release build continues with an atom it cannot represent' % (short, key, ln))
    for f in [g for g in fx.F.values() if g['name'].startswith('opensmt::STPSolver<') and g['name'].endswith('::declareAtom')]:
        order = []
        for n in fwalk(f):
            if n.get('k') == 'call' and not n.get('as') and mname(n) in ('parseRef', 'setInformed'):
                order.append(mname(n))
        short = f['name'].split('opensmt::', 1)[1]
        if order[:2] == ['parseRef', 'setInformed']:
            res.ok(r, '%s: parseRef before setInformed' % short)
        else:
            res.bad(r, 'stp-informed-before-accept', fx.loc(f), '%s marks the atom as known before parseRef has accepted it (%s): a rejected atom is silently skipped by the next declareAtom '
                    'and asserting it later dereferences an unmapped edge' % (short, order))
    # ---- R1b a rejection leaves no scratch state behind
    r = res.rule('rejection-leaves-no-scratch', 'CoreSMTSolver::declareVarsToTheories is left by an exception when the gate rejects an atom, so every member array it marks while walking '
                 'the atoms is reset at its entry (clean before use, never clean after use), and the theory handler is cleared before the first declareAtom', floor=2)
    dv = fx.func('opensmt::CoreSMTSolver::declareVarsToTheories')
    nodes = list(fwalk(dv))
    first_decl = next((i for i, n in enumerate(nodes) if is_call(n, 'declareAtom')), None)
    first_clear = next((i for i, n in enumerate(nodes) if is_call(n, 'clear') and (recv_path(n) or '').endswith('theory_handler')), None)
    if first_decl is None:
        raise AnalysisBroken('declareVarsToTheories no longer calls declareAtom')
    if first_clear is not None and first_clear < first_decl:
        res.ok(r, 'theory_handler.clear() precedes every declareAtom')
    else:
        res.bad(r, 'no-clear-before-declare', fx.loc(dv), 'declareVarsToTheories no longer clears the theory handler before declaring atoms: atoms recorded by an aborted earlier call are kept')
    from prims import as_assign
    from facts import path_of
    written = {}
    for i, n in enumerate(nodes):
        aa = as_assign(n)
        if aa:
            pth = path_of(aa[0])
            if pth and pth.startswith('this.') and pth.endswith('[]'):
                written.setdefault(pth[:-2], []).append(i)
    n_arr = 0
    for S, ws in sorted(written.items()):
        if not any(w < max(i for i, n in enumerate(nodes) if is_call(n, 'declareAtom')) for w in ws):
            continue
        n_arr += 1
        # first access to S: must be the reset loop  for (i < S.size()) S[i] = <literal>
        first = next((i for i, n in enumerate(nodes) if (n.get('k') in ('idx',) or (n.get('k') == 'call' and n.get('op') == '[]')) and path_of(n) == S + '[]'), None)
        reset_ok = False
        for lp in (x for x in walk(dv['body']) if x.get('k') == 'loop'):
            body_nodes = list(walk(lp['body']))
            asg = [as_assign(x) for x in body_nodes if isinstance(x, dict) and as_assign(x)]
            if len(asg) == 1 and path_of(asg[0][0]) == S + '[]' and isinstance(see_through(asg[0][1]), dict) and see_through(asg[0][1]).get('k') == 'lit' and \
                    S.split('.')[-1] in str(lp.get('cond')) and first is not None and any(y is nodes[first] for y in body_nodes):
                reset_ok = True
        if reset_ok:
            res.ok(r, '%s: reset loop at entry precedes every use' % S)
        else:
            res.bad(r, 'scratch-not-reset-first:%s' % S.split('.')[-1], fx.loc(dv, nodes[first].get('ln') if first is not None else None),
                    'declareVarsToTheories marks %s while walking the atoms but does not reset it before its first use: when the gate rejects an atom (exception), the marks of the aborted call survive, '
                    'the next check-sat skips those atoms and answers without their constraints' % S)
    if n_arr == 0:
        raise AnalysisBroken('declareVarsToTheories: no member array marked before declareAtom (model drifted)')

    # ---- R2 upstream gates
    r = res.rule('upstream-gates', 'TSolverHandler::declareAtom forwards an atom to a solver only under solver->isValid(tr); STPSolver<T>::isValid and LASolver::isValid are the <=-test', floor=3)
    da = fx.func('opensmt::TSolverHandler::declareAtom')
    gate = False
    for n in walk(da['body']):
        if n.get('k') == 'if' and any(is_call(x, 'isValid') for x in walk(n['cond'])) and any(is_call(x, 'declareAtom') for x in walk(n['then'])):
            gate = True
    outside = [x for x in fwalk(da) if is_call(x, 'declareAtom')]
    if gate and len(outside) == 1:
        res.ok(r, 'TSolverHandler::declareAtom: if (solver->isValid(tr)) solver->declareAtom(tr)')
    else:
        res.bad(r, 'declareatom-unfiltered', fx.loc(da), 'TSolverHandler::declareAtom no longer filters atoms with isValid before handing them to a solver')
    for f in [g for g in fx.F.values() if g['name'].endswith('::isValid') and (g['name'].startswith('opensmt::STPSolver<') or g['name'] == 'opensmt::LASolver::isValid')]:
        rets = [x for x in walk(f['body']) if x.get('k') == 'ret']
        if len(rets) == 1 and is_call(see_through(rets[0]['e']), 'isLeq'):
            res.ok(r, '%s == logic.isLeq' % f['name'])
        else:
            res.bad(r, 'isvalid-changed:%s' % f['name'], fx.loc(f), '%s is no longer exactly the <=-atom test the intake code relies on' % f['name'])
    # ---- R3 exact constants
    r = res.rule('constants-exact', 'constants reach the difference-logic solvers without a floating-point detour, and a value that does not fit the representation is rejected by a throw', floor=2)
    for f in fx.F.values():
        if '/tsolvers/stpsolver/' not in f['file']:
            continue
        for n in fwalk(f):
            if n.get('k') == 'call' and mname(n) in ('get_d', 'mpq_get_d', 'mpz_get_d') and not n.get('as'):
                res.bad(r, 'float-detour:%s' % f['name'], fx.loc(f, n['ln']), '%s converts a rational through double (%s): constants beyond 2^53 are silently rounded' % (f['name'], callee(n)))
            if n.get('k') == 'decl' and (n.get('ct') or '') in ('double', 'float', 'long double'):
                res.bad(r, 'float-local:%s:%s' % (f['name'], n['n']), fx.loc(f, n['ln']), '%s holds a solver quantity in a %s' % (f['name'], n['ct']))
    gv = [f for f in fx.funcs('opensmt::Converter<opensmt::SafeInt>::getValue') if f['params'] and 'Number' in f['params'][0]['t'] or 'FastRational' in (f['params'][0]['t'] if f['params'] else '')]
    if not gv:
        raise AnalysisBroken('Converter<SafeInt>::getValue(Number const &) not found')
    rej, _ = rejecting_ifs(fx, gv[0])
    fit = [n for n, p in rej if any(mname(x) in ('fits_slong_p', 'fits_sint_p', 'fitsWord') or 'fits' in mname(x) for x in walk(n['cond']) if x.get('k') == 'call')]
    if fit:
        res.ok(r, 'Converter<SafeInt>::getValue: range test guards a throw (%s)' % fx.loc(gv[0], fit[0]['ln']))
    else:
        res.bad(r, 'constant-range-unchecked', fx.loc(gv[0]), 'Converter<SafeInt>::getValue(Number) does not reject constants outside the ptrdiff_t range on a non-assert branch')
    res.ok(r, 'no floating-point conversion or local in src/tsolvers/stpsolver')
    # ---- R4 term constructors reject by throwing
    r = res.rule('constructors-reject', 'ArithLogic::mkTimes / mkIntDiv / mkRealDiv / mkMod reject non-linear products, non-constant and zero divisors with a throw on a non-assert path', floor=6)
    WANT = {
        'opensmt::ArithLogic::mkTimes': [('LANonLinearException', None)],
        'opensmt::ArithLogic::mkIntDiv': [('LANonLinearException', 'isConstant'), ('ArithDivisionByZeroException', 'isZero')],
        'opensmt::ArithLogic::mkRealDiv': [('LANonLinearException', 'isConstant'), ('ArithDivisionByZeroException', 'isZero')],
        'opensmt::ArithLogic::mkMod': [('ApiException', 'isNumConst'), ('ArithDivisionByZeroException', 'isZero')],
    }
    for fname, wants in WANT.items():
        cands = [f for f in fx.funcs(fname) if f['file'].endswith('.cc')]
        if not cands:
            raise AnalysisBroken('%s not found' % fname)
        f = max(cands, key=lambda f: f['eline'] - f['line'])
        thrown = []
        for n in walk(f['body']):
            if n.get('k') == 'if' and not n.get('as'):
                for br in (n['then'], n.get('else')):
                    if br is None:
                        continue
                    for x in walk(br):
                        if x.get('k') == 'throw':
                            thrown.append((x['t'].replace('class ', '').replace('opensmt::', ''), [mname(c) for c in walk(n['cond']) if c.get('k') == 'call'], x.get('ln')))
        for exc, pred in wants:
            hit = [t for t in thrown if t[0] == exc and (pred is None or pred in t[1])]
            if hit:
                res.ok(r, '%s: throws %s%s' % (fname.split('::')[-1], exc, (' under %s' % pred) if pred else ''))
            else:
                res.bad(r, 'constructor-accepts:%s:%s' % (fname.split('::')[-1], exc), fx.loc(f), '%s no longer rejects its out-of-fragment argument with %s%s on a non-assert branch'
                        % (fname, exc, (' (test %s)' % pred) if pred else ''))
    # ---- R5 logic tables and sort mixing
    r = res.rule('logic-dispatch', 'every Logic_t enumerator has a QFLogicToProperties record; createTheory handles it or throws; polymorphic arithmetic constructors call checkArithSortCompatible', floor=30)
    enum = [e['n'] for e in fx.enum('opensmt::Logic_t')['e']]
    tbl = fx.G.get('opensmt::QFLogicToProperties')
    if not tbl or not tbl.get('init'):
        raise AnalysisBroken('QFLogicToProperties table not found')
    keys = {x['n'].split('::')[-1] for x in walk(tbl['init']) if x.get('k') == 'ref' and x.get('d') == 'enum' and x.get('en', '').endswith('Logic_t')}
    for e in enum:
        if e in keys or e == 'UNDEF':
            res.ok(r, 'Logic_t::%s has a property record' % e)
        else:
            res.bad(r, 'logic-no-record:%s' % e, '%s:%s' % (fx.rel(tbl['file']), tbl['line']), 'Logic_t::%s has no QFLogicToProperties record: Logic::getName / property queries read out of the table' % e)
    ct = fx.func('opensmt::MainSolver::createTheory')
    from prims import exhaustive_switch
    handled = set()
    dk = None
    for sw in (x for x in walk(ct['body']) if x.get('k') == 'switch'):
        h, dk = exhaustive_switch(sw, enum)
        handled |= h
    deflt_throws = any(x.get('k') == 'throw' for x in walk(ct['body']))
    missing = [e for e in enum if e not in handled]
    if missing and not deflt_throws:
        res.bad(r, 'createtheory-gap', fx.loc(ct), 'MainSolver::createTheory neither handles nor rejects %s' % missing)
    else:
        res.ok(r, 'createTheory: %d enumerators in explicit cases, the rest reach a throw' % len(handled))
    for fname in ('mkPlus', 'mkTimes', 'mkBinaryLeq', 'mkBinaryEq'):
        cands = [f for f in fx.funcs('opensmt::ArithLogic::' + fname) if f['file'].endswith('.cc')]
        if not cands:
            continue
        f = max(cands, key=lambda f: f['eline'] - f['line'])
        rej, _ = rejecting_ifs(fx, f)
        sort_cmp = [n for n, _p in rej if sum(1 for x in walk(n['cond']) if x.get('k') == 'call' and mname(x) == 'getSortRef') >= 2]
        if any(is_call(x, 'checkArithSortCompatible') or is_call(x, 'checkSortInt') or is_call(x, 'checkSortReal') or is_call(x, 'checkHasArithSort') for x in fwalk(f)) or sort_cmp:
            res.ok(r, 'ArithLogic::%s checks operand sorts%s' % (fname, ' (compares getSortRef of both operands and throws)' if sort_cmp else ''))
        else:
            res.bad(r, 'no-sort-check:%s' % fname, fx.loc(f), 'ArithLogic::%s no longer checks that its operands have one arithmetic sort' % fname)
    logic_names_rule(fx, res, enum, tbl)
    return res


def _first_str(n):
    for x in walk(n):
        if x.get('k') == 'str':
            return x['v']
    return None


def logic_names_rule(fx, res, enum, tbl):
    """The three tables that name a logic agree: the reader (getLogicFromString), the property records (QFLogicToProperties, whose `name` is what
    Logic::getName reports and whose arithmetic / UF flags decide which theories are built) and every table subscripted with a Logic_t value.
    A reader entry that returns a different enumerator than the record of that name means the script is answered under another logic than the one it
    declared; a table subscripted with the enumerator that has fewer entries than the enumeration is read out of bounds for the later enumerators
    and returns a neighbour's name for the ones after the gap."""
    r = res.rule('logic-names-agree', 'getLogicFromString("X") returns the enumerator whose QFLogicToProperties record is named "X"; every global array subscripted with a cast Logic_t value '
                 'has one entry per enumerator, in enumerator order, naming the same logic as the record', floor=15)
    rec = {}
    for x in walk(tbl['init']):
        if x.get('k') == 'new' and 'pair<' in (x.get('t') or '') and len(x.get('a') or []) == 2:
            k, v = x['a']
            if k.get('k') == 'ref' and k.get('d') == 'enum':
                nm = _first_str(v)
                if nm is not None:
                    rec[k['n'].split('::')[-1]] = nm
    if len(rec) < 10:
        raise AnalysisBroken('logic-names-agree: QFLogicToProperties records were not read (%d)' % len(rec))
    gl = fx.func('opensmt::getLogicFromString')
    n_read = 0
    for n in fwalk(gl):
        if n.get('k') != 'if' or not isinstance(n.get('cond'), dict):
            continue
        c = n['cond']
        if not (c.get('k') == 'call' and c.get('op') == '=='):
            continue
        lit = _first_str(c)
        rets = [x for x in walk(n.get('then') or {}) if x.get('k') == 'ret']
        if lit is None or len(rets) != 1:
            continue
        tgt = [x for x in walk(rets[0].get('e') or {}) if x.get('k') == 'ref' and x.get('d') == 'enum']
        if len(tgt) != 1:
            raise AnalysisBroken('logic-names-agree: getLogicFromString line %s returns something other than one enumerator for "%s"' % (n.get('ln'), lit))
        e = tgt[0]['n'].split('::')[-1]
        n_read += 1
        if rec.get(e) == lit:
            res.ok(r, 'getLogicFromString: "%s" -> Logic_t::%s, whose record is named "%s"' % (lit, e, rec[e]))
        else:
            res.bad(r, 'logic-name-maps-elsewhere:%s' % lit, fx.loc(gl, n.get('ln')), 'getLogicFromString maps the name "%s" to Logic_t::%s, whose property record is named "%s": a script that '
                    'declares %s is solved with the theories, sorts and rejection rules of %s' % (lit, e, rec.get(e), lit, rec.get(e)))
    if n_read < 10:
        raise AnalysisBroken('logic-names-agree: only %d name tests recognised in getLogicFromString' % n_read)
    # tables subscripted with the enumerator
    n_tab = 0
    seen = set()
    for f in sorted(fx.F.values(), key=lambda f: f['name']):
        if not f.get('body'):
            continue
        for n in fwalk(f):
            if not (n.get('k') == 'call' and n.get('op') == '[]' and n.get('a')):
                continue
            rv = see_through(n.get('recv')) if n.get('recv') else None
            if not (isinstance(rv, dict) and rv.get('k') == 'ref' and rv.get('d') == 'global'):
                continue
            idx = n['a'][0]
            if idx.get('k') != 'cast' or 'opensmt::Logic_t' not in ((idx.get('e') or {}).get('t') or ''):
                # the subscript may be a local initialised once from the cast (auto const i = static_cast<int>(logic);)
                names = {x.get('n') for x in walk(idx) if x.get('k') == 'ref' and x.get('d') not in ('global', 'enum', 'param')}
                inits = [d for d in fwalk(f) if d.get('k') == 'decl' and d.get('n') in names and isinstance(d.get('init'), dict)]
                casts = [x for d in inits for x in walk(d['init']) if x.get('k') == 'cast' and isinstance(x.get('e'), dict) and 'opensmt::Logic_t' in (x['e'].get('t') or '')]
                if len(inits) == 1 and casts:
                    idx = casts[0]
            if not (idx.get('k') == 'cast' and isinstance(idx.get('e'), dict) and 'opensmt::Logic_t' in (idx['e'].get('t') or '')):
                continue
            g = fx.G.get(rv['n'])
            if not g or (rv['n'], f['name']) in seen:
                continue
            seen.add((rv['n'], f['name']))
            n_tab += 1
            import re
            m = re.search(r'array<.*,\s*(\d+)>\s*$', g.get('ct') or '')
            if not m:
                raise AnalysisBroken('logic-names-agree: %s is subscripted with a Logic_t value but its extent is not known (%s)' % (rv['n'], g.get('ct')))
            size = int(m.group(1))
            short = rv['n'].split('::')[-1]
            where = '%s:%s' % (fx.rel(g['file']), g['line'])
            if size < len(enum):
                res.bad(r, 'enum-table-short:%s' % short, where, '%s has %d entries but is subscripted with a Logic_t value in %s and Logic_t has %d enumerators: the subscript is out of bounds '
                        'for Logic_t::%s and later, and every enumerator after the first missing entry gets a neighbour\'s entry' % (short, size, f['name'].replace('opensmt::', ''), len(enum), enum[size]))
                continue
            res.ok(r, '%s: %d entries for %d enumerators (subscripted in %s)' % (short, size, len(enum), f['name'].replace('opensmt::', '')))
            elems = [x['v'] for x in walk(g.get('init') or {}) if x.get('k') == 'str']
            if len(elems) == size:
                for i, e in enumerate(enum):
                    if e in rec and elems[i].lower() != rec[e].lower():
                        res.bad(r, 'enum-table-misnames:%s:%s' % (short, e), where, '%s[%d] is "%s" but enumerator %d is Logic_t::%s, named "%s" in its record' % (short, i, elems[i], i, e, rec[e]))
                    elif e in rec:
                        res.ok(r, '%s[Logic_t::%s] = "%s"' % (short, e, elems[i]))
    if n_tab == 0:
        res.ok(r, 'no global table is subscripted with a Logic_t value')
