"""C23 -- runs of the executable are reproducible: absence of nondeterminism sources (DESIGN 3-C23)."""
import concurrent.futures as cf
import os
import re
import subprocess

import build
from build import AnalysisBroken
from core import Result
from facts import Facts, fwalk, walk, callee, path_of, recv_path, see_through
from prims import mname, is_call, as_assign
from prim_fieldinit import uninitialised_fields, readers

LEVEL = 'other'
EXPLANATION = ('Output can differ between two runs on the same bytes and options only through a nondeterminism source. Decided over all built units: '
               '(1) no scalar data member is read anywhere while no constructor, in-class initialiser or assignment in the whole program ever writes it '
               '(an indeterminate value, typically stack or recycled-heap garbage that varies with address-space layout); (2) no iteration over a container '
               'ordered or hashed by pointer value, no pointer-to-integer conversion and no printing of a pointer; (3) wall/CPU clock, memory-usage and pid '
               'queries reach a branch condition or a non-printing callee only in the listed functions that implement an explicit user time budget; '
               '(4) the libc generator is used only after a seed that is a constant or the configured seed, std::random_device is not used, and every '
               'drand/irand call draws from a member seed initialised from the configuration; (5) command framing in pipe mode does not depend on read() '
               'chunk boundaries (shared with C20); thorough tier: (6) clang\'s definite-uninitialised-use dataflow warnings are empty for every unit. '
               'Decides absence of these sources; other undefined behaviour is not decided.')

CLOCK_CALLS = {'time', 'clock', 'gettimeofday', 'getrusage', 'clock_gettime', 'times', 'getpid', 'getppid', 'opensmt::cpuTime', 'opensmt::memUsed', 'opensmt::memReadStat'}
PRINTERS = ('printf', 'fprintf', 'sprintf', 'snprintf', 'reportf', 'operator<<', 'notify_formatted', 'comment_formatted', 'puts', 'fputs', 'std::round', 'round')
# functions in which a clock value may reach control flow (one reason each)
TIME_BUDGET_ALLOW = {
    'opensmt::ProofGraph::doReduction': 'explicit user time budget for proof reduction (:proof-ratio-red-solv / :proof-red-time); the time-dependent calls are guarded by those options being > 0',
    'opensmt::ProofGraph::proofTransformAndRestructure': 'loop bound `left_time`: -1 (exhaustive, time-independent) unless the caller passes the explicit user budget',
    'opensmt::ProofGraph::transfProofForReduction': 'measures solving_time for the ratio budget only',
    'opensmt::cpuTime': 'the clock wrapper itself',
    'opensmt::memUsed': 'the memory query wrapper itself',
    'opensmt::memReadStat': 'the /proc reader behind memUsed (pid used for the path only)',
    'opensmt::StopWatch::StopWatch': 'statistics timer', 'opensmt::StopWatch::~StopWatch': 'statistics timer',
}
ASSOC = re.compile(r'^(?:const )?(?:class |struct )?(std::(?:unordered_)?(?:multi)?(?:set|map)|opensmt::Map|opensmt::VecMap)<')


class _PK:
    """matches the (canonical) type of an associative container whose key type contains a pointer (directly or inside a pair/tuple)"""

    @staticmethod
    def match(t):
        t = t.strip()
        m = ASSOC.match(t)
        if not m:
            return None
        i = m.end()
        depth, j = 0, i
        while j < len(t):
            c = t[j]
            if c == '<':
                depth += 1
            elif c == '>':
                if depth == 0:
                    break
                depth -= 1
            elif c == ',' and depth == 0:
                break
            j += 1
        key = t[i:j]
        return key if '*' in key else None


POINTER_KEY = _PK


def is_clock(n):
    if not isinstance(n, dict) or n.get('k') != 'call':
        return False
    c = callee(n)
    return c in CLOCK_CALLS or c.split('<')[0] in CLOCK_CALLS or ('chrono' in c and c.endswith('::now')) or 'random_device' in c


def run(src, tier, seed):
    fx = Facts(src)
    res = Result('C23')
    res.assumptions += ['same binary, same libstdc++: iteration order of hash containers keyed by values (not addresses) is a function of the insertion sequence',
                        'default build configuration; units reachable from the executable = all built units (no reachability pruning)']
    # ---- R1 never-written scalar members
    r = res.rule('no-indeterminate-member-read', 'a scalar data member of a class with a user-declared constructor that some function reads is written somewhere: '
                 'in-class initialiser, constructor initialiser, or an assignment / out-parameter use anywhere in the program', floor=150)
    writes = set()
    for f in fx.F.values():
        for ini in f.get('inits', []):
            writes.add((f.get('class'), ini['m']))
        for n in fwalk(f):
            aa = as_assign(n)
            tgt = aa[0] if aa else (n['e'] if n.get('k') == 'un' and n.get('op') in ('++', '--') else None)
            if tgt is not None:
                t = see_through(tgt)
                while isinstance(t, dict) and t.get('k') == 'idx':
                    t = see_through(t['b'])
                if isinstance(t, dict) and t.get('k') == 'mem':
                    writes.add((t.get('of'), t['n']))
            if n.get('k') == 'call':
                for a, pt in zip(n.get('a', []), n.get('pt', [])):
                    t = see_through(a)
                    if isinstance(t, dict) and t.get('k') == 'un' and t.get('op') == '&':
                        t = see_through(t['e'])
                    if isinstance(t, dict) and t.get('k') == 'mem' and ('&' in pt or '*' in pt) and not pt.startswith('const'):
                        writes.add((t.get('of'), t['n']))
                if n.get('a'):
                    t = see_through(n['a'][0])
                    if isinstance(t, dict) and t.get('k') == 'mem' and callee(n).split('::')[-1] in ('strcpy', 'memset', 'memcpy', 'strncpy', 'snprintf', 'sprintf'):
                        writes.add((t.get('of'), t['n']))
    for cls in sorted(fx.R):
        if not cls.startswith('opensmt::'):
            continue
        rec = fx.R[cls]
        has_ctor = any(f.get('class') == cls and f.get('ctor') for f in fx.F.values())
        if not has_ctor:
            continue
        un = {fl['n'] for fl, bad, noctor in (uninitialised_fields(fx, cls) or [])}
        for fl in rec['fields']:
            if not fl.get('scalar'):
                continue
            if fl['n'] not in un or fl.get('init') or (cls, fl['n']) in writes:
                res.ok(r, '%s::%s' % (cls, fl['n']))
                continue
            rd = readers(fx, cls, fl['n'])
            if not rd:
                res.ok(r, '%s::%s (never read)' % (cls, fl['n']))
                continue
            res.bad(r, 'indeterminate-member:%s::%s' % (cls.split('opensmt::', 1)[1], fl['n']), '%s:%s' % (fx.rel(rec['file']), fl['ln']),
                    '%s::%s (%s) is read by %s but never written by any constructor, initialiser or assignment: its value is whatever the memory held'
                    % (cls, fl['n'], fl['ct'], sorted({x[0]['name'] for x in rd})[:3]), ['%s %s' % (fx.loc(x[0], x[1].get('ln')), x[0]['name']) for x in rd[:6]])

    # ---- R2 address-dependent order / values
    r = res.rule('no-address-dependence', 'no iteration over a container ordered/hashed by pointer value, no pointer-to-integer cast, no pointer printed', floor=3)
    n_ptr_containers = 0
    for f in fx.F.values():
        for n in fwalk(f):
            if n.get('k') == 'loop' and n.get('kind') == 'range':
                rg = see_through(n.get('range'))
                t = fx.expand_typedefs((rg.get('t') if isinstance(rg, dict) else '') or '')
                if POINTER_KEY.match(t):
                    res.bad(r, 'pointer-keyed-iteration:%s' % f['name'], fx.loc(f, n.get('ln')), '%s iterates over %s: the order follows pointer values, which change with address-space layout' % (f['name'], t[:80]))
            if n.get('k') == 'call' and mname(n) in ('begin', 'cbegin', 'rbegin') and n.get('recv') is not None:
                t = fx.expand_typedefs((see_through(n['recv']).get('t') if isinstance(see_through(n['recv']), dict) else '') or '')
                if POINTER_KEY.match(t):
                    res.bad(r, 'pointer-keyed-iteration:%s' % f['name'], fx.loc(f, n.get('ln')), '%s takes begin() of %s: iteration order follows pointer values' % (f['name'], t[:80]))
            if n.get('k') == 'cast' and n.get('ck') == 'PointerToIntegral' and not n.get('as'):
                res.bad(r, 'pointer-to-integer:%s' % f['name'], fx.loc(f, n.get('ln')), '%s converts a pointer to an integer (%s)' % (f['name'], n.get('to')))
            if n.get('k') == 'call' and 'operator<<' in callee(n) and any(p.replace('const ', '').strip() == 'void *' for p in n.get('pt', [])) and not n.get('as'):
                res.bad(r, 'pointer-printed:%s' % f['name'], fx.loc(f, n.get('ln')), '%s prints a pointer value' % f['name'])
            if n.get('k') == 'decl' and POINTER_KEY.match(n.get('ct') or ''):
                n_ptr_containers += 1
    for rec in fx.R.values():
        for fl in rec['fields']:
            if POINTER_KEY.match(fl.get('ct') or ''):
                n_ptr_containers += 1
                res.ok(r, '%s::%s is pointer-keyed; membership use only' % (rec['name'], fl['n']))
    res.ok(r, 'pointer-keyed containers found: %d; none iterated' % n_ptr_containers)
    res.ok(r, 'no pointer-to-integer cast and no pointer printed in %d functions' % len(fx.F))
    res.ok(r, 'range-for loops scanned: %d' % sum(1 for f in fx.F.values() for n in fwalk(f) if n.get('k') == 'loop' and n.get('kind') == 'range'))

    # ---- R3 clocks
    r = res.rule('clock-not-in-control-flow', 'a clock / memory / pid query reaches a branch condition or a non-printing callee only in the listed time-budget functions', floor=10)
    derived = set()       # functions that return a clock-derived value: their calls are clock sources too

    def is_src(n):
        return is_clock(n) or (isinstance(n, dict) and n.get('k') == 'call' and n.get('id') in derived)

    def is_printer(n):
        c = callee(n)
        return any(c.endswith(p) or mname(n) == p for p in PRINTERS) or c.startswith(('std::basic_ostream', 'std::operator<<', 'std::setw', 'std::setprecision'))

    def analyse(f):
        tainted = set()

        def tainted_expr(e):
            for x in walk(e):
                if is_src(x):
                    return True
                if x.get('k') == 'ref' and x.get('d') in ('local', 'param') and x['n'] in tainted:
                    return True
                if x.get('k') == 'mem' and path_of(x) in tainted:
                    return True
            return False
        changed = True
        while changed:
            changed = False
            for n in fwalk(f):
                if n.get('k') == 'decl' and n.get('init') is not None and n['n'] not in tainted and tainted_expr(n['init']):
                    tainted.add(n['n']); changed = True
                aa = as_assign(n) or ((n['l'], n['r']) if n.get('k') == 'bin' and n.get('op') in ('+=', '-=', '*=', '/=') else None)
                if aa and tainted_expr(aa[1]):
                    p = path_of(aa[0])
                    if p and p not in tainted:
                        tainted.add(p); changed = True
        printed = set()
        for n in fwalk(f):
            if n.get('k') == 'call' and is_printer(n):
                for x in walk([n.get('a'), n.get('recv')]):
                    printed.add(id(x))
        sinks, returns = [], False
        for n in fwalk(f):
            if n.get('as') or id(n) in printed:
                continue
            if n.get('k') in ('if', 'loop', 'switch') and n.get('cond') is not None and tainted_expr(n['cond']):
                sinks.append((n.get('ln'), 'branch condition'))
            if n.get('k') == 'cond' and tainted_expr(n.get('c')):
                sinks.append((n.get('ln'), 'conditional expression'))
            if n.get('k') == 'call' and not is_src(n) and not is_printer(n) and any(tainted_expr(a) for a in n.get('a', [])):
                sinks.append((n.get('ln'), 'argument of %s' % callee(n)))
            if n.get('k') == 'ret' and n.get('e') is not None and tainted_expr(n['e']):
                returns = True
        return sinks, returns
    changed = True
    results = {}
    while changed:
        changed = False
        for f in fx.F.values():
            if not any(is_src(n) for n in fwalk(f) if not n.get('as')):
                continue
            sinks, returns = analyse(f)
            results[f['id']] = sinks
            if returns and f['id'] not in derived and not is_clock({'k': 'call', 'f': f['name']}):
                derived.add(f['id']); changed = True
    for i, sinks in sorted(results.items(), key=lambda kv: fx.F[kv[0]]['name']):
        f = fx.F[i]
        nsites = sum(1 for n in fwalk(f) if is_src(n) and not n.get('as'))
        if f['name'] in TIME_BUDGET_ALLOW:
            res.ok(r, '%s: %d clock site(s), allowed: %s' % (f['name'], nsites, TIME_BUDGET_ALLOW[f['name']]))
        elif sinks:
            res.bad(r, 'clock-in-control-flow:%s' % f['name'], fx.loc(f, sinks[0][0]), '%s lets a clock/memory/pid value reach %s: behaviour depends on timing'
                    % (f['name'], sorted({s[1] for s in sinks})), ['line %s: %s' % s for s in sinks[:8]])
        else:
            res.ok(r, '%s: %d clock site(s), values only printed, stored or returned' % (f['name'], nsites))
    res.extra['clock_derived_functions'] = sorted(fx.F[i]['name'] for i in derived)

    # ---- R4 randomness
    r = res.rule('seeded-randomness', 'rand() is preceded in its component by srand(constant | configured seed); no std::random_device; drand/irand draw from a member seed set from the configuration', floor=5)
    by_class_srand = {}
    for f in fx.F.values():
        for n in fwalk(f):
            if n.get('k') == 'call' and callee(n) in ('srand', 'std::srand', 'srandom', 'srand48'):
                a = see_through(n['a'][0]) if n.get('a') else None
                okseed = isinstance(a, dict) and (a.get('k') == 'lit' or (a.get('k') == 'call' and mname(a) in ('getRandomSeed', 'proof_random_seed')))
                if isinstance(a, dict) and a.get('k') == 'cast':
                    a2 = see_through(a['e'])
                    okseed = okseed or (isinstance(a2, dict) and (a2.get('k') == 'lit' or (a2.get('k') == 'call' and mname(a2) == 'getRandomSeed')))
                by_class_srand.setdefault(f.get('class'), []).append((f, n, okseed))
                if okseed:
                    res.ok(r, '%s: srand(%s)' % (fx.loc(f, n['ln']), 'constant' if a.get('k') == 'lit' else 'configured seed'))
                else:
                    res.bad(r, 'srand-unreproducible:%s' % f['name'], fx.loc(f, n['ln']), '%s seeds the libc generator from something other than a constant or the configured seed' % f['name'])
            if n.get('k') in ('new', 'decl') and 'random_device' in ((n.get('t') or '') + (n.get('ct') or '')):
                res.bad(r, 'random-device:%s' % f['name'], fx.loc(f, n.get('ln')), '%s uses std::random_device' % f['name'])
    for f in fx.F.values():
        rs = [n for n in fwalk(f) if n.get('k') == 'call' and callee(n) in ('rand', 'std::rand', 'random', 'lrand48', 'drand48') and not n.get('as')]
        if not rs:
            continue
        if by_class_srand.get(f.get('class')):
            res.ok(r, '%s: %d rand() site(s); %s seeds the generator' % (f['name'], len(rs), f.get('class')))
        else:
            res.bad(r, 'rand-unseeded:%s' % f['name'], fx.loc(f, rs[0]['ln']), '%s calls rand() but no method of %s seeds the generator: the sequence depends on what ran before' % (f['name'], f.get('class')))
    for f in fx.F.values():
        for n in fwalk(f):
            if n.get('k') == 'call' and callee(n) in ('opensmt::drand', 'opensmt::irand') and f['name'] not in ('opensmt::irand',):
                a = see_through(n['a'][0]) if n.get('a') else None
                p = path_of(a)
                if p in ('this.random_seed', 'this.seed') or (p or '').endswith('random_seed'):
                    res.ok(r, '%s: %s(%s)' % (fx.loc(f, n['ln']), mname(n), p))
                else:
                    res.bad(r, 'prng-foreign-seed:%s' % f['name'], fx.loc(f, n['ln']), '%s draws from seed `%s`, which is not the per-instance seed member' % (f['name'], p))
    # the seed members are initialised from the configuration or a constant
    for cls, fld in (('opensmt::CoreSMTSolver', 'random_seed'), ('opensmt::LASolver', 'seed')):
        ok = False
        for f in fx.F.values():
            if f.get('class') == cls and f.get('ctor'):
                for ini in f.get('inits', []):
                    if ini['m'] == fld and (any(x.get('k') == 'call' and mname(x) in ('getRandomSeed',) for x in walk(ini['e'])) or any(x.get('k') in ('lit', 'flit') for x in walk(ini['e']))):
                        ok = True
        rec = fx.R.get(cls)
        if rec and any(fl['n'] == fld and fl.get('init') for fl in rec['fields']):
            ok = True
        if ok:
            res.ok(r, '%s::%s initialised from the configuration / a constant' % (cls, fld))
        else:
            res.bad(r, 'seed-init:%s::%s' % (cls, fld), fx.loc(fx.func(cls + '::' + cls.split('::')[-1], pred=lambda f: True) if False else next(f for f in fx.F.values() if f.get('class') == cls and f.get('ctor'))),
                    '%s::%s is no longer initialised from the configured seed or a constant' % (cls, fld))

    # ---- R4b option values: the union member an accessor reads must be guaranteed by a tag check
    r = res.rule('option-tag-checked', 'every SMTConfig accessor that reads a numeric member (numval/decval/unumval) of an option value is protected by a type-tag test, '
                 'in the accessor or as a rejecting test for that option in SMTConfig::setOption: otherwise a symbol/string value is accepted and the bits of its heap pointer are read as the number', floor=40)
    so = fx.func('opensmt::SMTConfig::setOption')
    NUMERIC_TAGS = {'O_NUM', 'O_BOOL', 'O_DEC', 'O_HEX', 'O_BIN'}
    checked = {}
    for n in walk(so['body']):
        if n.get('k') == 'if' and not n.get('as'):
            names = [x['n'].split('::')[-1] for x in walk(n['cond']) if x.get('k') == 'ref' and x.get('d') == 'global' and x['n'].split('::')[-1].startswith('o_')]
            if not names:
                continue
            for m in walk(n['then']):
                if m.get('k') == 'if' and any(x.get('k') == 'mem' and x.get('n') == 'type' for x in walk(m['cond'])) and any(x.get('k') == 'ret' for x in walk(m['then'])):
                    tags = [x['n'].split('::')[-1] for x in walk(m['cond']) if x.get('k') == 'ref' and x.get('d') == 'enum']
                    for nm in names:
                        checked.setdefault(nm, set()).update(tags)
    n_acc = 0
    cv = fx.record('opensmt::ConfValue')
    own = {fl['n']: fl for fl in cv['fields']}
    members = ('strval', 'numval', 'decval', 'unumval', 'configs')
    separate = all(m in own and own[m].get('init') for m in members)
    shared = [rn for rn, rr in fx.R.items() if rn.startswith('opensmt::ConfValue::(anonymous') and any(fl['n'] in members for fl in rr['fields'])]
    if not separate and not shared:
        raise AnalysisBroken('ConfValue: value members not found')
    res.extra['option_value_storage'] = 'separate default-initialised members' if separate else 'anonymous union'
    for f in sorted((g for g in fx.F.values() if g.get('class') == 'opensmt::SMTConfig'), key=lambda g: g['name']):
        reads = []
        for n in fwalk(f):
            if n.get('k') == 'mem' and n.get('n') in ('numval', 'decval', 'unumval') and not n.get('as'):
                opts = [x['n'].split('::')[-1] for x in walk(n['b']) if x.get('k') == 'ref' and x.get('d') == 'global' and x['n'].split('::')[-1].startswith('o_')]
                for o in opts:
                    reads.append((o, n['n'], n.get('ln')))
        if not reads or f['name'].endswith('::setOption'):
            continue
        self_checks = any(x.get('k') == 'mem' and x.get('n') == 'type' for x in fwalk(f))
        for o, member, ln in sorted(set(reads)):
            n_acc += 1
            tags = checked.get(o, set())
            if separate:
                res.ok(r, '%s reads %s of %s: the members of ConfValue have their own default-initialised storage, a mismatched read is deterministic' % (f['name'].split('::')[-1], member, o))
            elif self_checks or (tags and tags <= NUMERIC_TAGS):
                res.ok(r, '%s reads %s of %s: tag checked (%s)' % (f['name'].split('::')[-1], member, o, 'in the accessor' if self_checks else sorted(tags)))
            else:
                res.bad(r, 'option-tag-unchecked:%s:%s' % (o, f['name'].split('::')[-1]), fx.loc(f, ln),
                        'SMTConfig::%s reads .%s of option %s, but neither the accessor nor setOption checks the value\'s type tag: `(set-option %s abc)` is accepted and the pointer bits of the '
                        'strdup\'ed symbol are used as the number (differs from run to run under address-space randomisation)' % (f['name'].split('::')[-1], member, o, ':' + o[2:].replace('_', '-')))
    if n_acc < 40:
        raise AnalysisBroken('only %d numeric option accessors found (expected >= 40)' % n_acc)

    # ---- R5 chunk independence (shared with C20)
    import C20
    r = res.rule('framing-independent-of-chunking', 'pipe-mode command framing is a function of the bytes, not of where read() boundaries fall (C20 rule)', floor=1)
    c20 = C20.run(src, tier, seed)
    hit = [fd for fd in c20.findings if fd.key == 'chunk-dependent-framing' or fd.key.startswith('framing-state-reset-per-chunk')]
    if hit:
        for fd in hit:
            res.bad(r, fd.key, fd.where, fd.msg)
    else:
        res.ok(r, 'interpPipe framing state lives at function scope and the loop body reads only the current byte')

    # ---- R6 (thorough) compiler dataflow warnings
    if tier == 'thorough':
        r = res.rule('definite-uninitialised-use', 'clang -Wuninitialized -Wsometimes-uninitialized (flow-sensitive, no false positives on infeasible paths by design) report nothing in any unit', floor=89)
        gen = fx.gen_dir
        flags = ['-std=gnu++20', '-I' + fx.src_root, '-I' + gen, '-I' + os.path.join(fx.src_root, 'parsers', 'smt2new'), '-DNDEBUG', '-DOPENSMT_GIT_DESCRIPTION="x"', '-fsyntax-only',
                 '-Wno-everything', '-Wuninitialized', '-Wsometimes-uninitialized', '-resource-dir', build.RESOURCE_DIR]

        def one(u):
            p = subprocess.run(['clang++'] + flags + [u], capture_output=True, text=True)
            return u, p.returncode, p.stderr
        with cf.ThreadPoolExecutor(max_workers=16) as ex:
            for u, rc, err in ex.map(one, fx.units):
                warns = [l for l in err.splitlines() if 'warning:' in l and (fx.src_root in l or gen in l)]
                if rc != 0 and 'error' in err:
                    raise AnalysisBroken('clang -fsyntax-only failed on %s: %s' % (u, err[-300:]))
                if warns:
                    res.bad(r, 'uninitialised-use:%s' % fx.rel(u), fx.rel(u), 'clang reports a definite uninitialised use: %s' % warns[0][:200], warns[:6])
                else:
                    res.ok(r, fx.rel(u))
    import fmtrule
    fmtrule.format_rule(fx, res)
    return res
