"""C26 -- arithmetic conflicts carry valid Farkas certificates: shape of the certificate construction (DESIGN 3-C26)."""
from build import AnalysisBroken
from core import Result
from facts import Facts, fwalk, walk, callee, path_of, recv_path, see_through
from prims import mname, is_call, as_assign
from walk import Client, Engine

LEVEL = 'other'
EXPLANATION = ('Simplex::getConflictingBounds builds the certificate for a row x = sum(c_i * v_i) whose basic variable violates a bound. For the weighted sum to cancel '
               'every variable, the row conflict must cite the violated bound of x with weight 1 and, for EVERY row variable, exactly ONE bound with weight |c_i|: '
               'the upper bound if moving v_i up would repair x and the lower bound otherwise (kind fixed by sign(c_i) and the conflict direction). The check '
               'interprets the function abstractly for the four combinations (coefficient negative?, conflict on lower bound?), enumerating every path of the loop '
               'body, and requires exactly one cited bound per row variable, of the mathematically required kind, with a coefficient whose abstract sign is positive. '
               'The two-literal conflicts of Simplex::assertBound must cite both bounds with positive literal weights, of opposite kinds; LASolver::storeExplanation '
               'must copy bound and coefficient unchanged and be the only writer of explanationCoefficients. Decides this construction (necessary for every row '
               'conflict to be a Farkas certificate), not the numeric cancellation itself, which depends on tableau values.')

# required bound kind: (coefficient negative, conflict on lower bound of x) -> kind of the cited bound of the row variable
#   x below its lower bound: x must grow; v_i with c_i > 0 must grow -> blocked by its Upper bound; c_i < 0 must shrink -> blocked by its Lower bound
REQUIRED_KIND = {(False, True): 'U', (True, True): 'L', (False, False): 'L', (True, False): 'U'}


class Abort(Exception):
    pass


class RowWalk(Client):
    skip_asserts = True

    def __init__(self, neg, lower, coeff_names, lower_name):
        self.neg, self.lower = neg, lower
        self.coeff_names, self.lower_name = coeff_names, lower_name
        self.exits = []
        self.unknown_conds = []
        self.expl_name = 'expl'

    # -- evaluation helpers
    def truth(self, c):
        """value of a condition under (neg, lower), or None if it does not depend only on them"""
        c = see_through(c)
        if not isinstance(c, dict):
            return None
        if c.get('k') == 'un' and c.get('op') == '!':
            v = self.truth(c['e'])
            return None if v is None else (not v)
        if c.get('k') == 'ref' and c.get('n') == self.lower_name:
            return self.lower
        if c.get('k') == 'call' and mname(c) == 'isNegative' and c.get('a') and path_of(c['a'][0]) in self.coeff_names:
            return self.neg
        if c.get('k') == 'call' and mname(c) == 'isPositive' and c.get('a') and path_of(c['a'][0]) in self.coeff_names:
            return not self.neg
        return None

    def kind(self, e, env):
        e = see_through(e)
        if not isinstance(e, dict):
            return None
        if e.get('k') == 'cond':
            v = self.truth(e['c'])
            if v is None:
                a, b = self.kind(e['t'], env), self.kind(e['f'], env)
                return a if a == b else None
            return self.kind(e['t'] if v else e['f'], env)
        if e.get('k') == 'call' and mname(e) == 'readLBoundRef':
            return 'L'
        if e.get('k') == 'call' and mname(e) == 'readUBoundRef':
            return 'U'
        if e.get('k') == 'ref':
            return dict(env).get(e['n'])
        if e.get('k') in ('new', 'init') and len(e.get('a') or e.get('e') or []) == 1:
            return self.kind((e.get('a') or e.get('e'))[0], env)
        return None

    def sign(self, e, env):
        """abstract sign of a coefficient expression: 'pos', 'nonneg', 'neg', 'any'"""
        e = see_through(e)
        if not isinstance(e, dict):
            return 'any'
        if e.get('k') == 'lit':
            return 'pos' if isinstance(e['v'], (int, float)) and not isinstance(e['v'], bool) and e['v'] > 0 else ('neg' if isinstance(e['v'], (int, float)) and e['v'] < 0 else 'any')
        if e.get('k') in ('new', 'init') and len(e.get('a') or e.get('e') or []) == 1:
            return self.sign((e.get('a') or e.get('e'))[0], env)
        if e.get('k') == 'ref':
            if e['n'] in self.coeff_names:
                return 'neg' if self.neg else 'pos!0'     # non-negative and, by the row invariant (no zero coefficient), positive
            return dict(env).get('sign:' + e['n'], 'any')
        if (e.get('k') == 'un' and e.get('op') == '-') or (e.get('k') == 'call' and e.get('op') == '-' and not e.get('a')):
            inner = self.sign(e.get('e') if e.get('k') == 'un' else e.get('recv'), env)
            return {'neg': 'pos', 'pos': 'neg', 'pos!0': 'neg'}.get(inner, 'any')
        if e.get('k') == 'call' and e.get('op') == '-' and len(e.get('a', [])) == 1 and e.get('recv') is None:
            inner = self.sign(e['a'][0], env)
            return {'neg': 'pos', 'pos': 'neg', 'pos!0': 'neg'}.get(inner, 'any')
        if e.get('k') == 'call' and mname(e) == 'abs' and e.get('a'):
            inner = self.sign(e['a'][0], env)
            return 'pos' if inner in ('neg', 'pos') else ('pos!0' if inner == 'pos!0' else 'nonneg')
        return 'any'

    # -- events
    def on_cond(self, atom, s, branch):
        v = self.truth(atom)
        if v is None:
            a = see_through(atom)
            if isinstance(a, dict) and a.get('k') in ('call', 'ref', 'bin'):
                self.unknown_conds.append(a.get('ln'))
            return s
        return s if v == branch else None

    def on_decl(self, n, s):
        env, pushes = s
        k = self.kind(n.get('init'), env)
        sg = self.sign(n.get('init'), env)
        env = frozenset(x for x in env if x[0] not in (n['n'], 'sign:' + n['n']))
        if k:
            env = env | {(n['n'], k)}
        if sg != 'any':
            env = env | {('sign:' + n['n'], sg)}
        return ((env, pushes),)

    def on_call(self, n, s):
        env, pushes = s
        if mname(n) in ('push_back', 'emplace_back', 'push') and (recv_path(n) or '') == self.expl_name:
            args = n.get('a', [])
            if len(args) == 1:
                el = see_through(args[0])
                parts = (el.get('e') or el.get('a') or []) if isinstance(el, dict) and el.get('k') in ('init', 'new') else []
            else:
                parts = args
            if len(parts) != 2:
                raise Abort('push to the explanation at line %s not understood' % n.get('ln'))
            k = self.kind(parts[0], env)
            sg = self.sign(parts[1], env)
            return ((env, pushes + ((k, sg, n.get('ln')),)),)
        return (s,)

    def on_exit(self, kind, node, s):
        self.exits.append(s)


def run(src, tier, seed):
    fx = Facts(src)
    res = Result('C26')
    res.assumptions += ['tableau rows hold no zero coefficient (asserted at the site; maintained by the polynomial class)',
                        'default build configuration; assert(...) is compiled out']
    gcb = fx.func('opensmt::Simplex::getConflictingBounds')
    params = [p['n'] for p in gcb['params']]
    lower_name = next((p['n'] for p in gcb['params'] if p['t'] == 'bool'), None)
    if not lower_name:
        raise AnalysisBroken('getConflictingBounds: Boolean direction parameter not found')
    # the explanation under construction: the local that the function returns
    rets = [path_of(n.get('e')) for n in walk(gcb['body']) if n.get('k') == 'ret' and n.get('e') is not None]
    expl_name = next((x for x in rets if x), None)
    if not expl_name:
        raise AnalysisBroken('getConflictingBounds: the returned explanation variable was not found')
    # the loop that builds the explanation is the one that appends to the returned variable
    loops = [n for n in walk(gcb['body']) if n.get('k') == 'loop' and n.get('kind') in ('range', 'for') and
             any(x.get('k') == 'call' and mname(x) in ('push_back', 'emplace_back', 'push') and recv_path(x) == expl_name for x in walk(n['body']))]
    if len(loops) != 1:
        raise AnalysisBroken('getConflictingBounds: expected one loop over the row that appends to the explanation, found %d' % len(loops))
    lp = loops[0]
    # the basic variable's bound enters with the literal coefficient 1 before the loop: the row coefficients must then be taken as they are
    scaled = []
    for d in walk(lp['body']):
        if d.get('k') == 'decl' and d.get('init') is not None:
            i = see_through(d['init'])
            mentions = any(isinstance(x, dict) and x.get('k') == 'mem' and x.get('n') == 'coeff' for x in [i] + list(walk(d['init'])))
            exact = isinstance(i, dict) and i.get('k') == 'mem' and i.get('n') == 'coeff'
            negated = isinstance(i, dict) and ((i.get('k') == 'un' and i.get('op') == '-') or (i.get('k') == 'call' and i.get('op') == '-' and not i.get('a'))) and \
                isinstance(see_through(i.get('e') or i.get('recv')), dict) and see_through(i.get('e') or i.get('recv')).get('n') == 'coeff'
            if mentions and not exact and not negated:
                scaled.append(d)
    # names bound to the coefficient of the current term
    coeff_names = set()
    for d in walk(lp['body']):
        if d.get('k') == 'decl':
            i = see_through(d.get('init'))
            if isinstance(i, dict) and i.get('k') == 'mem' and i.get('n') == 'coeff':
                coeff_names.add(d['n'])
    coeff_names |= {'term.coeff'} | {d['n'] for d in scaled}
    rs = res.rule('row-coefficients-as-they-are', 'the weight stored for a row variable is the row coefficient itself or its negation: the bound of the basic variable enters with the literal weight 1, '
                  'so a rescaled row coefficient gives a combination in which the variables no longer cancel', floor=1)
    if scaled:
        res.bad(rs, 'row-coefficient-rescaled', fx.loc(gcb, scaled[0].get('ln')), 'Simplex::getConflictingBounds computes the weight of a row variable from its coefficient by further arithmetic (`%s`) while '
                'the bound of the basic variable keeps the weight 1: the weighted sum of the cited bounds no longer cancels the variables, the conflict carries no valid Farkas certificate and '
                'interpolants computed from it are wrong' % (scaled[0].get('n')))
    else:
        res.ok(rs, 'getConflictingBounds: weights are the row coefficients (or their negations)')
    for d in scaled:
        pass
    r = res.rule('one-bound-per-row-variable', 'for each of the four (sign of coefficient, conflict direction) cases, every path through the loop body cites exactly one bound '
                 'of the row variable, of the kind required for cancellation, with a positive coefficient', floor=4)
    for neg in (False, True):
        for lower in (False, True):
            c = RowWalk(neg, lower, coeff_names, lower_name)
            c.expl_name = expl_name
            # one iteration of the loop body (do { body } while (false)): `continue` / `break` leave the iteration
            pseudo = {'body': {'k': 'loop', 'kind': 'do', 'cond': {'k': 'lit', 'v': False, 't': 'bool'}, 'body': lp['body'], 'ln': lp.get('ln')},
                      'lambdas': gcb.get('lambdas', [])}
            eng = Engine(pseudo, c)
            try:
                eng.run([(frozenset(), ())])
            except Abort as e:
                raise AnalysisBroken('getConflictingBounds: %s' % e)
            if eng.broken:
                raise AnalysisBroken('getConflictingBounds: %s' % eng.broken)
            case = 'coefficient %s, conflict on %s bound' % ('negative' if neg else 'positive', 'lower' if lower else 'upper')
            want = REQUIRED_KIND[(neg, lower)]
            problems = set()
            for env, pushes in c.exits:
                if len(pushes) != 1:
                    problems.add('a path cites %d bounds of the row variable (lines %s)' % (len(pushes), [p[2] for p in pushes]))
                    continue
                k, sg, ln = pushes[0]
                if k != want:
                    problems.add('cites the %s bound at line %s, cancellation needs the %s bound' % ({'L': 'lower', 'U': 'upper', None: 'undetermined'}[k], ln, {'L': 'lower', 'U': 'upper'}[want]))
                if sg not in ('pos', 'pos!0'):
                    problems.add('the coefficient stored at line %s has abstract sign %s, not positive' % (ln, sg))
            if not c.exits:
                problems.add('no path through the loop body')
            if problems:
                res.bad(r, 'row-bound:%s:%s' % ('neg' if neg else 'pos', 'lower' if lower else 'upper'), fx.loc(gcb, lp.get('ln')),
                        'getConflictingBounds, %s: %s%s' % (case, '; '.join(sorted(problems)),
                                                            ('; the choice depends on conditions other than the coefficient sign and the direction (lines %s)' % sorted(set(x for x in c.unknown_conds if x))) if c.unknown_conds else ''))
            else:
                res.ok(r, '%s: one %s bound, positive weight' % (case, {'L': 'lower', 'U': 'upper'}[want]))
    # ---- the violated bound of the basic variable itself
    r = res.rule('basic-variable-bound', 'the violated bound of the basic variable is cited first, with literal weight 1: lower bound iff the conflict is on the lower bound', floor=2)
    pre = [s for s in (gcb['body']['c'] if gcb['body'].get('k') == 'seq' else []) if isinstance(s, dict)]
    for lower in (False, True):
        c = RowWalk(False, lower, coeff_names, lower_name)
        c.expl_name = expl_name
        env = frozenset()
        pushes = ()
        st = (env, pushes)
        for s in pre:
            if s is lp:
                break
            if s.get('k') == 'decl':
                st = c.on_decl(s, st)[0]
            elif s.get('k') == 'e' and isinstance(s.get('e'), dict) and s['e'].get('k') == 'call' and not s.get('as'):
                try:
                    st = c.on_call(s['e'], st)[0]
                except Abort as e:
                    raise AnalysisBroken('getConflictingBounds: %s' % e)
        want = 'L' if lower else 'U'
        ps = st[1]
        if len(ps) == 1 and ps[0][0] == want and ps[0][1] == 'pos':
            res.ok(r, 'conflict on %s bound: cites the %s bound of x with weight 1' % ('lower' if lower else 'upper', 'lower' if lower else 'upper'))
        else:
            res.bad(r, 'basic-bound:%s' % ('lower' if lower else 'upper'), fx.loc(gcb), 'getConflictingBounds (conflict on %s bound) starts the certificate with %s instead of the violated bound of the basic variable with weight 1'
                    % ('lower' if lower else 'upper', [(p[0], p[1]) for p in ps]))
    # ---- assertBound's two-literal conflict
    r = res.rule('trivial-conflict-pair', 'Simplex::assertBound reports an immediately violated bound together with the opposite bound of the same variable, both with literal weight 1', floor=1)
    sab = fx.func('opensmt::Simplex::assertBound')
    found = 0
    for n in walk(sab['body']):
        if n.get('k') == 'ret' and isinstance(n.get('e'), dict):
            e = see_through(n['e'])
            els = (e.get('e') or e.get('a') or []) if e.get('k') in ('init', 'new') else []
            while len(els) == 1 and isinstance(see_through(els[0]), dict) and see_through(els[0]).get('k') in ('init', 'new'):
                inner = see_through(els[0])
                els = inner.get('e') or inner.get('a') or []
            if len(els) == 2:
                found += 1
                ws = []
                for el in els:
                    el = see_through(el)
                    parts = (el.get('e') or el.get('a') or []) if isinstance(el, dict) else []
                    w = see_through(parts[1]) if len(parts) == 2 else None
                    while isinstance(w, dict) and w.get('k') in ('new', 'init') and len(w.get('a') or w.get('e') or []) == 1:
                        w = see_through((w.get('a') or w.get('e'))[0])
                    ws.append(w.get('v') if isinstance(w, dict) and w.get('k') == 'lit' else None)
                if all(isinstance(w, int) and w > 0 for w in ws):
                    res.ok(r, '%s: weights %s' % (fx.loc(sab, n['ln']), ws))
                else:
                    res.bad(r, 'trivial-conflict-weights', fx.loc(sab, n['ln']), 'Simplex::assertBound returns a two-bound conflict whose weights %s are not positive literals' % ws)
    if not found:
        raise AnalysisBroken('Simplex::assertBound: the two-bound conflict return was not found')
    # opposite kinds: the partner bound is read with the opposite reader of the asserted bound's type
    ok_opp = False
    for d in walk(sab['body']):
        if d.get('k') == 'decl' and isinstance(d.get('init'), dict) and see_through(d['init']).get('k') == 'cond':
            ce = see_through(d['init'])
            cond_s = str(ce.get('c'))
            t, f = see_through(ce['t']), see_through(ce['f'])
            if 'bound_u' in cond_s and mname(t) == 'readLBoundRef' and mname(f) == 'readUBoundRef':
                ok_opp = True
            if 'bound_l' in cond_s and mname(t) == 'readUBoundRef' and mname(f) == 'readLBoundRef':
                ok_opp = True
    rr = res.rule('trivial-conflict-opposite', 'the partner bound of a trivially violated upper bound is the current lower bound and vice versa', floor=1)
    if ok_opp:
        res.ok(rr, fx.loc(sab))
    else:
        res.bad(rr, 'trivial-conflict-kind', fx.loc(sab), 'Simplex::assertBound no longer pairs a violated upper bound with the current lower bound (and vice versa)')
    # ---- storage
    r = res.rule('coefficients-stored-unchanged', 'LASolver::storeExplanation pushes bound i and coefficient i of the simplex explanation, unmodified, in the same loop; '
                 'it is the only writer of explanationCoefficients; both interpolators read that vector', floor=3)
    se = fx.func('opensmt::LASolver::storeExplanation')
    okse = False
    for lpx in (x for x in walk(se['body']) if x.get('k') == 'loop'):
        pe = [n for n in walk(lpx['body']) if is_call(n, 'push', 'this.explanation') or is_call(n, 'push_back', 'this.explanation')]
        pc = [n for n in walk(lpx['body']) if is_call(n, 'push_back', 'this.explanationCoefficients') or is_call(n, 'push', 'this.explanationCoefficients') or is_call(n, 'emplace_back', 'this.explanationCoefficients')]
        if len(pe) == 1 and len(pc) == 1:
            a = see_through(pc[0]['a'][0])
            while isinstance(a, dict) and a.get('k') in ('new', 'init') and len(a.get('a') or a.get('e') or []) == 1:
                a = see_through((a.get('a') or a.get('e'))[0])
            okse = isinstance(a, dict) and a.get('k') == 'mem' and a.get('n') == 'coeff'
    if okse:
        res.ok(r, 'storeExplanation: explanation.push(asgn of bound i); explanationCoefficients.push_back(coeff i)')
    else:
        res.bad(r, 'store-explanation', fx.loc(se), 'LASolver::storeExplanation no longer stores each coefficient unchanged next to its bound')
    writers = set()
    for f in fx.F.values():
        for n in fwalk(f):
            if n.get('k') == 'call' and not n.get('mc') and (recv_path(n) or '').endswith('explanationCoefficients') and not n.get('as'):
                writers.add(f['name'])
            aa = as_assign(n)
            if aa and (path_of(aa[0]) or '').endswith('explanationCoefficients'):
                writers.add(f['name'])
    if writers == {'opensmt::LASolver::storeExplanation'}:
        res.ok(r, 'single writer: LASolver::storeExplanation')
    else:
        res.bad(r, 'coefficient-writers', fx.loc(se), 'explanationCoefficients is written by %s' % sorted(writers))
    readers = [f['name'] for f in fx.F.values() if f.get('class') == 'opensmt::LASolver' and 'Interpolant' in f['name'] and any(x.get('k') == 'mem' and x.get('n') == 'explanationCoefficients' for x in fwalk(f))]
    if len(readers) >= 2:
        res.ok(r, 'interpolators read explanationCoefficients: %s' % sorted(readers))
    else:
        res.bad(r, 'coefficient-readers', fx.loc(se), 'the LRA/LIA interpolant constructors no longer take their weights from explanationCoefficients (%s)' % readers)
    return res
