"""C09 -- sequence interpolants satisfy the path-interpolation property: the mask protocol (DESIGN 9.3-C09)."""
from build import AnalysisBroken
from core import Result
from facts import Facts, fwalk, walk, callee, path_of, recv_path, see_through
from prims import mname, is_call
from walk import Client, Engine

LEVEL = 'other'
EXPLANATION = ('That each returned formula is a Craig interpolant and that I_i and G_{i+1} imply I_{i+1} are implications between formulas computed at run time and are not decided. '
               'Decided is the protocol that makes the k-1 requests a *sequence* in the first place: Interpret::getInterpolants builds the A-masks cumulatively (one mask variable that '
               'lives across the group loop, only ever gains bits, and is appended exactly once per accepted group, for the groups 1..k-1 in order), and '
               'InterpolationContext::getPathInterpolants answers every mask, in order, with one interpolant. With non-nested masks or a skipped / reordered mask the result is not a '
               'path interpolant whatever the interpolation engine computes. For the proof-sensitive Boolean algorithms the colour of a shared variable depends on the cut; decided is '
               'that it moves only from b towards a along the sequence (abstract evaluation of computePSFunction and of the PS / PSW / PSS leaf-colouring lambdas), the condition '
               'under which a family of labelled interpolation systems keeps the path property.')


class MaskLoop(Client):
    """one iteration of the group loop: (bits added to the running mask?, appended n times, rejected?)"""

    def __init__(self, mask, out):
        self.mask, self.out = mask, out
        self.exits = set()
        self.violations = []

    def on_call(self, n, s):
        add, pushed, rej = s
        if callee(n).endswith('setbit') and n.get('a') and path_of(n['a'][0]) == self.mask:
            return ((True, pushed, rej),)
        if callee(n).endswith(('clrbit', 'clearbit')) and n.get('a') and path_of(n['a'][0]) == self.mask:
            self.violations.append((n.get('ln'), 'a bit of the running mask is cleared'))
        if mname(n) in ('emplace_back', 'push_back', 'push') and recv_path(n) == self.out:
            if not (n.get('a') and path_of(n['a'][0]) == self.mask):
                self.violations.append((n.get('ln'), 'something other than the running mask is appended'))
            return ((add, pushed + 1, rej),)
        if n.get('op') in ('=', '&=', '^=', '-=', '>>=', '<<=') or (n.get('op') == '|=' ):
            tgt = path_of(n['recv']) if n.get('recv') is not None else (path_of(n['a'][0]) if n.get('a') else None)
            if tgt == self.mask:
                if n.get('op') == '|=':
                    return ((True, pushed, rej),)
                self.violations.append((n.get('ln'), 'the running mask is overwritten (%s)' % n.get('op')))
        if callee(n).endswith('notify_formatted') and n.get('a') and see_through(n['a'][0]).get('v') is True:
            return ((add, pushed, True),)
        return (s,)

    def on_assign(self, n, s):
        if n.get('k') == 'bin' and path_of(n['l']) == self.mask:
            if n.get('op') == '|=':
                return ((True, s[1], s[2]),)
            self.violations.append((n.get('ln'), 'the running mask is overwritten (%s)' % n.get('op')))
        return (s,)

    def on_decl(self, n, s):
        if n.get('n') == self.mask:
            self.violations.append((n.get('ln'), 'the mask is declared inside the loop: it starts from zero for every group'))
        return (s,)

    def on_exit(self, kind, node, s):
        if kind == 'throw':
            return
        self.exits.add((kind, s))


def run(src, tier, seed):
    fx = Facts(src)
    res = Result('C09')
    res.assumptions += ['the single-interpolant engine is correct for each mask (C08, not decided); partition indices follow assertion order (C19/C06 rules)']
    gi = fx.func('opensmt::Interpret::getInterpolants')
    masks = [d for d in fwalk(gi) if d.get('k') == 'decl' and 'ipartitions_t' in (d.get('t') or '') + (d.get('ct') or '') and 'vector' not in (d.get('ct') or '') or
             (d.get('k') == 'decl' and 'mpz_class' in (d.get('ct') or '') and 'vector' not in (d.get('ct') or ''))]
    outs = [d for d in fwalk(gi) if d.get('k') == 'decl' and 'vector<' in (d.get('ct') or '') and ('mpz' in (d.get('ct') or '') or 'ipartitions' in (d.get('t') or ''))]
    if len(outs) != 1:
        raise AnalysisBroken('getInterpolants: expected one vector of partition masks, found %s' % [d['n'] for d in outs])
    out = outs[0]['n']
    loops = [l for l in walk(gi['body']) if l.get('k') == 'loop' and any(mname(x) in ('emplace_back', 'push_back') and recv_path(x) == out for x in walk(l['body']) if x.get('k') == 'call')]
    if len(loops) != 1:
        raise AnalysisBroken('getInterpolants: the loop that builds the masks was not found (%d candidates)' % len(loops))
    lp = loops[0]
    appended = {path_of(x['a'][0]) for x in walk(lp['body']) if x.get('k') == 'call' and mname(x) in ('emplace_back', 'push_back') and recv_path(x) == out and x.get('a')}
    if len(appended) != 1 or None in appended:
        raise AnalysisBroken('getInterpolants: cannot identify the running mask (appended: %s)' % appended)
    mask = appended.pop()

    # ---- R1 cumulative masks
    r = res.rule('masks-cumulative', 'the running A-mask is declared outside the group loop, only gains bits inside it, and is appended exactly once on every path that accepts the group', floor=3)
    top_decl = [d for d in walk(gi['body']) if d.get('k') == 'decl' and d['n'] == mask]
    inside = [d for d in walk(lp['body']) if d.get('k') == 'decl' and d['n'] == mask]
    if top_decl and not inside:
        res.ok(r, 'mask `%s` declared at line %s, outside the loop at line %s' % (mask, top_decl[0].get('ln'), lp.get('ln')))
    else:
        res.bad(r, 'mask-reset-per-group', fx.loc(gi, (inside or [lp])[0].get('ln')), 'Interpret::getInterpolants declares the running mask inside the group loop: each A-mask then contains only its own '
                'group and the masks are not nested')
    c = MaskLoop(mask, out)
    pseudo = {'body': {'k': 'loop', 'kind': 'do', 'cond': {'k': 'lit', 'v': False, 't': 'bool'}, 'body': lp['body'], 'ln': lp.get('ln')}, 'lambdas': gi.get('lambdas', [])}
    eng = Engine(pseudo, c)
    eng.run([(False, 0, False)])
    if eng.broken:
        raise AnalysisBroken('getInterpolants: %s' % eng.broken)
    for ln, what in sorted(set(c.violations)):
        if 'declared inside' in what:
            continue
        res.bad(r, 'mask-not-monotone', fx.loc(gi, ln), 'Interpret::getInterpolants: %s; the A-masks of a sequence request must be nested' % what)
    accepted = [(k, s) for k, s in c.exits if k != 'return']
    if not accepted:
        raise AnalysisBroken('getInterpolants: no path through the group loop continues to the next group')
    # (whether bits were added is not demanded: the path with zero iterations of the conjunct loop is structurally present and infeasible)
    bad = [(k, s) for k, s in accepted if s[1] != 1]
    if bad:
        res.bad(r, 'mask-append-count', fx.loc(gi, lp.get('ln')), 'Interpret::getInterpolants: a path through the group loop goes on to the next group after appending the mask %s time(s)%s: '
                'the number of masks no longer matches the groups' % (sorted({s[1] for k, s in bad}), ''))
    else:
        res.ok(r, '%d continuing path(s): bits added, mask appended once' % len(accepted))
    rejected = [(k, s) for k, s in c.exits if k == 'return']
    if rejected and all(s[2] for k, s in rejected):
        res.ok(r, 'paths leaving the command inside the loop report an error (%d)' % len(rejected))
    elif rejected:
        res.bad(r, 'silent-return', fx.loc(gi, lp.get('ln')), 'Interpret::getInterpolants can return from inside the group loop without an error response')

    # ---- R2 which groups
    r = res.rule('prefix-groups-in-order', 'the group loop visits groups 0 .. k-2 in order (the last group is the complement); getPathInterpolants answers masks 0 .. n-1 in order, one '
                 'getSingleInterpolant per mask, and the front end asks for the path form exactly when there is more than one mask', floor=3)
    groups = {path_of(x['recv']) for x in walk(lp['body']) if x.get('k') == 'call' and x.get('op') == '[]' and x.get('recv') is not None and lp.get('init') and path_of(x['a'][0]) == (lp['init'] or {}).get('n')}
    ok_range = False
    if lp.get('kind') == 'for' and isinstance(lp.get('init'), dict) and len(groups) == 1:
        g = groups.pop()
        i = lp['init']['n']
        i0 = see_through(lp['init'].get('init'))
        cnd = see_through(lp.get('cond'))
        inc = see_through(lp.get('inc'))

        def size_minus_one(e):
            e = see_through(e)
            return isinstance(e, dict) and e.get('k') == 'bin' and e.get('op') == '-' and see_through(e['r']).get('v') == 1 and \
                isinstance(see_through(e['l']), dict) and mname(see_through(e['l'])) in ('size', 'size_') and path_of(see_through(e['l']).get('recv')) == g
        ok_range = isinstance(i0, dict) and i0.get('v') == 0 and isinstance(cnd, dict) and cnd.get('k') == 'bin' and cnd.get('op') == '<' and path_of(cnd['l']) == i and size_minus_one(cnd['r']) \
            and isinstance(inc, dict) and inc.get('k') == 'un' and inc.get('op') == '++'
        if ok_range:
            res.ok(r, 'for (%s = 0; %s < %s.size() - 1; %s++)' % (i, i, g, i))
        else:
            res.bad(r, 'group-range', fx.loc(gi, lp.get('ln')), 'Interpret::getInterpolants: the group loop is not `for (i = 0; i < groups.size() - 1; i++)`: a prefix group is skipped or the last group gets a mask of its own')
    else:
        raise AnalysisBroken('getInterpolants: the group loop is not an index loop over one vector of groups')
    gp = fx.func('opensmt::InterpolationContext::getPathInterpolants')
    mparam = gp['params'][1]['n']
    loops2 = [l for l in walk(gp['body']) if l.get('k') == 'loop' and not l.get('as') and any(is_call(x, 'getSingleInterpolant') for x in walk(l['body']))]
    if len(loops2) != 1:
        raise AnalysisBroken('getPathInterpolants: loop calling getSingleInterpolant not found')
    l2 = loops2[0]
    good = False
    if l2.get('kind') == 'for' and isinstance(l2.get('init'), dict):
        i = l2['init']['n']
        i0 = see_through(l2['init'].get('init'))
        cnd = see_through(l2.get('cond'))
        inc = see_through(l2.get('inc'))
        top_calls = [st for st in (l2['body'].get('c') or []) if isinstance(st, dict) and st.get('k') == 'e' and is_call(see_through(st['e']), 'getSingleInterpolant')]
        arg_ok = any(isinstance(see_through(see_through(st['e'])['a'][1]), dict) and see_through(see_through(st['e'])['a'][1]).get('op') == '[]'
                     and path_of(see_through(see_through(st['e'])['a'][1]).get('recv')) == mparam and path_of(see_through(see_through(st['e'])['a'][1])['a'][0]) == i for st in top_calls)
        good = isinstance(i0, dict) and i0.get('v') == 0 and isinstance(cnd, dict) and cnd.get('op') == '<' and path_of(cnd['l']) == i and \
            isinstance(see_through(cnd['r']), dict) and mname(see_through(cnd['r'])) == 'size' and path_of(see_through(cnd['r']).get('recv')) == mparam and \
            isinstance(inc, dict) and inc.get('op') == '++' and len(top_calls) == 1 and arg_ok
    elif l2.get('kind') == 'range' and path_of(l2.get('range')) == mparam:
        top_calls = [st for st in (l2['body'].get('c') or []) if isinstance(st, dict) and st.get('k') == 'e' and is_call(see_through(st['e']), 'getSingleInterpolant')]
        good = len(top_calls) == 1 and path_of(see_through(top_calls[0]['e'])['a'][1]) == l2.get('var')
    if good:
        res.ok(r, 'getPathInterpolants: one unconditional getSingleInterpolant(interpolants, %s[i]) per mask, in order' % mparam)
    else:
        res.bad(r, 'path-loop', fx.loc(gp, l2.get('ln')), 'InterpolationContext::getPathInterpolants no longer computes exactly one interpolant for every mask in order: the sequence has a gap, a '
                'repetition or a different order than the masks')
    disp = None
    for n in walk(gi['body']):
        if n.get('k') == 'if' and not n.get('as') and any(is_call(x, 'getPathInterpolants') for x in walk(n['then'])) and n.get('else') is not None and any(is_call(x, 'getSingleInterpolant') for x in walk(n['else'])):
            c_ = see_through(n['cond'])
            disp = isinstance(c_, dict) and c_.get('k') == 'bin' and c_.get('op') == '>' and see_through(c_['r']).get('v') == 1 and mname(see_through(c_['l'])) == 'size' and path_of(see_through(c_['l']).get('recv')) == out
    if disp:
        res.ok(r, 'getInterpolants: path form iff %s.size() > 1' % out)
    elif disp is None:
        raise AnalysisBroken('getInterpolants: dispatch between getPathInterpolants and getSingleInterpolant not found')
    else:
        res.bad(r, 'dispatch', fx.loc(gi), 'Interpret::getInterpolants no longer chooses the path form exactly when there is more than one mask')
    ps_labelling_rule(fx, res)
    import idxrule
    idxrule.index_rule(fx, res)
    return res


RANK = {'colorB': 0, 'colorAB': 1, 'colorA': 2}
LEAVES = {0: ['v', 'w', 'u'], 1: ['v', 'u'], 2: ['v', 'u'], 3: ['v'], 4: ['v', 'w']}


def ps_labelling_rule(fx, res):
    """The proof-sensitive algorithms (PS, PSW, PSS) colour a shared variable from its occurrence counts in the A and B leaves.  In a sequence request the
    cut moves to the right, occurrences move from B to A.  A family of labelled interpolation systems has the path-interpolation property only if the
    colour of every shared variable moves monotonically in the order b <= ab <= a along the sequence (Rollini, Sery, Sharygina: PeRIPLO / "Leveraging
    interpolant strength"; the mirrored family was replayed: seeded/C09-ps-labeling-mirrored).  Decided by abstract evaluation of computePSFunction over
    a five-leaf proof for every cut, composed with the label -> colour choice of setLeafPS{,W,S}Labeling."""
    from boolctor import Interp, Unmodelled, Thrown, Ret
    r = res.rule('ps-colour-monotone-along-the-sequence', 'for every cut of a five-leaf proof computePSFunction is evaluated abstractly; composed with setLeafPS/PSW/PSSLabeling the colour of '
                 'each shared variable never moves from a towards b when the cut moves right (A grows)', floor=9)
    f = fx.func('opensmt::SingleInterpolationComputationContext::computePSFunction')
    n = len(LEAVES)
    labels_at = {}
    try:
        for c in range(1, n):
            def shared(x, c=c):
                return any(x in LEAVES[i] for i in range(c)) and any(x in LEAVES[i] for i in range(c, n))
            it = Interp(fx, f, '?', None)
            it.oracle = {
                'getLeaves': lambda i, a, nd: list(range(n)),
                'getNode': lambda i, a, nd: ('node', a[-1]),
                'isLeaf': lambda i, a, nd: True,
                'getType': lambda i, a, nd: ('enum', 'CLA_ORIG'),
                'getClauseRef': lambda i, a, nd: ('cref', i.val(nd['recv'])[1]),
                'getClauseColor': lambda i, a, nd, c=c: ('enum', 'I_A' if a[-1][1] < c else 'I_B'),
                'getClause': lambda i, a, nd: [('lit', x, False) for x in LEAVES[i.val(nd['recv'])[1]]] + [('lit', 'local%d' % i.val(nd['recv'])[1], True)],
                'var': lambda i, a, nd: ('var', a[0][1]),
                'getVarClassFromCache': lambda i, a, nd, c=c, shared=shared: ('enum', 'I_AB' if shared(a[-1][1]) else ('I_A' if any(a[-1][1] in LEAVES[j] for j in range(c)) else 'I_B')),
            }
            out = it.run([])
            if not isinstance(out, dict):
                raise Unmodelled('computePSFunction does not return a map')
            for x in ('v', 'w', 'u'):
                if shared(x):
                    if ('var', x) not in out:
                        res.bad(r, 'ps-label-missing', fx.loc(f), 'computePSFunction: a shared variable that occurs in original leaves on both sides of the cut gets no label; the leaf labelling '
                                'dereferences the end iterator for it')
                    else:
                        labels_at[(x, c)] = out[('var', x)]
                elif ('var', x) in out and False:
                    pass
    except Thrown:
        raise AnalysisBroken('computePSFunction throws on the abstract proof')
    except Unmodelled as e:
        raise AnalysisBroken('computePSFunction is outside the modelled subset: %s' % e)
    for fn in ('setLeafPSLabeling', 'setLeafPSWLabeling', 'setLeafPSSLabeling'):
        g = fx.func('opensmt::SingleInterpolationComputationContext::' + fn)
        lams = g.get('lambdas') or []
        if len(lams) != 1:
            raise AnalysisBroken('%s: expected one colouring lambda, found %d' % (fn, len(lams)))
        colour_of = {}
        for lab in ('I_A', 'I_B'):
            it = Interp(fx, g, '?', None)
            chosen = []
            it.oracle = {k: (lambda i, a, nd, k=k: chosen.append(k)) for k in RANK}
            it.env = {g['params'][1]['n']: {('var', 'v'): ('enum', lab)}, 'v': ('var', 'v'), 'node': ('node', 0)}
            it.steps = 0
            try:
                it.block(lams[0]['body'])
            except Ret:
                pass
            except Unmodelled as e:
                raise AnalysisBroken('%s is outside the modelled subset: %s' % (fn, e))
            if len(chosen) != 1:
                raise AnalysisBroken('%s: label %s colours the variable %d times' % (fn, lab, len(chosen)))
            colour_of[lab] = chosen[0]
        for x in ('v', 'w', 'u'):
            seq = [(c, labels_at[(x, c)]) for c in range(1, n) if (x, c) in labels_at]
            cols = [(c, colour_of.get(l[1])) for c, l in seq]
            if any(cl is None for _, cl in cols):
                raise AnalysisBroken('computePSFunction returns a label other than I_A / I_B: %s' % seq)
            drop = [(c1, a, c2, b) for (c1, a), (c2, b) in zip(cols, cols[1:]) if RANK[b] < RANK[a]]
            if drop:
                c1, a, c2, b = drop[0]
                res.bad(r, 'ps-colour-moves-backwards:%s' % fn, fx.loc(f), '%s with computePSFunction: a shared variable occurring in %s of %d leaves is coloured %s for the cut after leaf %d and '
                        '%s for the later cut after leaf %d; along a sequence the colour may only move from b towards a, otherwise I_k and A_(k+1) need not imply I_(k+1)'
                        % (fn, sum(1 for i in LEAVES if x in LEAVES[i]), n, a[5:].lower(), c1, b[5:].lower(), c2))
            else:
                res.ok(r, '%s, variable in leaves %s: colours %s' % (fn, [i for i in LEAVES if x in LEAVES[i]], [cl[5:].lower() for _, cl in cols]))
