"""C27 -- integer rounding is exact for every integer input: absence of unguarded wrap-around in the rounding helpers (DESIGN 3-C27, narrow)."""
from core import Result
from facts import Facts, fwalk, walk, see_through
from prims import mname, is_call
import ubrules

LEVEL = 'other'
EXPLANATION = ('UB-obligation engine (see C15) restricted to the integer helpers: SafeInt and Converter<SafeInt> (negation of integer difference constraints, bound arithmetic of '
               'the integer difference-logic solver) and the rounding functions of FastRational (fastrat_fdiv_q, divexact, operator%, ceil, floor): every signed '
               'add/sub/negate/divide and every narrowing in them is discharged by LLVM -O2 or justified in the table. Plus: the word paths of fastrat_fdiv_q and divexact '
               'exclude the one operand pair whose quotient does not fit a word (INT_MIN). The arithmetic identities themselves (Euclidean div/mod axioms, bound tightening) '
               'are decided in one respect only: the direction of every rounding step - constant folding of div / mod and the tightening of bounds on integer variables are '
               'evaluated over a finite rounding-direction domain (exact quotient, floor, floor + k; integer or not) for every sign / strictness case. The div/mod elimination axioms are compared, as symbolic terms, with t = c*q + m, 0 <= m <= |c| - 1. '
               'The gcd normalisation is not decided.')


def run(src, tier, seed):
    fx = Facts(src)
    res = Result('C27')
    res.assumptions += ['release configuration (-DNDEBUG) for the IR; clang 14.0.6 / LLVM 14 -O2 as the discharging analysis']
    ubrules.residual_rule(res, fx, 'safeint-no-unguarded-wraparound', 'every sanitizer obligation in SafeInt.h / IDLSolver.h is discharged by LLVM -O2 or justified', ubrules.SCOPE_C27, floor=3, min_total=5)
    ubrules.residual_rule(res, fx, 'rounding-no-unguarded-wraparound', 'every sanitizer obligation in the rounding helpers of FastRational is discharged by LLVM -O2 or justified',
                          ubrules.SCOPE_C15, func_filter=lambda path, fn: any(fn.endswith(x) or fn == x for x in ubrules.C27_FUNCS), floor=3, min_total=4)
    r = res.rule('int-min-excluded', 'the word paths of fastrat_fdiv_q and divexact leave INT_MIN numerators to the GMP path (the quotient by -1 does not fit a word)', floor=2)
    for nm in ('opensmt::fastrat_fdiv_q', 'opensmt::divexact'):
        f = fx.func(nm)
        ok = any(n.get('k') == 'if' and not n.get('as') and 'INT_MIN' in str(n.get('cond')) or (n.get('k') == 'if' and not n.get('as') and '-2147483648' in str(n.get('cond')))
                 or (n.get('k') == 'if' and not n.get('as') and any(x.get('k') == 'un' and x.get('op') == '-' for x in walk(n.get('cond'))) and '2147483647' in str(n.get('cond')))
                 for n in walk(f['body']))
        if ok:
            res.ok(r, '%s guards INT_MIN' % nm)
        else:
            res.bad(r, 'int-min-unguarded:%s' % nm.split('::')[-1], fx.loc(f), '%s divides machine words without excluding INT_MIN: INT_MIN / -1 does not fit a word and traps' % nm)
    rounding_direction_rules(fx, res)
    divmod_axiom_rule(fx, res)
    return res


def divmod_axiom_rule(fx, res):
    """(div t c) and (mod t c) with a non-constant t are replaced by fresh variables q, m constrained by  t = c*q + m  and  0 <= m <= |c| - 1  (SMT-LIB: the
    remainder is non-negative for either sign of c).  DivModConfig::rewrite is evaluated with symbolic term constructors; the emitted definition is compared
    with these three conjuncts up to commutativity and the two ways of writing the upper bound."""
    import itertools
    from build import AnalysisBroken
    from boolctor import Interp, Unmodelled, Thrown
    r = res.rule('div-mod-elimination-axioms', 'DivModConfig::rewrite, evaluated with symbolic term constructors for div and mod, fresh and cached: the term is replaced by the quotient variable for '
                 'div and the remainder variable for mod, and the definition emitted for a fresh pair is exactly  dividend = divisor*q + m,  0 <= m,  m <= |divisor| - 1', floor=4)
    f = fx.func('opensmt::DivModConfig::rewrite')
    D, d, q, m = ('t', 'D'), ('t', 'd'), ('t', 'q'), ('t', 'm')

    def canon(t):
        if isinstance(t, tuple) and t and t[0] in ('plus', 'times', 'eq', 'and'):
            args = [canon(x) for x in t[1:]]
            if t[0] == 'and':
                flat = []
                for a in args:
                    flat += list(a[1:]) if isinstance(a, tuple) and a and a[0] == 'and' else [a]
                args = flat
            return (t[0],) + tuple(sorted(args, key=repr))
        if isinstance(t, tuple) and t and t[0] == 'lt' and t[2] == ('const', ('abs', ('num', 'd'))):
            return ('leq', canon(t[1]), ('const', ('minus', ('abs', ('num', 'd')), 1)))      # m < |c|  ==  m <= |c| - 1 over the integers
        if isinstance(t, tuple):
            return tuple(canon(x) for x in t)
        return t
    want = canon(('and', ('eq', D, ('plus', ('times', d, q), m)), ('leq', ('int', 0), m), ('leq', m, ('const', ('minus', ('abs', ('num', 'd')), 1)))))
    for kind, incache in itertools.product(('div', 'mod'), (False, True)):
        defs = []
        it = Interp(fx, f, '?', {})
        it.oracle = {
            'getSymRef': lambda i, a, n, kind=kind: ('sym', kind), 'isIntDiv': lambda i, a, n: a[0] == ('sym', 'div'), 'isMod': lambda i, a, n: a[0] == ('sym', 'mod'),
            'getPterm': lambda i, a, n: [D, d],
            'find': lambda i, a, n, c=incache: ('it', 'hit' if c else 'end'), 'end': lambda i, a, n: ('it', 'end'),
            'op:->': lambda i, a, n: a[0], 'mem:second': lambda i, a, n: ('dm', q, m), 'mem:div': lambda i, a, n: a[0][1], 'mem:mod': lambda i, a, n: a[0][2],
            'freshDivModPair': lambda i, a, n: ('dm', q, m), 'insert': lambda i, a, n: None, 'emplace': lambda i, a, n: None, 'try_emplace': lambda i, a, n: None,
            'isConstant': lambda i, a, n: True, 'getNumConst': lambda i, a, n: ('num', 'd'), 'isInteger': lambda i, a, n: True,
            'abs': lambda i, a, n: ('abs', a[0]), 'op:-': lambda i, a, n: ('minus', a[0], a[1]),
            'mkAnd': lambda i, a, n: ('and',) + tuple(a[0] if len(a) == 1 and isinstance(a[0], list) else a), 'mkEq': lambda i, a, n: ('eq', a[0], a[1]),
            'mkPlus': lambda i, a, n: ('plus',) + tuple(a[0] if len(a) == 1 and isinstance(a[0], list) else a),
            'mkTimes': lambda i, a, n: ('times',) + tuple(a[0] if len(a) == 1 and isinstance(a[0], list) else a),
            'mkLeq': lambda i, a, n: ('leq', a[0], a[1]), 'mkGeq': lambda i, a, n: ('leq', a[1], a[0]), 'mkLt': lambda i, a, n: ('lt', a[0], a[1]), 'mkGt': lambda i, a, n: ('lt', a[1], a[0]),
            'getTerm_IntZero': lambda i, a, n: ('int', 0), 'mkIntConst': lambda i, a, n: ('const', a[0]),
            'push': lambda i, a, n, defs=defs: defs.append(a[0]), 'push_back': lambda i, a, n, defs=defs: defs.append(a[0]),
        }
        try:
            out = it.run_env({f['params'][0]['n']: ('t', 'term'), 'this.divModCache': ('cache',), 'this.definitions': ('defs',), 'this.logic': ('logic',)})
        except Thrown:
            raise AnalysisBroken('DivModConfig::rewrite throws on a div / mod term')
        except Unmodelled as e:
            raise AnalysisBroken('DivModConfig::rewrite is outside the modelled subset: %s' % e)
        case = '%s term, pair %s' % (kind, 'cached' if incache else 'fresh')
        problems = []
        if out != (q if kind == 'div' else m):
            problems.append('the term is replaced by %s instead of the %s variable' % (out, 'quotient' if kind == 'div' else 'remainder'))
        if not incache and (len(defs) != 1 or canon(('and', defs[0])) != want):
            problems.append('the emitted definition is %s' % (defs,))
        if incache and any(canon(('and', x)) != want for x in defs):
            problems.append('a different definition is emitted for a cached pair: %s' % (defs,))
        if problems:
            res.bad(r, 'div-mod-axiom-wrong', fx.loc(f), 'DivModConfig::rewrite (%s): %s; integer division demands dividend = divisor*q + m with 0 <= m <= |divisor| - 1' % (case, '; '.join(problems)))
        else:
            res.ok(r, '%s: replaced by %s%s' % (case, out[1], '' if incache else ', definition t = c*q + m, 0 <= m <= |c|-1'))


# ---------------------------------------------------------------------------------------------------------------------
# The rounding-direction domain.  A value is ('q', k): the exact rational q plus the integer k, or ('fl', k): floor(q) + k.  In the case "q is an integer"
# floor(q) = ceil(q) = q, otherwise ceil(q) = floor(q) + 1.  Which direction a piece of code rounds in, for which sign / strictness, is a function of this
# finite case split; the numbers themselves never matter.
def _round_oracle(exact, D=None, d=None, sign=None):
    from boolctor import Unmodelled

    def val_of(i, a, n):
        return i.val(n['recv']) if n.get('recv') is not None else a[0]

    def floor(i, a, n):
        v = val_of(i, a, n)
        if isinstance(v, tuple) and v[0] == 'q':
            return ('q', v[1]) if exact else ('fl', v[1])
        if isinstance(v, tuple) and v[0] == 'fl':
            return v
        raise Unmodelled('floor of %s' % (v,))

    def ceil(i, a, n):
        v = val_of(i, a, n)
        if isinstance(v, tuple) and v[0] == 'q':
            return ('q', v[1]) if exact else ('fl', v[1] + 1)
        if isinstance(v, tuple) and v[0] == 'fl':
            return v
        raise Unmodelled('ceil of %s' % (v,))

    def add(i, a, n, sgn=1):
        x, y = a[0], a[1]
        if isinstance(y, int) and isinstance(x, tuple) and x[0] in ('q', 'fl'):
            return (x[0], x[1] + sgn * y)
        if isinstance(x, int) and isinstance(y, tuple) and y[0] in ('q', 'fl') and sgn == 1:
            return (y[0], y[1] + x)
        if sgn == -1 and D is not None and x == D and isinstance(y, tuple) and y[0] == 'mul':
            return ('mod', y[1])
        raise Unmodelled('sum / difference of %s and %s' % (x, y))

    def mul(i, a, n):
        x, y = a[0], a[1]
        if d is not None and x == d and isinstance(y, tuple) and y[0] in ('q', 'fl'):
            return ('mul', y)
        if d is not None and y == d and isinstance(x, tuple) and x[0] in ('q', 'fl'):
            return ('mul', x)
        raise Unmodelled('product of %s and %s' % (x, y))

    def quotient(i, a, n):
        if D is not None and a[0] == D and a[1] == d:
            return ('q', 0)
        raise Unmodelled('quotient of %s and %s' % (a[0], a[1]))

    def sgn(i, a, n):
        if d is not None and val_of(i, a, n) == d:
            return sign
        raise Unmodelled('sign of %s' % (val_of(i, a, n),))
    return {'op:/': quotient, 'floor': floor, 'ceil': ceil, 'op:+': add, 'op:-': lambda i, a, n: add(i, a, n, -1), 'op:*': mul,
            'op:+=': add, 'op:-=': lambda i, a, n: add(i, a, n, -1),
            'fastrat_fdiv_q': lambda i, a, n: quotient(i, a, n) if exact else ('fl', 0),
            'sign': sgn, 'isNegative': lambda i, a, n: sgn(i, a, n) < 0, 'isPositive': lambda i, a, n: sgn(i, a, n) > 0,
            'isNumConst': lambda i, a, n: True, 'isConstant': lambda i, a, n: True, 'isZero': lambda i, a, n: False, 'isOne': lambda i, a, n: False,
            'isMinusOne': lambda i, a, n: False, 'checkSortInt': lambda i, a, n: None, 'getNumConst': lambda i, a, n: ('num', a[0][1]), 'isInteger': lambda i, a, n: True,
            'mkIntConst': lambda i, a, n: ('const', a[0]), 'mkConst': lambda i, a, n: ('const', a[-1]), 'size': lambda i, a, n: 2}


def _show(v):
    if isinstance(v, tuple) and v and v[0] in ('q', 'fl'):
        base = 'q' if v[0] == 'q' else 'floor(q)'
        return base if v[1] == 0 else '%s%+d' % (base, v[1])
    if isinstance(v, tuple) and v and v[0] in ('const', 'mod'):
        return ('dividend - divisor*(%s)' if v[0] == 'mod' else '%s') % _show(v[1])
    return str(v)


def rounding_direction_rules(fx, res):
    import itertools
    from build import AnalysisBroken
    from boolctor import Interp, Unmodelled, Thrown
    r = res.rule('div-mod-folding-direction', 'constant folding of div and mod (ArithLogic::mkIntDiv, mkMod, helpers inlined) is evaluated over the rounding-direction domain for both divisor '
                 'signs and for exact / inexact quotients q: the folded quotient is floor(q) for a positive and ceil(q) for a negative divisor (SMT-LIB: the remainder is non-negative), '
                 'and mod is dividend - divisor * that quotient', floor=8)
    D, d = ('num', 'D'), ('num', 'd')
    for nm, wrap in (('opensmt::ArithLogic::mkIntDiv', lambda q: ('const', q)), ('opensmt::ArithLogic::mkMod', lambda q: ('const', ('mod', q)))):
        f = fx.func(nm, pred=lambda g: len(g['params']) == 1 and '&&' in g['params'][0]['t'])
        for sign, exact in itertools.product((1, -1), (True, False)):
            it = Interp(fx, f, '?', {})
            it.inline = True
            it.oracle = _round_oracle(exact, D, d, sign)
            try:
                out = it.run_env({f['params'][0]['n']: [('pt', 'D'), ('pt', 'd')]})
            except Thrown:
                raise AnalysisBroken('%s throws on two integer constants' % nm)
            except Unmodelled as e:
                raise AnalysisBroken('%s is outside the rounding-direction domain: %s' % (nm, e))
            want_q = ('q', 0) if exact else ('fl', 0 if sign > 0 else 1)
            case = '%s divisor, %s quotient' % ('positive' if sign > 0 else 'negative', 'exact' if exact else 'inexact')
            if out == wrap(want_q):
                res.ok(r, '%s, %s: %s' % (nm.split('::')[-1], case, _show(out)))
            else:
                res.bad(r, 'folding-rounds-wrongly:%s' % nm.split('::')[-1], fx.loc(f), '%s folds two constants (%s) to %s; SMT-LIB integer division gives %s: the folded value differs from the '
                        'value of the term for such operands (for example 6 and -3 when the quotient is exact, 7 and -2 when it is not)' % (nm.replace('opensmt::', ''), case, _show(out), _show(wrap(want_q))))
    r = res.rule('bound-tightening-direction', 'LASolver::getBoundsValueForIntVar, evaluated over the rounding-direction domain for integer and non-integer constants c: x < c gives upper bound '
                 'ceil(c)-1 and, for the negated literal, lower bound ceil(c); x <= c gives floor(c) and floor(c)+1', floor=4)
    f = fx.func('opensmt::LASolver::getBoundsValueForIntVar')
    pn = [p['n'] for p in f['params']]
    for strict, exact in itertools.product((True, False), (True, False)):
        it = Interp(fx, f, '?', {})
        it.inline = True
        it.oracle = _round_oracle(exact)
        try:
            out = it.run_env({pn[0]: ('q', 0), pn[1]: strict})
        except Thrown:
            raise AnalysisBroken('getBoundsValueForIntVar throws')
        except Unmodelled as e:
            raise AnalysisBroken('getBoundsValueForIntVar is outside the rounding-direction domain: %s' % e)
        if strict:
            want = [('q', -1), ('q', 0)] if exact else [('fl', 0), ('fl', 1)]
        else:
            want = [('q', 0), ('q', 1)] if exact else [('fl', 0), ('fl', 1)]
        case = 'x %s c, c %s' % ('<' if strict else '<=', 'an integer' if exact else 'not an integer')
        if isinstance(out, list) and out == want:
            res.ok(r, '%s: upper %s, lower of the negation %s' % (case, _show(out[0]), _show(out[1])))
        else:
            res.bad(r, 'tightening-rounds-wrongly', fx.loc(f), 'LASolver::getBoundsValueForIntVar (%s) returns the bounds %s; integer semantics gives %s: an integer solution is cut off or a non-solution '
                    'admitted' % (case, [_show(x) for x in out] if isinstance(out, list) else out, [_show(x) for x in want]))
