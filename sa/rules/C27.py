"""C27 -- integer rounding is exact for every integer input: absence of unguarded wrap-around in the rounding helpers (DESIGN 3-C27, narrow)."""
from core import Result
from facts import Facts, fwalk, walk, see_through
from prims import mname, is_call
import ubrules

LEVEL = 'other'
EXPLANATION = ('UB-obligation engine (see C15) restricted to the integer helpers: SafeInt and Converter<SafeInt> (negation of integer difference constraints, bound arithmetic of '
               'the integer difference-logic solver) and the rounding functions of FastRational (fastrat_fdiv_q, divexact, operator%, ceil, floor): every signed '
               'add/sub/negate/divide and every narrowing in them is discharged by LLVM -O2 or justified in the table. Plus: the word paths of fastrat_fdiv_q and divexact '
               'exclude the one operand pair whose quotient does not fit a word (INT_MIN). The arithmetic identities themselves (Euclidean div/mod axioms, bound tightening) '
               'need a solver and are not decided.')


def run(src, tier, seed):
    fx = Facts(src)
    res = Result('C27')
    res.assumptions += ['release configuration (-DNDEBUG) for the IR; clang 14.0.6 / LLVM 14 -O2 as the discharging analysis']
    ubrules.residual_rule(res, fx, 'safeint-no-unguarded-wraparound', 'every sanitizer obligation in SafeInt.h / IDLSolver.h is discharged by LLVM -O2 or justified', ubrules.SCOPE_C27, floor=3, min_total=5)
    ubrules.residual_rule(res, fx, 'rounding-no-unguarded-wraparound', 'every sanitizer obligation in the rounding helpers of FastRational is discharged by LLVM -O2 or justified',
                          ubrules.SCOPE_C15, func_filter=lambda path, fn: any(fn.endswith(x) or fn == x for x in ubrules.C27_FUNCS), floor=3, min_total=4)
    r = res.rule('int-min-excluded', 'the word paths of fastrat_fdiv_q and divexact leave INT_MIN numerators to the GMP path (the quotient by -1 does not fit a word)', floor=2)
    for nm in ('opensmt::fastrat_fdiv_q', 'opensmt::divexact'):
        f = fx.func(nm)
        ok = any(n.get('k') == 'if' and not n.get('as') and 'INT_MIN' in str(n.get('cond')) or (n.get('k') == 'if' and not n.get('as') and '-2147483648' in str(n.get('cond')))
                 or (n.get('k') == 'if' and not n.get('as') and any(x.get('k') == 'un' and x.get('op') == '-' for x in walk(n.get('cond'))) and '2147483647' in str(n.get('cond')))
                 for n in walk(f['body']))
        if ok:
            res.ok(r, '%s guards INT_MIN' % nm)
        else:
            res.bad(r, 'int-min-unguarded:%s' % nm.split('::')[-1], fx.loc(f), '%s divides machine words without excluding INT_MIN: INT_MIN / -1 does not fit a word and traps' % nm)
    return res
