"""C17 -- printed SMT-LIB reads back to the same object: the quoting clauses (DESIGN 9.3-C17)."""
import itertools

from build import AnalysisBroken
from core import Result
from facts import Facts, fwalk, walk, callee, path_of, see_through
from prims import mname
from prim_prov import Prov, is_stream_type
from walk import Client, Engine

LEVEL = 'other'
EXPLANATION = ('Decides the quoting clauses of the property, not round-trip equality of arbitrary terms: (1) the quoting function quotes a user name '
               'whenever one of the three SMT-LIB conditions holds (characters outside the simple-symbol alphabet, leading digit, reserved word) -- '
               'a truth table over the predicate calls in Logic::protectName -- and the simple-symbol alphabet it tests is a subset of the standard\'s; '
               '(2) whole-program string provenance: text obtained from a raw-name source (symbol names, sort-symbol names, assertion names) reaches the '
               'response channel (std::cout, a file stream, the non-error response printer), directly or through returned strings and caller-supplied '
               'streams, only through the quoting function; (3) a function that echoes parser text to the response channel distinguishes quoted-symbol '
               'tokens, whose bars the lexer strips; (4) the let-dump prints a node only after every child it refers to by definition name has one. Value formats (numbers, '
               'abstract values), the choice of let names and the `as` disambiguation are value-level and not decided.')

SOURCES = {
    'opensmt::Logic::getSymName': 'symbol name (Logic::getSymName)',
    'opensmt::SymStore::getName': 'symbol name (SymStore::getName)',
    'opensmt::SStore::getSortSymName': 'sort symbol name (SStore::getSortSymName)',
    'opensmt::TermNames::nameForTerm': 'assertion name (TermNames::nameForTerm)',
    'opensmt::TermNames::namesForTerm': 'assertion names (TermNames::namesForTerm)',
}
FIELD_SOURCES = {('opensmt::SortSymbol', 'name'): 'sort symbol name (SortSymbol::name)'}
RANGE_SOURCES = {'opensmt::TermNames': 'assertion name (iteration over TermNames)'}
SANITIZERS = {'opensmt::Logic::protectName'}
# SMT-LIB 2.6, section 3.1: a simple symbol is a non-empty sequence of letters, digits and these characters, not starting with a digit
SIMPLE_SYMBOL_CHARS = set('ABCDEFGHIJKLMNOPQRSTUVWXYZabcdefghijklmnopqrstuvwxyz0123456789~!@$%^&*_-+=<>.?/')


def is_named_call(n, name):
    return n.get('k') == 'call' and callee(n).split('::')[-1] == name


def sink_pred(root, types):
    if root.get('k') == 'ref' and root.get('d') == 'global' and root['n'] in ('std::cout', 'cout'):
        return 'std::cout'
    if root.get('k') == 'ref' and root.get('d') == 'local' and 'ofstream' in (types.get(root['n']) or root.get('t') or ''):
        return 'file stream'
    return None


def sink_calls(n):
    if callee(n) == 'opensmt::Interpret::notify_formatted' and n.get('a'):
        a0 = see_through(n['a'][0])
        if isinstance(a0, dict) and a0.get('k') == 'lit' and a0.get('v') is False:
            return 'response printer notify_formatted(false, ...)', n['a'][2:]
    return None


def run(src, tier, seed):
    fx = Facts(src)
    res = Result('C17')
    res.assumptions += ['raw-name sources, the sanitiser and the sinks are the tables at the top of sa/rules/C17.py; names stored in TemplateFunction/FunctionSignature '
                        'objects are tracked: constructor arguments label the object and getName() returns its label',
                        'labels only grow from table entries, so an unknown callee can hide a flow (a miss) but cannot create a report']

    # ---- R1 the quoting predicate
    r = res.rule('quoting-predicate-complete', 'Logic::protectName returns a bar-quoted string for every uninterpreted name for which hasQuotableChars, the leading-digit '
                 'test or isReservedWord holds (truth table over the predicate calls)', floor=8)
    quoting_predicate(fx, res, r)
    r = res.rule('simple-symbol-alphabet', 'the characters Logic::hasQuotableChars accepts without quoting are simple-symbol characters of SMT-LIB 2.6', floor=1)
    alphabet(fx, res, r)

    # ---- R2 provenance
    r = res.rule('raw-name-reaches-output', 'text from a raw-name source reaches std::cout, a file stream or the response printer only through Logic::protectName', floor=40)
    pv = Prov(fx, SOURCES, SANITIZERS, FIELD_SOURCES, RANGE_SOURCES, sink_pred, sink_calls)
    pv.solve()
    by_tok = {}
    for f, ln, sink, label in pv.hits:
        for tok in sorted(label):
            if tok[0] == 'src':
                by_tok.setdefault(tok, []).append((f, ln, sink))
    for tok, sinks in sorted(by_tok.items()):
        _, origin, site = tok
        sf = [x for x in fx.funcs(site)]
        where = fx.loc(sf[0]) if sf else fx.loc(sinks[0][0], sinks[0][1])
        outs = sorted({'%s (%s, %s)' % (f['name'].replace('opensmt::', ''), sink, fx.loc(f, ln)) for f, ln, sink in sinks})
        res.bad(r, 'raw-name-printed:%s:%s' % (origin.split('(')[-1].rstrip(')'), site.replace('opensmt::', '')), where,
                '%s read in %s reaches the response channel without passing through Logic::protectName, so a name that needs |quoting| (spaces, reserved '
                'word, leading digit) is printed bare and does not read back; written by: %s' % (origin, site, '; '.join(outs[:8]) + (' ...' if len(outs) > 8 else '')),
                witness=outs)
    for i in range(pv.sink_operands - len(pv.hits)):
        res.ok(r, 'operand')
    r['sites'] = ['%d operands written to a sink examined, %d carry a raw label; %d of them mention the sanitiser; summaries stable after %d rounds'
                  % (pv.sink_operands, len(pv.hits), pv.sanitized_at_sinks, pv.rounds)]
    res.extra['source_sites'] = dict(pv.source_sites)
    res.extra['sanitiser_call_sites'] = pv.san_sites
    res.extra['text_returning_summaries'] = sorted(fx.F[i]['name'] for i, s in pv.sum.items() if i in fx.F and any(t[0] == 'src' for t in s.ret))[:60]
    r2 = res.rule('provenance-anchors', 'each raw-name source and the sanitiser are still called somewhere (otherwise the tables drifted)', floor=4)
    for org in list(SOURCES.values())[:3] + list(RANGE_SOURCES.values()):
        if pv.source_sites.get(org):
            res.ok(r2, '%s: %d site(s)' % (org, pv.source_sites[org]))
    if pv.san_sites >= 3:
        res.ok(r2, 'protectName: %d call sites' % pv.san_sites)
    if pv.sanitized_at_sinks < 1 and not any('symToString' in n for n in []):
        pass

    # ---- R3 parser text echoed to the response channel
    r = res.rule('echo-distinguishes-quoted-symbols', 'a function that writes ASTNode text to std::cout tests the token kind QSYM_T (the lexer strips the bars of quoted symbols)', floor=1)
    echo_rule(fx, res, r)
    # ---- R3b the (as name Sort) qualification depends on the symbols declared at print time
    r = res.rule('disambiguation-at-print-time', 'every path through Logic::symToString calls protectName and disambiguateName: whether a nullary name needs the `(as name Sort)` form depends on '
                 'which homonymous symbols exist when it is printed, so the answer cannot be reused from an earlier call', floor=1)
    from prims import must_call
    sts = fx.func('opensmt::Logic::symToString')
    exits, eng = must_call(sts, {'protect': lambda n: is_named_call(n, 'protectName'), 'disamb': lambda n: is_named_call(n, 'disambiguateName')})
    badp = [nd for k_, nd, st in exits if k_ == 'return' and not {'protect', 'disamb'} <= st]
    if badp:
        res.bad(r, 'symbol-string-reused', fx.loc(sts), 'Logic::symToString can return (line %s) without calling protectName / disambiguateName on that path: a string computed while the name was '
                'unique is printed after a second symbol with the same name was declared, and the output no longer reads back (ambiguous symbol)' % sorted({n_.get('ln') for n_ in badp}))
    else:
        res.ok(r, 'symToString computes the protected, disambiguated name on every path')

    # ---- R3c the dumped header declares only what a reader may declare
    r = res.rule('dump-header-declares-user-symbols', 'in Logic::dumpHeaderToFile every path that writes a (declare-const / (declare-fun line has established that the symbol is known to the user '
                 '(abstract values such as @d2 are printed as (as @d2 S), which is not a symbol) and is not an ite symbol (a reserved word): otherwise the dumped query is not valid SMT-LIB', floor=1)
    dh = fx.func('opensmt::Logic::dumpHeaderToFile')
    loops = [l for l in walk(dh['body']) if l.get('k') == 'loop' and l.get('kind') == 'range' and any(x.get('k') == 'str' and 'declare-fun' in x.get('v', '') for x in walk(l['body']))]
    if len(loops) != 1:
        raise AnalysisBroken('dumpHeaderToFile: the loop that declares the symbols was not found')
    from walk import Client as _Client, Engine as _Engine

    class Decl(_Client):
        def __init__(self, var):
            self.var = var
            self.bad = set()

        def on_cond(self, atom, s, branch):
            a = see_through(atom)
            neg = False
            while isinstance(a, dict) and a.get('k') == 'un' and a.get('op') == '!':
                neg = not neg
                a = see_through(a['e'])
            if isinstance(a, dict) and a.get('k') == 'call' and a.get('a') and path_of(a['a'][0]) == self.var:
                m_ = callee(a).split('::')[-1]
                if m_ in ('isKnownToUser', 'isIte'):
                    return s | {(m_, branch != neg)}
            return s

        def on_other(self, n, s):
            return (s,)

        def on_call(self, n, s):
            if n.get('op') == '<<' and any(x.get('k') == 'str' and '(declare-' in x.get('v', '') and 'sort' not in x.get('v', '') for x in walk(n.get('a') or [])):
                if ('isKnownToUser', True) not in s:
                    self.bad.add('a symbol not known to the user (an abstract value)')
                if ('isIte', False) not in s:
                    self.bad.add('an ite symbol')
            return (s,)
    lp_ = loops[0]
    c_ = Decl(lp_['var'])
    pseudo = {'body': {'k': 'loop', 'kind': 'do', 'cond': {'k': 'lit', 'v': False, 't': 'bool'}, 'body': lp_['body'], 'ln': lp_.get('ln')}, 'lambdas': dh.get('lambdas', [])}
    eng_ = _Engine(pseudo, c_)
    eng_.run([frozenset()])
    if eng_.broken:
        raise AnalysisBroken('dumpHeaderToFile: %s' % eng_.broken)
    if c_.bad:
        res.bad(r, 'dump-declares-internal-symbol', fx.loc(dh, lp_.get('ln')), 'Logic::dumpHeaderToFile can write a declaration for %s: the dumped query then contains e.g. '
                '(declare-const (as @d2 S) () S) or (declare-fun ite ...), which no SMT-LIB reader accepts' % ' and for '.join(sorted(c_.bad)))
    else:
        res.ok(r, 'dumpHeaderToFile declares only symbols known to the user that are not ite symbols')

    # ---- R4 let-dump: a node is printed only after every child that will be referred to by its ?def name has one
    r = res.rule('let-dump-postorder', 'in Logic::dumpWithLets every path through one iteration of the child scan on which the child has no definition yet and is of a kind that is '
                 'printed by its definition name raises the wait flag, so the parent is not printed with an empty operand', floor=2)
    let_dump_rule(fx, res, r)
    number_printing_rule(fx, res)
    return res


# ---------------------------------------------------------------------------------------------------------------------
def quoting_predicate(fx, res, r):
    f = fx.func('opensmt::Logic::protectName', nparams=2)
    ATOMS = {'opensmt::Logic::hasQuotableChars': 'Q', 'isdigit': 'D', 'std::isdigit': 'D', 'opensmt::Logic::isReservedWord': 'R'}
    pname = f['params'][1]['n']

    class Unk(Exception):
        pass

    def ev(e, env):
        e = see_through(e)
        k = e.get('k')
        if k == 'lit':
            return bool(e['v'])
        if k == 'ref' and e['n'] == pname:
            return env['I']
        if k == 'ref' and e['n'] in env:
            return env[e['n']]
        if k == 'un' and e.get('op') == '!':
            return not ev(e['e'], env)
        if k == 'bin' and e.get('op') == '&&':
            return ev(e['l'], env) and ev(e['r'], env)
        if k == 'bin' and e.get('op') == '||':
            return ev(e['l'], env) or ev(e['r'], env)
        if k == 'bin' and e.get('op') in ('!=', '==') and see_through(e['r']).get('k') == 'lit':
            v = ev(e['l'], env)
            return (v != bool(see_through(e['r'])['v'])) if e['op'] == '!=' else (v == bool(see_through(e['r'])['v']))
        if k == 'call' and callee(e) in ATOMS:
            return env[ATOMS[callee(e)]]
        raise Unk('condition not over the known predicates at line %s' % e.get('ln'))

    def quoted(e):
        """the returned text is bar + name + bar"""
        bars = sum(1 for x in walk(e) if (x.get('k') == 'chr' and x.get('v') == 124) or (x.get('k') == 'str' and x.get('v') == '|'))
        names = sum(1 for x in walk(e) if x.get('k') == 'ref' and x['n'] == f['params'][0]['n'])
        return bars >= 2 and names >= 1

    def run_stmts(stmts, env):
        for st in stmts:
            if st.get('as') or st.get('macro') == 'assert':
                continue
            k = st.get('k')
            if k == 'seq':
                v = run_stmts(st['c'], env)
                if v is not None:
                    return v
            elif k == 'if':
                br = st['then'] if ev(st['cond'], env) else st.get('else')
                if br is not None:
                    v = run_stmts([br], env)
                    if v is not None:
                        return v
            elif k == 'ret':
                return 'quoted' if quoted(st['e']) else 'bare'
            elif k == 'decl' and 'bool' in (st.get('ct') or ''):
                env = dict(env); env[st['n']] = ev(st['init'], env)
            else:
                raise Unk('statement kind %s at line %s' % (k, st.get('ln')))
        return None

    try:
        for I, Q, D, R in itertools.product([False, True], repeat=4):
            out = run_stmts([f['body']], {'I': I, 'Q': Q, 'D': D, 'R': R})
            if out is None:
                raise Unk('a path falls off the end')
            must = (not I) and (Q or D or R)
            if must and out != 'quoted':
                res.bad(r, 'unquoted-case:%s' % ''.join(n for n, v in zip('QDR', (Q, D, R)) if v), fx.loc(f),
                        'Logic::protectName returns the bare name for an uninterpreted symbol with quotable-chars=%s leading-digit=%s reserved-word=%s' % (Q, D, R))
            elif must:
                res.ok(r, 'I=%s Q=%s D=%s R=%s -> quoted' % (I, Q, D, R))
            else:
                res.ok(r, 'I=%s Q=%s D=%s R=%s -> %s (no demand)' % (I, Q, D, R, out))
    except Unk as e:
        raise AnalysisBroken('Logic::protectName is outside the modelled subset: %s' % e)
    # the symbol printer must go through it
    st = fx.func('opensmt::Logic::symToString')
    if any(x.get('k') == 'call' and callee(x) == 'opensmt::Logic::protectName' for x in fwalk(st)):
        res.ok(r, 'symToString calls protectName')
    else:
        res.bad(r, 'symToString-unprotected', fx.loc(st), 'Logic::symToString no longer passes the symbol name through protectName')


def alphabet(fx, res, r):
    f = fx.func('opensmt::Logic::hasQuotableChars')
    lits = [x['v'] for x in fwalk(f) if x.get('k') == 'str' and len(x.get('v', '')) > 20]
    calls = [x for x in fwalk(f) if x.get('k') == 'call' and mname(x) == 'find_first_not_of']
    if len(lits) != 1 or len(calls) != 1:
        raise AnalysisBroken('Logic::hasQuotableChars no longer tests one allow-list with find_first_not_of (%d literals, %d calls)' % (len(lits), len(calls)))
    extra = set(lits[0]) - SIMPLE_SYMBOL_CHARS
    if extra:
        res.bad(r, 'alphabet-too-wide', fx.loc(f), 'Logic::hasQuotableChars accepts %s without quoting; these are not simple-symbol characters' % sorted(extra))
    else:
        res.ok(r, '%d accepted characters, all simple-symbol characters (%d of the standard\'s %d)' % (len(set(lits[0])), len(set(lits[0])), len(SIMPLE_SYMBOL_CHARS)))


def walk_live(n):
    """pre-order walk that does not enter assert expansions"""
    st = [n]
    while st:
        x = st.pop()
        if isinstance(x, list):
            st.extend(reversed(x))
        elif isinstance(x, dict):
            if x.get('as') or x.get('macro') == 'assert':
                continue
            yield x
            st.extend(v for v in reversed(list(x.values())) if isinstance(v, (dict, list)))


def echo_rule(fx, res, r):
    n_checked = 0
    for f in fx.F.values():
        if not f.get('body'):
            continue
        echoes = False
        for n in fwalk(f):
            if n.get('k') == 'call' and n.get('op') == '<<':
                txt = [x for x in walk(n.get('a') or []) if x.get('k') == 'call' and callee(x) == 'opensmt::ASTNode::getValue']
                root = n
                while isinstance(root, dict) and root.get('k') == 'call' and root.get('op') == '<<':
                    root = see_through(root['recv'] if root.get('recv') is not None else root['a'][0])
                if txt and isinstance(root, dict) and root.get('k') == 'ref' and root.get('n') in ('std::cout', 'cout'):
                    echoes = True
            if n.get('k') == 'decl' and n.get('init') is not None and any(x.get('k') == 'call' and callee(x) == 'opensmt::ASTNode::getValue' for x in walk(n['init'])):
                # a local holding parser text that is then streamed to cout
                nm = n['n']
                for m in fwalk(f):
                    if m.get('k') == 'call' and m.get('op') == '<<' and any(x.get('k') == 'ref' and x.get('n') == nm for x in walk(m.get('a') or [])):
                        root = m
                        while isinstance(root, dict) and root.get('k') == 'call' and root.get('op') == '<<':
                            root = see_through(root['recv'] if root.get('recv') is not None else root['a'][0])
                        if isinstance(root, dict) and root.get('k') == 'ref' and root.get('n') in ('std::cout', 'cout'):
                            echoes = True
        if not echoes:
            continue
        n_checked += 1
        aware = any(x.get('k') == 'ref' and x.get('n', '').endswith('QSYM_T') for x in walk_live(f['body']))
        if aware:
            res.ok(r, '%s tests QSYM_T' % f['name'])
        else:
            res.bad(r, 'echo-ignores-quoted-symbols:%s' % f['name'].split('::')[-1], fx.loc(f),
                    '%s writes ASTNode::getValue() text to std::cout but never looks at the token kind QSYM_T: a symbol written |with bars| is echoed without them' % f['name'])


class ChildScan(Client):
    """one iteration of the scan over the children of the node on top of the work stack: (no definition yet?, kind atoms seen true, kind atoms seen, waits?, other conditions)"""

    def __init__(self, defs, child):
        self.defs, self.child = defs, child
        self.exits = set()

    def on_cond(self, atom, s, branch):
        nodef, ktrue, kseen, waits, other = s
        a = see_through(atom)
        neg = False
        while isinstance(a, dict) and a.get('k') == 'un' and a.get('op') == '!':
            neg = not neg
            a = see_through(a['e'])
        val = branch != neg
        if isinstance(a, dict) and a.get('k') in ('bin', 'call') and a.get('op') in ('==', '!='):
            sides = [a.get('l'), a.get('r')] if a.get('k') == 'bin' else ([a.get('recv')] + list(a.get('a') or []) if a.get('recv') is not None else list(a.get('a') or []))
            names = [mname(see_through(x)) if isinstance(see_through(x), dict) and see_through(x).get('k') == 'call' else None for x in sides]
            if 'find' in names and 'end' in names:
                absent = val if a.get('op') == '==' else not val
                return (absent, ktrue, kseen, waits, other)
        if isinstance(a, dict) and a.get('k') == 'call' and mname(a) in ('contains', 'count') and path_of(a.get('recv')) == self.defs:
            return (not val, ktrue, kseen, waits, other)
        if isinstance(a, dict) and a.get('k') == 'call' and mname(a).startswith('is') and a.get('a') and path_of(a['a'][0]) == self.child:
            return (nodef, ktrue or val, True, waits, other)
        txt = (atom.get('s') if isinstance(atom, dict) else None) or (mname(a) if isinstance(a, dict) and a.get('k') == 'call' else str(a.get('n') if isinstance(a, dict) else a))
        return (nodef, ktrue, kseen, waits, other | {'%s%s' % ('' if val else '!', txt)})

    def on_assign(self, n, s):
        if n.get('k') == 'bin' and n.get('op') == '=' and see_through(n['r']).get('k') == 'lit' and see_through(n['r']).get('v') is True:
            return ((s[0], s[1], s[2], True, s[4]),)
        return (s,)

    def on_exit(self, kind, node, s):
        if kind != 'throw':
            self.exits.add(s)


def let_dump_rule(fx, res, r):
    f = fx.func('opensmt::Logic::dumpWithLets', pred=lambda g: len(g['params']) == 2)
    maps = [d['n'] for d in fwalk(f) if d.get('k') == 'decl' and 'map<' in (d.get('ct') or '') and 'PTRef' in (d.get('ct') or '')]
    if len(maps) != 1:
        raise AnalysisBroken('dumpWithLets: expected one local map from terms to definition names, found %s' % maps)
    defs = maps[0]
    scans = [l for l in walk(f['body']) if l.get('k') == 'loop' and l.get('kind') == 'range' and l.get('var')
             and any(x.get('k') == 'call' and mname(x) in ('find', 'contains', 'count') and path_of(x.get('recv')) == defs for x in walk(l['body']))
             and any(x.get('k') == 'call' and mname(x) in ('push_back', 'push') for x in walk(l['body']))]
    if len(scans) != 1:
        raise AnalysisBroken('dumpWithLets: the loop that scans the children for missing definitions was not found (%d candidates)' % len(scans))
    lp = scans[0]
    c = ChildScan(defs, lp['var'])
    pseudo = {'body': {'k': 'loop', 'kind': 'do', 'cond': {'k': 'lit', 'v': False, 't': 'bool'}, 'body': lp['body'], 'ln': lp.get('ln')}, 'lambdas': f.get('lambdas', [])}
    eng = Engine(pseudo, c)
    eng.run([(None, False, False, False, frozenset())])
    if eng.broken:
        raise AnalysisBroken('dumpWithLets: %s' % eng.broken)
    demand = [st for st in c.exits if st[0] is True and st[1]]
    if not demand:
        raise AnalysisBroken('dumpWithLets: no path of the child scan establishes "no definition yet" and a printed-by-name kind; the scan changed shape')
    bad = [st for st in demand if not st[3]]
    if bad:
        res.bad(r, 'let-dump-child-not-awaited', fx.loc(f, lp.get('ln')), 'Logic::dumpWithLets: a child that has no definition yet and is of a kind printed by its ?def name does not make the parent wait '
                'when %s: the parent is then printed with an empty operand and the dumped formula differs from the asserted one' % sorted({x for st in bad for x in st[4]}))
    else:
        res.ok(r, 'child scan: %d path(s) with a missing definition all raise the wait flag' % len(demand))
    # the emission reads definitions of exactly the kinds the scan waits for
    scan_kinds = {mname(x) for x in walk(lp['body']) if x.get('k') == 'call' and mname(x).startswith('is') and x.get('a') and path_of(x['a'][0]) == lp['var']}
    emit_kinds = set()
    for l in walk(f['body']):
        if l.get('k') == 'loop' and l.get('kind') == 'range' and l is not lp and any(x.get('k') == 'call' and x.get('op') == '[]' and path_of(x.get('recv')) == defs for x in walk(l['body'])):
            emit_kinds |= {mname(x) for x in walk(l['body']) if x.get('k') == 'call' and mname(x).startswith('is') and x.get('a') and path_of(x['a'][0]) == l.get('var')}
    emit_kinds -= {'isAnd'}
    if emit_kinds and emit_kinds <= scan_kinds:
        res.ok(r, 'emission refers by name to kinds %s, all awaited by the scan (%s)' % (sorted(emit_kinds), sorted(scan_kinds)))
    else:
        res.bad(r, 'let-dump-kind-mismatch', fx.loc(f), 'Logic::dumpWithLets prints children of kinds %s by their definition name but the scan waits only for %s' % (sorted(emit_kinds), sorted(scan_kinds)))


def number_printing_rule(fx, res):
    """Numeric constants reach the response channel through ArithLogic::termToSMT2StringImpl.  FastRational's own printers write a fraction as `n/d` (get_str / print_
    always, print / operator<< for numbers beyond a machine word), which is not an SMT-LIB token; the term printer therefore has to split the text at '/' and
    write (/ n d) and (- n) itself."""
    from facts import fwalk, walk, callee, see_through
    from build import AnalysisBroken
    r = res.rule('numbers-printed-in-smtlib-form', 'the printer of numeric constants (ArithLogic::termToSMT2StringImpl) never streams a FastRational with its own printers into the result: text '
                 'obtained from FastRational::get_str is split at \'/\' and re-assembled as (/ n d), a negative value as (- n)', floor=1)
    fs = [f for f in fx.F.values() if f['name'] == 'opensmt::ArithLogic::termToSMT2StringImpl' and f.get('body')]
    if len(fs) != 1:
        raise AnalysisBroken('ArithLogic::termToSMT2StringImpl not found (%d)' % len(fs))
    f = fs[0]
    raw = [n for n in fwalk(f) if n.get('k') == 'call' and not n.get('as') and (callee(n) in ('opensmt::FastRational::print', 'opensmt::FastRational::print_') or
                                                                               (n.get('op') == '<<' and any('FastRational' in (p_ or '') or 'Number' in (p_ or '') for p_ in (n.get('pt') or []))))]
    texts = [n for n in fwalk(f) if n.get('k') == 'call' and callee(n) == 'opensmt::FastRational::get_str']
    splits = any(n.get('k') in ('bin', 'call') and n.get('op') in ('==', '!=') and any(isinstance(x, dict) and x.get('k') == 'chr' and x.get('v') == 47 for x in walk(n)) for n in fwalk(f))
    builds = any(isinstance(n, dict) and n.get('k') in ('str', 'lit') and isinstance(n.get('v'), str) and '(/ ' in n['v'] for n in fwalk(f))
    if raw:
        res.bad(r, 'number-streamed-raw', fx.loc(f, raw[0].get('ln')), 'ArithLogic::termToSMT2StringImpl streams a FastRational into the printed term with the number\'s own printer: for a value beyond a '
                'machine word that printer writes n/d (and -n), which is not an SMT-LIB token, so get-model / get-value / interpolants / dumped queries with such constants cannot be read back')
    elif texts and not (splits and builds):
        res.bad(r, 'fraction-not-reassembled', fx.loc(f, texts[0].get('ln')), 'ArithLogic::termToSMT2StringImpl takes the text of FastRational::get_str (n/d) without splitting it at \'/\' and writing '
                '(/ n d): fractions are printed as a token SMT-LIB does not have')
    elif not texts:
        raise AnalysisBroken('ArithLogic::termToSMT2StringImpl: neither get_str nor a raw printer is used for numeric constants; the rule must be re-confirmed')
    else:
        res.ok(r, 'termToSMT2StringImpl: get_str text split at \'/\' and written as (/ n d)')
