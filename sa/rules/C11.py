"""C11 -- every theory clause used in search is valid in the theory: the polarity conventions on the theory / SAT boundary (DESIGN 9.3-C11)."""
import itertools

from build import AnalysisBroken
from core import Result
from facts import Facts, fwalk, walk, see_through, path_of
from prims import is_call
from boolctor import Interp, Unmodelled, Thrown

LEVEL = 'other'
EXPLANATION = ('That an explanation produced by a theory solver is inconsistent in the theory is a statement about run-time solver state and is not decided (the coefficient part of LRA '
               'explanations is C26). Decided is the conversion between the theory side (term, polarity) and the SAT side (variable, sign) in THandler, through which every theory clause '
               'passes and on which its validity depends: a conflict explanation {(t_i, p_i)} becomes the clause of the *negated* literals; the reason of a propagated literal l is l itself '
               'followed by the negations of the explanation, and is requested from the theory solver for the polarity l has; a deduction (t, p) becomes the literal with polarity p; a '
               'trail literal is asserted to the theory with the polarity it has. Each function is evaluated by the abstract evaluator on symbolic literals for all polarity combinations '
               'and the produced literals are compared with this convention. A single flipped sign turns a valid theory lemma into an invalid clause that still looks plausible.')


def L(var, neg):          # SAT literal: sign true = negative
    return ('lit', var, neg)


def neg(l):
    return ('lit', l[1], not l[2])


LTRUE, LFALSE = 0, 1      # lbool((uint8_t)0) is l_True, lbool((uint8_t)1) is l_False


def base_oracles():
    return {
        'var': lambda i, a, n: a[0][1],
        'sign': lambda i, a, n: a[0][2],
        'op:~': lambda i, a, n: neg(a[0]) if isinstance(a[0], tuple) and a[0] and a[0][0] == 'lit' else NotImplemented,
        'mkLit': lambda i, a, n: L(a[0], bool(a[1]) if len(a) > 1 else False),
        'ptrefToVar': lambda i, a, n: a[0],
        'varToPTRef': lambda i, a, n: a[0],
        'getLit': lambda i, a, n: L(a[0], False),
        'hasLit': lambda i, a, n: True,
        'getSolverHandler': lambda i, a, n: ('handler',),
        'getLogic': lambda i, a, n: ('logic',),
        'isDeclared': lambda i, a, n: True,
        'isTheoryTerm': lambda i, a, n: True,
        'getTerm_true': lambda i, a, n: ('T',),
        'getTerm_false': lambda i, a, n: ('F',),
    }


def run(src, tier, seed):
    fx = Facts(src)
    res = Result('C11')
    res.assumptions += ['TermMapper::getLit(t) is the positive literal of the variable of atom t (C01 literal-sign rule)', 'l_True / l_False are lbool(0) / lbool(1)']
    pols = [LTRUE, LFALSE]

    # ---- R1 conflicts
    r = res.rule('conflict-literals-negated', 'THandler::getConflict turns every explanation element (t, p) into the SAT literal that is false under it: negative for p = true, positive for p = false',
                 floor=4)
    gc = fx.func('opensmt::THandler::getConflict')
    try:
        for k in (1, 2):
            for ps in itertools.product(pols, repeat=k):
                expl = [('asgn', 't%d' % j, ps[j]) for j in range(k)]
                it = Interp(fx, gc, '?', {})
                it.oracle = base_oracles()

                def get_conflict(i, a, n, expl=expl):
                    a[0].extend(expl)
                    return None
                it.oracle.update({'hasExplanation': lambda i, a, n: True, 'getConflict': get_conflict, 'mem:solverSchedule': lambda i, a, n: [('solver',)],
                                  'idx': lambda i, a, n: ('vardata',), 'mem:level': lambda i, a, n: 0, 'op:[]': lambda i, a, n: ('vardata',) if a and a[0] == ('vardata-vec',) else NotImplemented})
                out = []
                params = [p['n'] for p in gc['params']]
                env = {params[0]: out, params[1]: ('vardata-vec',), params[2]: 0}
                try:
                    it.run_env(env)
                except Unmodelled as e:
                    if 'falls off the end' not in str(e):
                        raise
                want = [L(t, p == LTRUE) for _, t, p in expl]
                if sorted(out) == sorted(want):
                    res.ok(r, 'explanation %s -> clause %s' % ([(t, 'true' if p == LTRUE else 'false') for _, t, p in expl], [show(l) for l in out]))
                else:
                    res.bad(r, 'conflict-polarity', fx.loc(gc), 'THandler::getConflict turns the explanation %s into the clause %s; the valid theory lemma is %s'
                            % ([(t, 'true' if p == LTRUE else 'false') for _, t, p in expl], [show(l) for l in out], [show(l) for l in want]))
    except Unmodelled as e:
        raise AnalysisBroken('THandler::getConflict is outside the modelled subset: %s' % e)

    # ---- R2 reasons
    r = res.rule('reason-literals', 'THandler::getReason(l) asks the theory solver for the reason of (atom(l), polarity of l) and returns l first, followed by the negations of the other explanation '
                 'elements', floor=4)
    gr = fx.func('opensmt::THandler::getReason')
    try:
        for lneg in (False, True):
            for ps in itertools.product(pols, repeat=2):
                l = L('e', lneg)
                self_pol = LFALSE if lneg else LTRUE
                others = [('asgn', 't%d' % j, ps[j]) for j in range(2)]
                expl = [others[0], ('asgn', 'e', self_pol), others[1]]
                asked = []
                it = Interp(fx, gr, '?', {})
                it.oracle = base_oracles()
                it.oracle.update({'getReasoningSolverFor': lambda i, a, n: ('solver',),
                                  'getReasonFor': lambda i, a, n, expl=expl, asked=asked: (asked.append(a[0]), list(expl))[1]})
                out = []
                params = [p['n'] for p in gr['params']]
                try:
                    it.run_env({params[0]: l, params[1]: out, 'lit_Undef': ('lit_Undef',)})
                except Unmodelled as e:
                    if 'falls off the end' not in str(e):
                        raise
                want_rest = sorted(L(t, p == LTRUE) for _, t, p in others)
                problems = []
                if not asked or asked[0] != ('asgn', 'e', self_pol):
                    problems.append('asks for the reason of %s' % (asked[:1],))
                if not out or out[0] != l:
                    problems.append('the first literal is %s, not the propagated literal %s' % (show(out[0]) if out else None, show(l)))
                if sorted(out[1:]) != want_rest:
                    problems.append('the remaining literals are %s, the valid reason clause has %s' % ([show(x) for x in out[1:]], [show(x) for x in want_rest]))
                if problems:
                    res.bad(r, 'reason-polarity', fx.loc(gr), 'THandler::getReason(%s) with explanation %s: %s' % (show(l), [(t, 'true' if p == LTRUE else 'false') for _, t, p in expl], '; '.join(problems)))
                else:
                    res.ok(r, 'reason of %s -> %s' % (show(l), [show(x) for x in out]))
    except Unmodelled as e:
        raise AnalysisBroken('THandler::getReason is outside the modelled subset: %s' % e)

    # ---- R3 deductions
    r = res.rule('deduction-polarity', 'THandler::getDeduction returns the literal of the deduced atom with the deduced polarity', floor=2)
    gd = fx.func('opensmt::THandler::getDeduction')
    try:
        for p in pols:
            it = Interp(fx, gd, '?', {})
            it.oracle = base_oracles()
            it.oracle.update({'mem:solverSchedule': lambda i, a, n: [('solver',)], 'getDeduction': lambda i, a, n, p=p: ('asgn', 'd', p), 'mem:reason': lambda i, a, n: None})
            out = it.run_env({'lit_Undef': ('lit_Undef',), 'PtAsgn_reason_Undef': ('asgn', ('undef',), 2)})
            want = L('d', p == LFALSE)
            if out == want:
                res.ok(r, 'deduction (d, %s) -> %s' % ('true' if p == LTRUE else 'false', show(out)))
            else:
                res.bad(r, 'deduction-polarity', fx.loc(gd), 'THandler::getDeduction turns the deduction (d, %s) into %s instead of %s' % ('true' if p == LTRUE else 'false', show(out), show(want)))
    except Unmodelled as e:
        raise AnalysisBroken('THandler::getDeduction is outside the modelled subset: %s' % e)

    # ---- R4 assertion polarity
    r = res.rule('assert-polarity', 'THandler::assertLits asserts the atom of a trail literal with the polarity the literal has (and getReason asks for it the same way)', floor=2)
    al = fx.func('opensmt::THandler::assertLits')
    try:
        for lneg in (False, True):
            asserted = []
            it = Interp(fx, al, '?', {})
            it.oracle = base_oracles()
            it.oracle.update({'assertLit': lambda i, a, n, asserted=asserted: (asserted.append(a[0]), True)[1], 'mem:checked_trail_size': lambda i, a, n: 0,
                              'mem:stack': lambda i, a, n: i.env.setdefault('__stack', [])})
            it.run_env({al['params'][0]['n']: [L('a', lneg)]})
            want = ('asgn', 'a', LFALSE if lneg else LTRUE)
            if asserted == [want]:
                res.ok(r, 'trail literal %s asserted as (a, %s)' % (show(L('a', lneg)), 'false' if lneg else 'true'))
            else:
                res.bad(r, 'assert-polarity', fx.loc(al), 'THandler::assertLits asserts %s for the trail literal %s' % (asserted, show(L('a', lneg))))
    except Unmodelled as e:
        raise AnalysisBroken('THandler::assertLits is outside the modelled subset: %s' % e)
    # ---- R5 array lemmas: replacing a term by its e-graph representative is justified in the explanation
    r = res.rule('representative-use-justified', 'in the array solver\'s functions that fill an explanation collection: once the representative r = getRoot(x) of a parameter or local x is handed on to '
                 'another call, every path to the exit has recorded the e-graph explanation of x = r (or has established x == r): otherwise the lemma built from the collection lacks the '
                 'literals that make x and r equal and is not valid in the theory of arrays', floor=1)
    from walk import Client, Engine
    from prims import as_assign, mname

    class RootUse(Client):
        def __init__(self, params):
            self.params = params
            self.exits = []

        def on_decl(self, n, s):
            i = see_through(n.get('init')) if n.get('init') is not None else None
            if isinstance(i, dict) and i.get('k') == 'call' and mname(i) == 'getRoot' and i.get('a') and path_of(i['a'][0]) and '.' not in path_of(i['a'][0]):
                pairs, used, done = s
                return ((pairs | {(path_of(i['a'][0]), n['n'])}, used, done),)
            return (s,)

        def on_cond(self, atom, s, branch):
            a = see_through(atom)
            pairs, used, done = s
            if isinstance(a, dict) and a.get('op') in ('!=', '=='):
                l = a.get('l') if a.get('k') == 'bin' else (a.get('recv') if a.get('recv') is not None else (a.get('a') or [None, None])[0])
                r_ = a.get('r') if a.get('k') == 'bin' else ((a.get('a') or [None])[0] if a.get('recv') is not None else (a.get('a') or [None, None])[1])
                pl, pr = path_of(l), path_of(r_)
                for (x, rt) in pairs:
                    if {pl, pr} == {x, rt}:
                        equal = (a['op'] == '==') == branch
                        if equal:
                            return (pairs, used, done | {(x, rt)})
            return s

        def on_call(self, n, s):
            pairs, used, done = s
            args = [path_of(x) for x in (n.get('a') or [])]
            if mname(n) == 'recordExplanationOfEgraphEquivalence':
                for (x, rt) in pairs:
                    if x in args and rt in args:
                        done = done | {(x, rt)}
                return ((pairs, used, done),)
            if mname(n) == 'getRoot':
                return (s,)
            for (x, rt) in pairs:
                if rt in args and (x, rt) not in done:
                    used = used | {(x, rt, n.get('ln'))}
            return ((pairs, used, done),)

        def on_assign(self, n, s):
            # x = r : from here on x is the representative; earlier obligations stay
            return (s,)

        def on_exit(self, kind, node, s):
            if kind != 'throw':
                self.exits.append(s)
    n_f = 0
    for f in fx.F.values():
        fills = any('ExplanationCollection' in (p_.get('t') or '') for p_ in f.get('params', [])) or 'ExplanationCollection' in (f.get('ret') or '')
        if not f.get('body') or not f['name'].startswith('opensmt::ArraySolver') or not fills:
            continue
        if not any(is_call(x, 'getRoot') for x in fwalk(f)):
            continue
        n_f += 1
        c = RootUse({p_['n'] for p_ in f['params']})
        eng = Engine(f, c)
        eng.run([(frozenset(), frozenset(), frozenset())])
        if eng.broken:
            raise AnalysisBroken('%s: %s' % (f['name'], eng.broken))
        bad = set()
        for pairs, used, done in c.exits:
            for (x, rt, ln) in used:
                if (x, rt) not in done:
                    bad.add((x, rt, ln))
        if bad:
            x, rt, ln = sorted(bad, key=str)[0]
            res.bad(r, 'representative-unjustified:%s' % f['name'].split('::')[-1], fx.loc(f, ln), '%s hands the representative `%s` of `%s` on (line %s) and can return without having recorded why the two are '
                    'equal: the lemma built from the explanation collection then misses those literals and is not valid in the theory of arrays' % (f['name'], rt, x, ln))
        else:
            res.ok(r, '%s: every use of a representative is justified before the exit' % f['name'].replace('opensmt::', ''))
    if n_f == 0:
        raise AnalysisBroken('no array-solver function fills an explanation collection from representatives any more')
    # ---- R6 the index terms a lemma talks about are the terms that occur in the stores, not their representatives
    r = res.rule('lemma-indices-are-real-terms', 'what the array solver inserts into an IndicesCollection (the store indices whose disequality with the lemma\'s index becomes a literal of the lemma) '
                 'is never an e-graph representative (getRoot(...) directly or through a local): a lemma over representatives is true only in the branch in which the classes were merged', floor=2)
    n_ins = 0
    for f in fx.F.values():
        if not f.get('body') or not f['name'].startswith('opensmt::ArraySolver'):
            continue
        idx_params = {p_['n'] for p_ in f['params'] if 'IndicesCollection' in (p_.get('t') or '')}
        idx_locals = {d['n'] for d in fwalk(f) if d.get('k') == 'decl' and 'IndicesCollection' in (d.get('t') or '') + (d.get('ct') or '')}
        holders = idx_params | idx_locals
        if not holders:
            continue
        rooted = {d['n'] for d in fwalk(f) if d.get('k') == 'decl' and d.get('init') is not None and any(is_call(x, 'getRoot') for x in __import__('facts').walk(d['init']))}
        for n in fwalk(f):
            if n.get('k') == 'call' and not n.get('as') and mname(n) in ('insert', 'emplace', 'push_back') and (path_of(n.get('recv')) or '').split('.')[0] in holders:
                n_ins += 1
                arg = n['a'][0] if n.get('a') else None
                tainted = arg is not None and (any(is_call(x, 'getRoot') for x in __import__('facts').walk(arg)) or any(x.get('k') == 'ref' and x.get('n') in rooted for x in __import__('facts').walk(arg)))
                if tainted:
                    res.bad(r, 'lemma-index-is-representative:%s' % f['name'].split('::')[-1], fx.loc(f, n.get('ln')), '%s records an e-graph representative as a lemma index: the emitted clause speaks about '
                            'root(k) instead of the index k that occurs in the store, and nothing in it says why the two are equal, so it is not valid in the theory of arrays' % f['name'])
                else:
                    res.ok(r, '%s: real index term' % fx.loc(f, n.get('ln')))
    if n_ins == 0:
        raise AnalysisBroken('no insertion into an IndicesCollection found in the array solver')
    seen = set()
    res.findings = [f_ for f_ in res.findings if not (f_.key in seen or seen.add(f_.key))]
    return res


def show(l):
    if isinstance(l, tuple) and l and l[0] == 'lit':
        return ('-' if l[2] else '') + str(l[1])
    return str(l)
