"""C08 -- interpolants are Craig interpolants: the combination rules of the labelled interpolation system (DESIGN 9.3-C08)."""
import itertools

from build import AnalysisBroken
from core import Result
from facts import Facts, fwalk
from prims import is_call
from boolctor import Interp, Unmodelled, Thrown, T, F, neg, ev_shape, show

LEVEL = 'other'
EXPLANATION = ('That a returned formula is implied by A, inconsistent with B and over the shared vocabulary depends on the run-time proof and on the theory interpolators and is not decided. '
               'Decided is that the propositional skeleton is the labelled interpolation system (D\'Silva, Kroening, Purandare, Weissenbacher 2010), of which every supported Boolean '
               'algorithm (McMillan, Pudlak, McMillan\', PS, PSW, PSS) is an instance: (1) at an inner node the partial interpolant is I1 or I2 for a pivot labelled a, I1 and I2 for b, '
               '(I1 or p) and (I2 or not p) - or an equivalent formula - for ab with p positive in the first antecedent, and the other parent\'s interpolant when the pivot is an assumed '
               'literal; (2) at a leaf of class A it is the disjunction of the clause\'s literals labelled b, at a leaf of class B the conjunction of the negations of those labelled a; '
               'both are established by abstract evaluation of the two functions over symbolic interpolants and literals plus a truth table; (3) the proof builder puts the positive '
               'occurrence of the pivot into the first antecedent. Any other combination formula yields non-interpolants for some proof.')


def equivalent(a, b, names):
    for vals in itertools.product([False, True], repeat=len(names)):
        env = dict(zip(names, vals))
        env.update({'x': False, 'y': False, 'z': False})
        if ev_shape(a, env) != ev_shape(b, env):
            return env
    return None


def flag_meaning(rhs, guard, init=None):
    """'positive' if the assignment makes the flag mean "sign(literal) is false", 'negative' for the opposite, 'irrelevant' / 'unknown' otherwise"""
    from facts import see_through, walk

    def sign_truth(e):
        # returns +1 if e is true exactly when sign(..) is true, -1 if exactly when it is false, None otherwise
        e = see_through(e)
        if not isinstance(e, dict):
            return None
        if e.get('k') == 'call' and callee_name(e) == 'sign':
            return 1
        if e.get('k') == 'un' and e.get('op') == '!':
            t = sign_truth(e['e'])
            return -t if t else None
        if e.get('k') == 'bin' and e.get('op') in ('==', '!='):
            for x, y in ((e['l'], e['r']), (e['r'], e['l'])):
                t = sign_truth(x)
                c = see_through(y)
                if t and isinstance(c, dict) and c.get('k') == 'lit':
                    eq_true = bool(c.get('v'))
                    res_ = t if eq_true else -t
                    return res_ if e['op'] == '==' else -res_
        return None
    r_ = see_through(rhs)
    if guard is None:
        t = sign_truth(r_)
        if t is None:
            if isinstance(r_, dict) and r_.get('k') == 'lit':
                return 'irrelevant'       # a constant written without a sign test: judged through the guarded assignment
            return 'unknown'
        return 'positive' if t == -1 else 'negative'
    g = None
    for c in [guard] + [x for x in walk(guard)]:
        g = sign_truth(c)
        if g:
            break
    if not g or not (isinstance(r_, dict) and r_.get('k') == 'lit' and isinstance(r_.get('v'), bool)):
        return 'unknown'
    # under (sign is true) == (g == 1) the flag is set to r_.v; otherwise it keeps its initial value
    flag_when_sign_true = r_['v'] if g == 1 else init
    flag_when_sign_false = r_['v'] if g == -1 else init
    if flag_when_sign_true is False and flag_when_sign_false is True:
        return 'positive'
    if flag_when_sign_true is True and flag_when_sign_false is False:
        return 'negative'
    return 'unknown'


def callee_name(x):
    return (x.get('f') or '').split('::')[-1]


def var_atom(n):
    return ('v', n, True)


def run(src, tier, seed):
    fx = Facts(src)
    res = Result('C08')
    res.assumptions += ['the Boolean constructors mean what their names say (C14)', 'labels of literals come from the labelling functions (setLeaf*Labeling), which are not decided']
    ctx = 'opensmt::SingleInterpolationComputationContext::'
    ctor = {'mkOr': lambda a: ('or',) + tuple(a), 'mkAnd': lambda a: ('and',) + tuple(a), 'mkNot': lambda a: neg(a[0])}

    # ---- R1 inner nodes
    r = res.rule('inner-node-combination', 'compInterpLabelingInner returns I1 or I2 / I1 and I2 / a formula equivalent to (I1 or p) and (I2 or not p) for a pivot labelled a / b / ab, and the '
                 'interpolant of the parent that does not hold the assumption unit when the pivot is an assumed literal', floor=8)
    inner = fx.func(ctx + 'compInterpLabelingInner')
    I1, I2, P = var_atom('I1'), var_atom('I2'), var_atom('p')
    names = ['I1', 'I2', 'p']
    spec = {'I_A': ('or', I1, I2), 'I_B': ('and', I1, I2), 'I_AB': ('and', ('or', I1, P), ('or', I2, neg(P)))}
    n_cases = 0
    try:
        for colour in ('I_A', 'I_B', 'I_AB', 'I_S'):
            for alt_enabled, alt_choice, pos_assumed in itertools.product([False, True], repeat=3):
                if colour != 'I_AB' and (alt_enabled or alt_choice):
                    continue
                if colour != 'I_S' and pos_assumed:
                    continue
                it = Interp(fx, inner, '?', ctor)
                # parents' partial interpolants, in the order the function asks for them
                asked = []

                def get_partial(interp, argv, node, asked=asked):
                    which = 'I1' if any(is_call(x, 'getAnt1') for x in __import__('facts').walk(node)) else 'I2'
                    asked.append(which)
                    return var_atom(which)
                it.oracle = {
                    'getPartialInterpolant': get_partial,
                    'getAnt1': lambda i, a, n: ('node', 1), 'getAnt2': lambda i, a, n: ('node', 2),
                    'getPivotColor': lambda i, a, n, c=colour: ('enum', c),
                    'getPivot': lambda i, a, n: ('var', 'p'),
                    'mkLit': lambda i, a, n: ('lit', 'p', False),
                    'isAssumedLiteral': lambda i, a, n, pa=pos_assumed: pa if a[0] == ('lit', 'p', False) else (not pa),
                    'varToPTRef': lambda i, a, n: P,
                    'usingAlternativeInterpolant': lambda i, a, n, v=alt_enabled: v,
                    'decideOnAlternativeInterpolation': lambda i, a, n, v=alt_choice: v,
                    'operator~': lambda i, a, n: ('lit', a[0][1], not a[0][2]),
                }
                try:
                    out = it.run([('node', 0)])
                except Thrown:
                    res.bad(r, 'inner-throws:%s' % colour, fx.loc(inner), 'compInterpLabelingInner throws for a pivot labelled %s' % colour)
                    continue
                n_cases += 1
                if colour == 'I_S':
                    want = I2 if pos_assumed else I1     # the positive occurrence is in the first antecedent: that parent is the assumption unit
                else:
                    want = spec[colour]
                cex = equivalent(out, want, names)
                if cex is not None:
                    res.bad(r, 'inner-rule:%s' % colour, fx.loc(inner), 'compInterpLabelingInner, pivot labelled %s%s: returns %s, the labelled interpolation system prescribes %s (they differ for %s)'
                            % (colour, ' (alternative form)' if alt_enabled and alt_choice else '', show(out), show(want), {k: v for k, v in cex.items() if k in names}))
                else:
                    res.ok(r, 'pivot %s%s -> %s' % (colour, ' alt' if alt_enabled and alt_choice else '', show(out)))
    except Unmodelled as e:
        raise AnalysisBroken('compInterpLabelingInner is outside the modelled subset: %s' % e)

    # ---- R2 leaves
    r = res.rule('leaf-rule', 'getInterpolantForOriginalClause returns the disjunction of the restricted clause for a class-A leaf and the conjunction of its negated literals for a class-B leaf '
                 '(false / true when the restriction is empty), and restricts the clause to the literals coloured with the other class', floor=10)
    leaf = fx.func(ctx + 'getInterpolantForOriginalClause')
    lits = [('lit', 'l1', False), ('lit', 'l1', True), ('lit', 'l2', False), ('lit', 'l2', True)]
    try:
        for cls in ('I_A', 'I_B'):
            for k in range(0, 3):
                for combo in itertools.product(lits, repeat=k):
                    if len({c[1] for c in combo}) != len(combo):
                        continue
                    wanted = []
                    it = Interp(fx, leaf, '?', ctor)
                    it.oracle = {
                        'getRestrictedNodeClause': lambda i, a, n, combo=combo, wanted=wanted: (wanted.append(a[1]), list(combo))[1],
                        'var': lambda i, a, n: ('var', a[0][1]),
                        'sign': lambda i, a, n: a[0][2],
                        'varToPTRef': lambda i, a, n: var_atom(a[0][1]),
                    }
                    try:
                        out = it.run([('node', 0), ('enum', cls)])
                    except Thrown:
                        res.bad(r, 'leaf-throws:%s' % cls, fx.loc(leaf), 'getInterpolantForOriginalClause throws for a leaf of class %s' % cls)
                        continue
                    litshape = [neg(var_atom(n_)) if sg else var_atom(n_) for _, n_, sg in combo]     # sign true = negative literal
                    want = (('or',) + tuple(litshape)) if cls == 'I_A' else (('and',) + tuple(neg(x) for x in litshape))
                    cex = equivalent(out, want, ['l1', 'l2'])
                    other = 'I_B' if cls == 'I_A' else 'I_A'
                    if wanted and wanted[0] != ('enum', other):
                        res.bad(r, 'leaf-restriction:%s' % cls, fx.loc(leaf), 'getInterpolantForOriginalClause restricts a class-%s leaf to literals coloured %s instead of %s' % (cls, wanted[0][1], other))
                    elif cex is not None:
                        res.bad(r, 'leaf-rule:%s' % cls, fx.loc(leaf), 'getInterpolantForOriginalClause, leaf of class %s with restricted clause %s: returns %s, the labelled interpolation system '
                                'prescribes %s' % (cls, [('-' if sg else '') + n_ for _, n_, sg in combo], show(out), show(want)))
                    else:
                        res.ok(r, 'class %s, restricted clause %s -> %s' % (cls, [('-' if sg else '') + n_ for _, n_, sg in combo], show(out)))
    except Unmodelled as e:
        raise AnalysisBroken('getInterpolantForOriginalClause is outside the modelled subset: %s' % e)
    seen_keys = set()
    res.findings = [f_ for f_ in res.findings if not (f_.key in seen_keys or seen_keys.add(f_.key))]

    # ---- R3 antecedent order
    r = res.rule('positive-pivot-first', 'ProofGraph::buildProofGraph assigns the antecedent that contains the pivot positively to the first slot', floor=1)
    from facts import see_through, walk, path_of
    from prims import as_assign
    bp = [f for f in fx.F.values() if f['name'].startswith('opensmt::ProofGraph::') and f.get('body') and any(is_call(x, 'setAnt1') for x in fwalk(f)) and any(is_call(x, 'setPivot') for x in fwalk(f))]
    if not bp:
        raise AnalysisBroken('the proof-graph builder (setAnt1 + setPivot) was not found')
    verdicts = []
    for f in bp:
        for n in fwalk(f):
            if not (is_call(n, 'setAnt1') and n.get('a')):
                continue
            a0 = see_through(n['a'][0])
            if not (isinstance(a0, dict) and a0.get('k') == 'cond'):
                continue
            flags = [x.get('n') for x in walk(a0['c']) if x.get('k') == 'ref']
            if len(flags) != 1:
                continue
            flag = flags[0]
            # meaning of the flag: "the tested occurrence of the pivot is positive" <=> flag, established by how it is written from sign(literal)
            init = [d for d in fwalk(f) if d.get('k') == 'decl' and d.get('n') == flag]
            init_v = see_through(init[0]['init']).get('v') if init and isinstance(see_through(init[0].get('init')), dict) else None
            for g in walk(f['body']):
                if g.get('as'):
                    continue
                a_ = as_assign(g)
                if a_ and path_of(a_[0]) == flag:
                    verdicts.append(flag_meaning(a_[1], None))
                if g.get('k') == 'if' and any(x.get('k') == 'call' and callee_name(x) == 'sign' for x in walk(g['cond'])):
                    for x in walk(g['then']):
                        a2 = as_assign(x)
                        if a2 and path_of(a2[0]) == flag:
                            verdicts[-1:] = []      # replace the verdict recorded for the bare assignment by the guarded one
                            verdicts.append(flag_meaning(a2[1], g['cond'], init_v))
    verdicts = [v for v in verdicts if v != 'irrelevant']
    if not verdicts or any(v == 'unknown' for v in verdicts):
        raise AnalysisBroken('buildProofGraph: how the antecedent-order flag depends on the sign of the pivot occurrence is written in a form the rule does not know')
    if all(v == 'positive' for v in verdicts):
        res.ok(r, 'buildProofGraph: the flag that puts the clause into the first slot is true exactly for a positive pivot occurrence')
    else:
        res.bad(r, 'pivot-polarity-convention', fx.loc(bp[0]), 'the proof-graph builder puts the antecedent with the *negative* pivot occurrence into the first slot: the ab rule and the assumed-literal rule '
                'read the first antecedent as the one with the positive pivot')
    # ---- incremental use: popped partitions leave the masks (shared with C06)
    import C06
    r = res.rule('popped-partitions-invalidated', 'MainSolver::pop clears the partition bits of the popped assertions on every successful path while partitions are tracked (B is computed as the '
                 'complement of the A-mask, so a stale bit turns an A-local symbol into a shared one)', floor=1)
    C06.pop_invalidates(fx, res, r)
    import idxrule
    idxrule.index_rule(fx, res)
    return res
