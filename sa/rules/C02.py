"""C02 -- a sat answer is never given for an unsatisfiable assertion set: structural clauses (DESIGN 3-C02)."""
from core import Result
from facts import Facts
import satrules

LEVEL = 'other'
EXPLANATION = ('Decided: (1) the clause templates of every Tseitin gate encoder are complete - together they imply the gate definition (a dropped clause makes an '
               'unsatisfiable input satisfiable); top-level emitters and dispatch as in C01; (2) every exit of the CDCL loop, the lookahead loop and the propagate wrapper '
               'that reports a model is preceded on every path by a complete theory check of the final assignment, checkTheory answers Decide for a complete call only '
               'after asking the theory, the `complete` flag is forwarded unchanged to every solver, the LA solver runs its integrality check on the complete path and no '
               'check can answer UNKNOWN; the label-correcting searches of the difference-logic solver re-queue every vertex whose distance improves; (3) constants reach the difference-logic solvers exactly (no floating-point detour, rejecting range test: rule shared with C29). '
               'Completeness of the theory solvers themselves, branch-and-bound and array lemmas are not decided.')


def run(src, tier, seed):
    fx = Facts(src)
    res = Result('C02')
    res.assumptions += ['default build configuration, -UNDEBUG; assert(...) is not a runtime check']
    satrules.template_rule(res, fx, 'complete')
    satrules.dispatch_rule(res, fx)
    satrules.toplevel_rule(res, fx)
    satrules.complete_check_rules(res, fx)
    satrules.requeue_rule(res, fx)
    import C29
    sub = C29.run(src, tier, seed)
    r = res.rule('constants-exact', 'difference-logic constants are converted exactly and out-of-range values rejected (C29 rule constants-exact)', floor=1)
    hits = [f for f in sub.findings if f.rule == 'constants-exact']
    for f in hits:
        res.bad(r, f.key, f.where, f.msg)
    if not hits:
        res.ok(r, 'no floating-point detour in src/tsolvers/stpsolver; Converter<SafeInt>::getValue range-checked')
    satrules.interface_terms_rule(res, fx)
    return res
