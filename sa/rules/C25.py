"""C25 -- an asynchronous stop request never produces a wrong answer (DESIGN 3-C25)."""
from build import AnalysisBroken
from core import Result
from facts import Facts, fwalk, walk, callee, path_of, recv_path, see_through
from prims import mname, is_call
from prim_globals import Globals, is_atomic_type
from walk import Client, Engine

LEVEL = 'other'
EXPLANATION = ('(1) Every location written by the stop-request entry points (MainSolver::notifyStop -> CoreSMTSolver::notifyStop, notifyGlobalStop, '
               'resetGlobalStop) has std::atomic type and the entry points write nothing else; the polling predicates read only those locations. '
               '(2) In every function of the SAT engines that polls okContinue()/stopped()/globallyStopped(), no path that has observed the stop '
               'fabricates a verdict before leaving the function: it returns the undetermined value (l_Undef; `true` = "no conflict found" for the '
               'Boolean simplification helpers), or a variable that was not assigned after the stop was observed. (3) The result is carried '
               'unchanged to the user: SimpSMTSolver::solve_ returns what the inner solve_ returned, sstat(lbool) maps l_Undef to s_Undef, '
               'MainSolver::check remembers an unsat frame only for s_False, Interpret::checkSat prints sat/unsat only for s_True/s_False. '
               'Decides these clauses; races with destruction and promptness are not decided.')

POLLS = {'okContinue': False, 'stopped': True, 'globallyStopped': True}   # short name -> value of the predicate that means "stop requested"
ENTRY_POINTS = ['opensmt::CoreSMTSolver::notifyStop', 'opensmt::notifyGlobalStop', 'opensmt::resetGlobalStop']
ENGINE_PREFIX = ('opensmt::CoreSMTSolver::', 'opensmt::SimpSMTSolver::', 'opensmt::LookaheadSMTSolver::', 'opensmt::GhostSMTSolver::')
LBOOL = {0: 'l_True', 1: 'l_False', 2: 'l_Undef'}


def lit_value(e):
    """'l_True'/'l_False'/'l_Undef'/True/False for literal expressions, else None"""
    e = see_through(e)
    if not isinstance(e, dict):
        return None
    if e.get('k') == 'lit' and isinstance(e.get('v'), bool):
        return e['v']
    if e.get('k') == 'new' and (e.get('t') or '').endswith('lbool') and e.get('a'):
        a = see_through(e['a'][0])
        if isinstance(a, dict) and a.get('k') == 'new' and a.get('a'):
            a = see_through(a['a'][0])
        if isinstance(a, dict) and a.get('k') == 'lit' and a.get('v') in LBOOL:
            return LBOOL[a['v']]
        if isinstance(a, dict) and a.get('k') == 'lit' and isinstance(a.get('v'), bool):
            return 'l_True' if a['v'] else 'l_False'
    return None


def as_assign(n):
    """(lhs, rhs) of a built-in or class-type (operator=) assignment node, else None"""
    if n.get('k') == 'bin' and n.get('op') == '=':
        return n['l'], n['r']
    if n.get('k') == 'call' and n.get('op') == '=' and n.get('recv') is not None and len(n.get('a', [])) == 1:
        return n['recv'], n['a'][0]
    return None


def definitive(v, rtype):
    if v in ('l_True', 'l_False'):
        return True
    if v is False and 'bool' in rtype:
        return True      # Boolean helpers: false = "conflict found" = unsat verdict
    return False


def poll_atom(a):
    a = see_through(a)
    if isinstance(a, dict) and a.get('k') == 'call' and mname(a) in POLLS and callee(a).startswith(('opensmt::CoreSMTSolver::', 'opensmt::globallyStopped', 'opensmt::SimpSMTSolver::', 'opensmt::LookaheadSMTSolver::', 'opensmt::GhostSMTSolver::')):
        return mname(a)
    return None


class StopWalk(Client):
    def __init__(self, f, poll_funcs, undet_when_stopped=()):
        self.f = f
        self.poll_funcs = poll_funcs
        self.undet_when_stopped = undet_when_stopped
        self.enum_names = {}
        self.bad = []
        self.sites = set()
        self.stop_exits = 0

    def _poll_cond(self, atom, s, branch):
        p = poll_atom(atom)
        if p is None:
            return s
        stopped, taint = s
        self.sites.add((p, see_through(atom).get('ln')))
        means_stop = (branch == POLLS[p])
        if means_stop:
            return (True, taint)
        if stopped and p == 'okContinue':
            return None       # the flags are sticky for the duration of the call: okContinue() cannot become true again
        return s

    def on_call(self, n, s):
        # a poll used outside a condition (e.g. assigned to a local) is outside the modelled idioms
        if poll_atom(n) and not n.get('as'):
            self.sites.add((mname(n), n.get('ln')))
        if as_assign(n):
            return self.on_assign(n, s)
        return (s,)

    def on_assign(self, n, s):
        stopped, taint = s
        aa = as_assign(n)
        if not stopped or aa is None:
            return (s,)
        tgt = path_of(aa[0])
        if tgt is None:
            return (s,)
        v = lit_value(aa[1])
        rt = n.get('lt') or (aa[0].get('t') if isinstance(aa[0], dict) else '') or ''
        if definitive(v, rt if 'bool' in rt else 'lbool'):
            if tgt == 'this.ok':
                self.bad.append((n.get('ln'), 'assigns `ok = false` (an unsat verdict for the whole solver) after the stop request was observed'))
            return ((stopped, taint | {tgt}),)
        r = see_through(aa[1])
        while isinstance(r, dict) and r.get('k') == 'new' and len(r.get('a', [])) == 1:
            r = see_through(r['a'][0])
        if isinstance(r, dict) and r.get('k') == 'call' and r.get('id') not in self.poll_funcs and ('lbool' in (r.get('t') or '')):
            return ((stopped, taint | {tgt}),)
        return ((stopped, taint - {tgt}),) if tgt in taint else (s,)

    def on_cond(self, atom, s, branch):
        s2 = self._poll_cond(atom, s, branch)
        if s2 is None:
            return None
        a = see_through(atom)
        # a polling callee entered after the stop was observed returns its undetermined value (summary checked separately)
        if s2[0] and isinstance(a, dict) and a.get('k') == 'call' and a.get('id') in self.undet_when_stopped:
            if 'bool' == (a.get('t') or '') and branch is False:
                return None
        return s2

    def on_exit(self, kind, node, s):
        stopped, taint = s
        if kind == 'throw' or not stopped:
            return
        self.stop_exits += 1
        rt = self.f.get('ret', '')
        if kind == 'end' or node is None or node.get('e') is None:
            return
        e = see_through(node['e'])
        if isinstance(e, dict) and e.get('k') == 'cond':
            for arm in (e.get('t'), e.get('f')):
                self.on_exit(kind, {'e': arm, 'ln': node.get('ln')}, s)
            self.stop_exits -= 2
            return
        v = lit_value(e)
        if v is not None:
            if definitive(v, rt):
                self.bad.append((node.get('ln'), 'returns the verdict %s on a path that has observed the stop request' % v))
            return
        if isinstance(e, dict) and e.get('k') == 'ref' and e.get('d') == 'enum':
            # an enumeration result: fine only if the enumeration has an undetermined value and this is it
            en = e.get('en', '')
            names = self.enum_names.get(en, [])
            undet = [x for x in names if x.lower() in ('undef', 'unknown', 'undetermined', 'l_undef')]
            val = e['n'].split('::')[-1]
            if val not in undet:
                self.bad.append((node.get('ln'), 'returns %s on a path that has observed the stop request; %s %s, so the caller takes it for a result that was actually computed'
                                 % (e['n'].split('::', 1)[-1], en.split('::')[-1], ('has the undetermined value %s' % undet[0]) if undet else 'has no undetermined value')))
            return
        p = path_of(e)
        if p is not None:
            if p in taint:
                self.bad.append((node.get('ln'), 'returns %s, which was assigned a verdict after the stop request was observed' % p))
            return
        if isinstance(e, dict) and e.get('k') == 'call' and e.get('id') not in self.poll_funcs:
            self.bad.append((node.get('ln'), 'returns the result of %s() on a path that has observed the stop request' % callee(e)))


def run(src, tier, seed):
    fx = Facts(src)
    res = Result('C25')
    res.assumptions += ['stop flags are sticky for the duration of a check (only resetGlobalStop clears one, and it is not called by the library)',
                        'std::atomic<T> operations are data-race free (C++ memory model); default sequentially-consistent order',
                        'default build configuration; assert(...) is compiled out']
    g = Globals(fx)
    # ---- R1 flag types and effects of the entry points
    r = res.rule('stop-flags-atomic', 'every location written by notifyStop / notifyGlobalStop / resetGlobalStop is std::atomic, and nothing else is written', floor=3)
    core = fx.record('opensmt::CoreSMTSolver')
    ftype = {f['n']: f['ct'] for f in core['fields']}
    written = []
    for name in ENTRY_POINTS:
        f = fx.func(name)
        n_w = 0
        for n in fwalk(f):
            tgt = None
            if n.get('k') == 'bin' and n.get('op') in ('=', '|=', '&=', '+=', '-='):
                tgt = n['l']
            elif n.get('k') == 'un' and n.get('op') in ('++', '--'):
                tgt = n['e']
            elif n.get('k') == 'call' and n.get('recv') is not None and not n.get('mc') and mname(n) in ('store', 'exchange', 'operator=', 'test_and_set', 'clear', 'fetch_or', 'fetch_and'):
                tgt = n['recv']
            elif n.get('k') == 'call' and not n.get('mc') and n.get('id') and mname(n) not in ('store', 'exchange', 'operator='):
                res.bad(r, 'entry-calls:%s:%s' % (name, mname(n)), fx.loc(f, n.get('ln')), '%s calls %s: a stop request must only set the flag' % (name, callee(n)))
                continue
            if tgt is None:
                continue
            n_w += 1
            p = path_of(tgt)
            gl = g.root(tgt, f)
            if gl:
                ct = fx.G.get(gl, {}).get('ct', '?')
                what = gl
            elif p and p.startswith('this.'):
                ct = ftype.get(p.split('.')[1], '?')
                what = 'CoreSMTSolver::' + p.split('.')[1]
            else:
                ct, what = '?', str(p)
            written.append(what)
            if is_atomic_type(ct):
                res.ok(r, '%s writes %s : %s' % (name, what, ct))
            else:
                res.bad(r, 'non-atomic-flag:%s' % what.split('::')[-1], fx.loc(f, n.get('ln')),
                        '%s writes %s of type `%s` from the requesting thread while the solving thread reads it: a data race; the flag must be std::atomic' % (name, what, ct))
        if n_w == 0:
            raise AnalysisBroken('%s no longer writes a flag' % name)
    ms = fx.func('opensmt::MainSolver::notifyStop')
    calls = [n for n in fwalk(ms) if n.get('k') == 'call' and n.get('id') and mname(n) not in ('operator->', 'operator*', 'get')]
    if [mname(c) for c in calls] == ['notifyStop'] and not any(n.get('k') == 'bin' and n.get('op') == '=' for n in fwalk(ms)):
        res.ok(r, 'MainSolver::notifyStop only forwards to the SAT engine')
    else:
        res.bad(r, 'mainsolver-notifystop', fx.loc(ms), 'MainSolver::notifyStop does more than forward the request: %s' % [callee(c) for c in calls])
    # readers
    for name in ('opensmt::CoreSMTSolver::stopped', 'opensmt::globallyStopped'):
        f = fx.func(name)
        reads = set()
        for n in fwalk(f):
            if n.get('k') == 'mem' and see_through(n.get('b')).get('k') == 'this':
                reads.add('CoreSMTSolver::' + n['n'])
            if n.get('k') == 'ref' and n.get('d') == 'global':
                reads.add(g.gname(n, f))
        if reads and reads <= set(written):
            res.ok(r, '%s reads %s' % (name, sorted(reads)))
        else:
            res.bad(r, 'poll-reads:%s' % name, fx.loc(f), '%s reads %s, not (only) the locations the stop requests write (%s)' % (name, sorted(reads), sorted(set(written))))

    # ---- R2 no verdict fabricated after the stop was observed
    r = res.rule('stop-exit-undetermined', 'in every engine function that polls the stop predicates, a path that has observed the stop leaves without a fabricated verdict', floor=4)
    pollers = [f for f in fx.F.values() if f['name'].startswith(ENGINE_PREFIX) and any(poll_atom(n) for n in fwalk(f) if not n.get('as'))]
    pollers = [f for f in pollers if f['name'].split('::')[-1] not in POLLS]
    poll_ids = {f['id'] for f in pollers}
    nsites = 0
    # summary: a Boolean polling helper entered with the flag already set returns its undetermined value on every exit
    undet = set()
    for f in pollers:
        if f.get('ret') != 'bool':
            continue
        c = StopWalk(f, poll_ids)
        eng = Engine(f, c)
        eng.run([(True, frozenset())])
        if not eng.broken and not c.bad and c.stop_exits:
            undet.add(f['id'])
    res.extra['undetermined_when_entered_stopped'] = sorted(fx.F[i]['name'] for i in undet)
    for f in sorted(pollers, key=lambda f: f['name']):
        c = StopWalk(f, poll_ids, undet)
        c.enum_names = {n: [x['n'] for x in e['e']] for n, e in fx.E.items()}
        eng = Engine(f, c)
        eng.run([(False, frozenset())])
        if eng.broken:
            raise AnalysisBroken('%s: %s' % (f['name'], eng.broken))
        nsites += len(c.sites)
        if c.stop_exits == 0:
            raise AnalysisBroken('%s polls the stop predicates but the walk found no exit after a stop (idiom not modelled)' % f['name'])
        if c.bad:
            seen = set()
            for ln, msg in c.bad:
                if msg in seen:
                    continue
                seen.add(msg)
                res.bad(r, 'verdict-after-stop:%s' % f['name'], fx.loc(f, ln), '%s %s' % (f['name'], msg))
        else:
            res.ok(r, '%s: %d poll site(s), every stop exit undetermined' % (f['name'], len(c.sites)))
    if nsites < 6:
        raise AnalysisBroken('only %d poll sites found (hand-confirmed: >= 6)' % nsites)
    res.extra['poll_sites'] = nsites
    res.extra['polling_functions'] = sorted(f['name'] for f in pollers)

    # ---- R3 the undetermined value reaches the user unchanged
    r = res.rule('undetermined-carried', 'SimpSMTSolver::solve_(bool,bool) returns the inner solve_() result; sstat(lbool) maps l_Undef to s_Undef; '
                 'MainSolver::check remembers an unsat frame only under rval == s_False; Interpret::checkSat prints sat/unsat only under s_True/s_False', floor=4)
    ss = fx.func('opensmt::SimpSMTSolver::solve_', nparams=2)
    rets = [n for n in walk(ss['body']) if n.get('k') == 'ret']
    assigns = [(path_of(as_assign(n)[0]), n) for n in fwalk(ss) if as_assign(n) and path_of(as_assign(n)[0])]
    inner = [(p, n) for p, n in assigns if any(is_call(x, 'solve_') and len(x.get('a', [])) == 0 for x in walk(as_assign(n)[1]))]
    ok = bool(inner) and all(path_of(x.get('e')) == inner[0][0] for x in rets) and len(rets) >= 1
    if ok:
        var = inner[0][0]
        # no assignment to var textually after the inner call other than from eliminate() before it
        after = [n for p, n in assigns if p == var and n.get('ln', 0) > inner[0][1].get('ln', 0)]
        ok = not after
    if ok:
        res.ok(r, 'SimpSMTSolver::solve_: returns `%s` as assigned from the inner solve_()' % inner[0][0])
    else:
        res.bad(r, 'simp-solve-rewrites-result', fx.loc(ss), 'SimpSMTSolver::solve_(bool,bool) does not return the inner solve_() result unchanged on every path')
    # sstat(lbool)
    ctor = [f for f in fx.funcs('opensmt::sstat::sstat') if f['params'] and 'lbool' in f['params'][0]['t']]
    if len(ctor) != 1:
        raise AnalysisBroken('sstat(lbool) constructor not found')
    mapping = {}
    for n in walk(ctor[0]['body']):
        if n.get('k') == 'if':
            c = see_through(n['cond'])
            if isinstance(c, dict) and c.get('k') == 'call' and c.get('op') == '==' and c.get('a'):
                lv = lit_value(c['a'][0])
                th = n['then']
                for x in walk(th):
                    if x.get('k') == 'bin' and x.get('op') == '=' and path_of(x['l']) == 'this.value':
                        rv = see_through(x['r'])
                        if rv.get('k') == 'un' and rv.get('op') == '-':
                            mapping[lv] = -see_through(rv['e'])['v']
                        elif rv.get('k') == 'lit':
                            mapping[lv] = rv['v']
                        break
    consts = {}
    for nm in ('s_True', 's_False', 's_Undef'):
        gv = fx.G.get('opensmt::' + nm)
        if not gv or not gv.get('init'):
            raise AnalysisBroken('constant %s not found' % nm)
        lits = [x for x in walk(gv['init']) if x.get('k') == 'lit']
        neg = any(x.get('k') == 'un' and x.get('op') == '-' for x in walk(gv['init']))
        consts[nm] = -lits[0]['v'] if neg else lits[0]['v']
    want = {'l_True': consts['s_True'], 'l_False': consts['s_False'], 'l_Undef': consts['s_Undef']}
    if mapping == want:
        res.ok(r, 'sstat(lbool): %s' % mapping)
    else:
        res.bad(r, 'sstat-mapping', fx.loc(ctor[0]), 'sstat(lbool) maps %s but the constants are %s: an undetermined engine result would be reported as a verdict' % (mapping, want))
    # MainSolver::check
    ck = fx.func('opensmt::MainSolver::check')
    found = False
    for n in walk(ck['body']):
        if n.get('k') == 'if' and any(is_call(x, 'rememberUnsatFrame') for x in walk(n['then'])):
            c = see_through(n['cond'])
            found = True
            good = isinstance(c, dict) and c.get('k') == 'call' and c.get('op') == '==' and 's_False' in str(c.get('a')) and not any(
                is_call(x, 'rememberUnsatFrame') for x in walk(n.get('else') or {}))
            inner_if = [m for m in walk(n['then']) if m.get('k') == 'if' and any(is_call(x, 'rememberUnsatFrame') for x in walk(m['then']))]
            if inner_if:
                continue
            if good:
                res.ok(r, 'MainSolver::check: rememberUnsatFrame under rval == s_False')
            else:
                res.bad(r, 'check-remembers-unsat', fx.loc(ck, n['ln']), 'MainSolver::check marks the frame unsat under a condition other than rval == s_False')
    if not found:
        outside = [x for x in fwalk(ck) if is_call(x, 'rememberUnsatFrame')]
        if outside:
            res.bad(r, 'check-remembers-unsat', fx.loc(ck), 'MainSolver::check calls rememberUnsatFrame unconditionally')
        else:
            raise AnalysisBroken('MainSolver::check no longer calls rememberUnsatFrame')
    # Interpret::checkSat
    cs = fx.func('opensmt::Interpret::checkSat')
    printed = {}

    def cond_const(c):
        c = see_through(c)
        if isinstance(c, dict) and c.get('k') == 'call' and c.get('op') == '==':
            for x in walk(c.get('a')):
                if x.get('k') == 'ref' and x.get('d') == 'global' and x['n'].split('::')[-1] in ('s_True', 's_False', 's_Undef', 's_Error'):
                    return x['n'].split('::')[-1]
        return None

    def scan(n, ctx):
        if isinstance(n, list):
            for x in n:
                scan(x, ctx)
            return
        if not isinstance(n, dict):
            return
        if n.get('k') == 'if':
            cc = cond_const(n['cond'])
            scan(n['then'], ctx + [cc or '?'])
            if n.get('else'):
                scan(n['else'], ctx + ['not:' + (cc or '?')])
            return
        if n.get('k') == 'call' and mname(n) == 'notify_formatted' and len(n.get('a', [])) >= 2:
            s = see_through(n['a'][1])
            if isinstance(s, dict) and s.get('k') == 'str' and s['v'] in ('sat', 'unsat', 'unknown'):
                printed[s['v']] = list(ctx)
        for k, v in n.items():
            if isinstance(v, (dict, list)):
                scan(v, ctx)
    scan(cs['body'], [])
    if printed.get('sat') == ['s_True'] and printed.get('unsat') == ['not:s_True', 's_False'] and 'unknown' in printed:
        res.ok(r, 'Interpret::checkSat: sat iff s_True, unsat iff s_False, unknown otherwise')
    else:
        res.bad(r, 'checksat-printing', fx.loc(cs), 'Interpret::checkSat prints verdicts under %s' % printed)
    return res
