"""C10 -- printed resolution proofs: proof-logging protocol, registration, reference counting, exhaustiveness (DESIGN 3-C10)."""
from build import AnalysisBroken
from core import Result
from facts import Facts, fwalk, walk, callee, path_of, recv_path, see_through, switch_arms, enum_label
from prims import mname, is_call, ret_value, must_call, exhaustive_switch
from walk import Client, Engine

LEVEL = 'other'
EXPLANATION = ('Typestate of the proof-chain protocol (beginChain / addResolutionStep / endChain) tracked through every function of the SAT-engine '
               'classes with interprocedural summaries under "proof logging is on"; every allocated clause that can become a premise is registered '
               'in the proof on every logging path; sibling functions that add a premise to the current chain agree on reference counting; '
               'a derivation stored under an existing key is not silently dropped; clause kinds are handled exhaustively by the printer. '
               'Decides these clauses, not that each recorded step is a correct resolution.')

SCOPE_PREFIX = ('opensmt::CoreSMTSolver::', 'opensmt::SimpSMTSolver::', 'opensmt::LookaheadSMTSolver::', 'opensmt::GhostSMTSolver::')
EVENT = {'opensmt::ResolutionProof::beginChain': 'begin', 'opensmt::ResolutionProof::addResolutionStep': 'step', 'opensmt::ResolutionProof::endChain': 'end'}
# functions allowed to return with a chain open (their callers must close it)
MAY_RETURN_OPEN = {'opensmt::CoreSMTSolver::analyze': 'builds the learnt-clause derivation; each caller ends the chain with the clause it allocates'}
REGISTER = {'newOriginalClause', 'newTheoryClause', 'newSplitClause', 'endChain'}
# allocation targets that need no registration (reason each)
ALLOC_EXEMPT = {
    ('opensmt::CoreSMTSolver::addOriginalClause_', 'clauseToAttach'): 'under logging it aliases inOutCRefs.second, which is registered; ca.alloc(ps) is only on the non-logging arm',
    ('opensmt::CoreSMTSolver::litRedundant', 'ct'): 'allocated only on non-logging paths',
    ('opensmt::SimpSMTSolver::SimpSMTSolver', 'this.bwdsub_tmpunit'): 'scratch clause for backward subsumption, never a premise',
}


class Proto(Client):
    def __init__(self, ctx, f, report):
        self.ctx, self.f, self.report = ctx, f, report
        self.exits = set()
        self.logvars = {n['n'] for n in fwalk(f) if n.get('k') == 'decl' and is_logs(see_through(n.get('init')))}

    def on_call(self, n, s):
        ev = EVENT.get(callee(n))
        if ev:
            self.ctx.events[ev] += 1
            if ev == 'begin':
                if s == 'O' and self.report:
                    self.ctx.err(self.f, n, 'beginChain while a chain is open')
                return ('O',)
            if ev == 'step':
                if s == 'C' and self.report:
                    self.ctx.err(self.f, n, 'addResolutionStep with no open chain')
                return ('O',)
            if s == 'C' and self.report:
                self.ctx.err(self.f, n, 'endChain with no open chain')
            return ('C',)
        outs = set()
        hit = False
        for t in self.ctx.fx.targets(n):
            if t in self.ctx.S:
                hit = True
                outs |= self.ctx.S[t][s]
        return outs if hit else (s,)

    def on_cond(self, atom, s, branch):
        a = see_through(atom)
        if is_logs(a) or (isinstance(a, dict) and a.get('k') == 'ref' and a['n'] in self.logvars):
            return s if branch else None
        return s

    def on_exit(self, kind, node, s):
        if kind != 'throw':
            self.exits.add(s)


def is_seen_mark(n):
    """seen[...] = 1 (or true)"""
    if n.get('k') == 'bin' and n.get('op') == '=':
        l = path_of(n['l']) or ''
        rv = see_through(n['r'])
        return l.startswith('this.seen[') and isinstance(rv, dict) and rv.get('k') == 'lit' and rv.get('v') in (1, True)
    if n.get('k') == 'call' and n.get('op') == '=' and len(n.get('a') or []) == 2:
        l = path_of(n['a'][0]) or ''
        rv = see_through(n['a'][1])
        return l.startswith('this.seen[') and isinstance(rv, dict) and rv.get('k') == 'lit' and rv.get('v') in (1, True)
    return False


class LitWalk(Client):
    """one iteration over an antecedent literal, proof logging assumed on"""

    def __init__(self):
        self.exits = set()

    def on_assign(self, n, s):
        if is_seen_mark(n):
            return (s | {'marked'},)
        return (s,)

    def on_call(self, n, s):
        if is_seen_mark(n):
            return (s | {'marked'},)
        if is_call(n, 'addResolutionStep'):
            return (s | {'stepped'},)
        if mname(n) in ('push', 'push_back') and n.get('recv') is not None and see_through(n['recv']).get('k') == 'ref' and see_through(n['recv']).get('d') in ('param', 'local'):
            return (s | {'kept'},)
        return (s,)

    def on_cond(self, atom, s, branch):
        a = see_through(atom)
        if is_logs(a) or (isinstance(a, dict) and a.get('k') == 'ref' and a.get('n') == 'logProof'):
            return s if branch else None
        p = path_of(a) if isinstance(a, dict) else None
        if p and p.startswith('this.seen['):
            return (s | {'already'}) if branch else s
        if isinstance(a, dict) and a.get('k') == 'bin' and a.get('op') in ('==', '!='):
            pl = path_of(a['l']) or ''
            rv = see_through(a['r'])
            if pl.startswith('this.seen[') and isinstance(rv, dict) and rv.get('k') == 'lit':
                is_marked = (rv.get('v') not in (0, False)) == (a['op'] == '==')
                return (s | {'already'}) if branch == is_marked else s
        txt = (atom.get('s') if isinstance(atom, dict) else None) or (callee(a).split('::')[-1] if isinstance(a, dict) and a.get('k') == 'call' else (a.get('op') if isinstance(a, dict) else '?'))
        return s | {'cond:%s%s' % ('' if branch else '!', txt)}

    def on_exit(self, kind, node, s):
        if kind != 'throw':
            self.exits.add(s)


def is_logs(a):
    return isinstance(a, dict) and a.get('k') == 'call' and callee(a).endswith('::logsResolutionProof')


class Ctx:
    def __init__(self, fx):
        self.fx = fx
        self.scope = [i for i, f in fx.F.items() if f['name'].startswith(SCOPE_PREFIX)]
        self.S = {i: {'C': {'C'}, 'O': {'O'}} for i in self.scope}
        self.errors = []
        import collections
        self.events = collections.Counter()

    def err(self, f, n, msg):
        self.errors.append((f, n.get('ln'), msg))

    def analyse(self, i, report):
        f = self.fx.F[i]
        res = {}
        for entry in ('C', 'O'):
            c = Proto(self, f, report and entry == 'C')
            eng = Engine(f, c)
            eng.run([entry])
            if eng.broken:
                raise AnalysisBroken('%s: %s' % (f['name'], eng.broken))
            res[entry] = set(c.exits) or {entry}
        return res

    def solve(self):
        rounds = 0
        changed = True
        while changed and rounds < 20:
            changed = False
            rounds += 1
            self.events.clear()
            new = {}
            for i in self.scope:
                new[i] = self.analyse(i, False)
            for i in self.scope:
                if new[i] != self.S[i]:
                    self.S[i] = new[i]
                    changed = True
        return rounds


def run(src, tier, seed):
    fx = Facts(src)
    res = Result('C10')
    res.assumptions += ['analysed under "proof logging is on": conditions on logsResolutionProof() (or a bool local initialised from it) take their true branch',
                        'assert(...) expansions are compiled out and are not a runtime check of the protocol',
                        'default build configuration']
    # ---- R1 protocol typestate
    ctx = Ctx(fx)
    rounds = ctx.solve()
    nbegin = sum(1 for i in ctx.scope for n in fwalk(fx.F[i]) if n.get('k') == 'call' and EVENT.get(callee(n)) == 'begin')
    nend = sum(1 for i in ctx.scope for n in fwalk(fx.F[i]) if n.get('k') == 'call' and EVENT.get(callee(n)) == 'end')
    r = res.rule('chain-protocol', 'from a closed chain, no function of the SAT engines calls beginChain while a chain is open or step/endChain while none is, '
                 'and only `analyze` may return with the chain open', floor=100)
    if nbegin < 6 or nend < 9:
        raise AnalysisBroken('proof protocol call sites dropped: %d beginChain, %d endChain (expected >= 6, >= 9)' % (nbegin, nend))
    ctx.errors = []
    for i in ctx.scope:
        ctx.analyse(i, True)
    seen = set()
    for f, ln, msg in ctx.errors:
        k = (f['name'], msg)
        if k in seen:
            continue
        seen.add(k)
        res.bad(r, 'protocol:%s:%s' % (f['name'], msg.split()[0]), fx.loc(f, ln), '%s: %s (entered with the chain closed, logging on)' % (f['name'], msg))
    # root causes only: a function that still returns open when every callee (other than the listed openers) is taken as neutral
    open_ids = [i for i in ctx.scope if 'O' in ctx.S[i]['C'] and fx.F[i]['name'] not in MAY_RETURN_OPEN]
    roots = set()
    if open_ids:
        saved = ctx.S
        ctx.S = {i: (saved[i] if fx.F[i]['name'] in MAY_RETURN_OPEN else {'C': {'C'}, 'O': {'O'}}) for i in ctx.scope}
        for i in open_ids:
            if 'O' in ctx.analyse(i, False)['C']:
                roots.add(i)
        ctx.S = saved
        if not roots:
            roots = set(open_ids)
    for i in ctx.scope:
        f = fx.F[i]
        if i in open_ids and i not in roots:
            res.notes.append('%s inherits an open chain from a callee' % f['name'])
            res.ok(r, f['name'])
        elif i in roots:
            res.bad(r, 'returns-open:%s' % f['name'], fx.loc(f), '%s can return with a proof chain still open (a later beginChain would append to the stale chain)' % f['name'])
        else:
            res.ok(r, f['name'] if f['name'] in MAY_RETURN_OPEN or ctx.S[i] != {'C': {'C'}, 'O': {'O'}} else f['name'])
    opens = [fx.F[i]['name'] for i in ctx.scope if 'O' in ctx.S[i]['C']]
    res.extra.update({'summary_rounds': rounds, 'beginChain_sites': nbegin, 'endChain_sites': nend, 'functions_returning_open': opens})
    if 'opensmt::CoreSMTSolver::analyze' not in opens:
        raise AnalysisBroken('analyze no longer has the summary closed->open: the typestate model drifted from the code')

    # ---- R2 registration of allocated clauses
    r = res.rule('alloc-registered', 'every clause obtained from ca.alloc in the SAT engines reaches newOriginalClause/newTheoryClause/newSplitClause/endChain '
                 'on every logging path to the function exit', floor=12)
    for i in ctx.scope:
        f = fx.F[i]
        targets = {}
        for n in fwalk(f):
            init = None
            var = None
            if n.get('k') == 'decl' and n.get('init') is not None:
                var, init = n['n'], n['init']
            elif n.get('k') == 'bin' and n['op'] == '=':
                var, init = path_of(n['l']), n['r']
            if var and init is not None and any(is_call(x, 'alloc') and (recv_path(x) or '').endswith('ca') for x in walk(init)):
                targets[var] = n
        for var, node in targets.items():
            if (f['name'], var) in ALLOC_EXEMPT:
                res.notes.append('%s: %s exempt: %s' % (f['name'], var, ALLOC_EXEMPT[(f['name'], var)]))
                continue

            init = node.get('init') if node.get('k') == 'decl' else node.get('r')
            alloc_calls = {id(x) for x in walk(init) if is_call(x, 'alloc')}

            def is_alloc(n, ac=alloc_calls):
                return id(n) in ac

            def is_reg(n, var=var):
                return n.get('k') == 'call' and mname(n) in REGISTER and any(path_of(a) == var for a in n.get('a', []))

            logvars = {n['n'] for n in fwalk(f) if n.get('k') == 'decl' and is_logs(see_through(n.get('init')))}
            exits, eng = must_call(f, {'alloc': is_alloc, 'reg': is_reg},
                                   {'logs': lambda a, lv=logvars: is_logs(a) or (isinstance(a, dict) and a.get('k') == 'ref' and a['n'] in lv)})
            bad = [nd for k, nd, st in exits if k != 'throw' and 'alloc' in st and 'reg' not in st and 'logs=F' not in st]
            if bad:
                lines = sorted({(b.get('ln') if isinstance(b, dict) else 'end') for b in bad}, key=str)
                res.bad(r, 'unregistered:%s:%s' % (f['name'], var), fx.loc(f, node.get('ln')),
                        '%s: clause %s from ca.alloc can reach the function exit (line %s) on a logging path without being registered in the proof' % (f['name'], var, lines))
            else:
                res.ok(r, '%s: %s' % (f['name'], var))

    # ---- R3 reference counting agreement among functions that add a premise to the current chain
    r = res.rule('premise-refcount', 'every ResolutionProof method that stores its clause argument in the current chain increments that clause\'s reference count; '
                 'deleted() decrements every premise of the removed derivation', floor=3)
    adders = 0
    for f in fx.F.values():
        if f.get('class') != 'opensmt::ResolutionProof':
            continue
        pn = [p['n'] for p in f['params']]
        stores = [n for n in fwalk(f) if n.get('k') == 'call' and not n.get('as') and recv_path(n) == 'this.current_chain'
                  and mname(n) in ('setInitial', 'addResolutionStep') and n['a'] and path_of(n['a'][0]) in pn]
        if not stores:
            continue
        adders += 1
        v = path_of(stores[0]['a'][0])
        inc = False
        for n in fwalk(f):
            if n.get('k') == 'un' and n['op'] == '++' and not n.get('as'):
                tgt = n['e']
                if isinstance(tgt, dict) and tgt.get('k') == 'mem' and tgt.get('n') == 'ref' and any(path_of(a) == v for x in walk(tgt['b']) if x.get('k') == 'call' for a in x.get('a', [])):
                    inc = True
        if inc:
            res.ok(r, '%s: ++ref of %s' % (f['name'], v))
        else:
            res.bad(r, 'no-ref-increment:%s' % f['name'], fx.loc(f), '%s stores clause %s as a premise of the current chain without incrementing its reference count '
                    '(deleted() decrements every premise, so the clause can be freed while a derivation still uses it)' % (f['name'], v))
    if adders < 2:
        raise AnalysisBroken('expected two premise-adding methods in ResolutionProof (beginChain, addResolutionStep), found %d' % adders)
    dele = fx.func('opensmt::ResolutionProof::deleted')
    dec = any(n.get('k') == 'un' and n['op'] == '--' and isinstance(n['e'], dict) and n['e'].get('n') == 'ref' for n in fwalk(dele))
    inloop = any(n.get('k') == 'loop' and any(x.get('k') == 'un' and x['op'] == '--' for x in walk(n['body'])) for n in walk(dele['body']))
    if dec and inloop:
        res.ok(r, 'deleted(): --ref for every premise')
    else:
        res.bad(r, 'deleted-no-decrement', fx.loc(dele), 'ResolutionProof::deleted no longer decrements the reference count of every premise of the removed derivation')

    # ---- R4 a new derivation must not be dropped because its key already exists
    # ---- literals of an antecedent are accounted for while a chain is being logged
    r = res.rule('chain-literals-accounted', 'in conflict analysis (loops that mark the `seen` array in functions logging resolution steps), with proof logging on, every path '
                 'through one iteration over an antecedent literal marks the literal for later resolution, puts it into the derived clause, logs a resolution step on it, '
                 'or has found it already marked; a literal silently skipped stays in the real resolvent but not in the stated one', floor=3)
    for f in fx.F.values():
        if not f['name'].startswith(SCOPE_PREFIX) or not f.get('body'):
            continue
        if not any(is_call(n, 'addResolutionStep') for n in fwalk(f)):
            continue
        for lp in (n for n in walk(f['body']) if n.get('k') == 'loop'):
            if any(c is not lp and c.get('k') == 'loop' for c in walk(lp['body'])):
                continue
            if not any(is_seen_mark(n) for n in walk(lp['body'])):
                continue
            c = LitWalk()
            pseudo = {'body': {'k': 'loop', 'kind': 'do', 'cond': {'k': 'lit', 'v': False, 't': 'bool'}, 'body': lp['body'], 'ln': lp.get('ln')}, 'lambdas': f.get('lambdas', [])}
            eng = Engine(pseudo, c)
            eng.run([frozenset()])
            if eng.broken:
                raise AnalysisBroken('%s: literal loop at line %s: %s' % (f['name'], lp.get('ln'), eng.broken))
            dropped = [st for st in c.exits if not (st & {'marked', 'kept', 'stepped', 'already'})]
            short = f['name'].split('::')[-1]
            if dropped:
                res.bad(r, 'chain-literal-dropped:%s' % short, fx.loc(f, lp.get('ln')), '%s: with proof logging on, one iteration of the loop over the antecedent\'s literals (line %s) can finish '
                        'without marking the literal, keeping it in the derived clause or resolving it away (conditions on that path: %s): the logged chain then derives a '
                        'larger clause than the one the solver uses' % (f['name'], lp.get('ln'), sorted({x for st in dropped for x in st if x.startswith('cond:')})[:4]))
            else:
                res.ok(r, '%s: literal loop at line %s (%d path states)' % (short, lp.get('ln'), len(c.exits)))

    # ---- the chain logged for an incoming clause resolves each level-0-false literal exactly once
    r = res.rule('incoming-clause-units-once', 'CoreSMTSolver::addOriginalClause_ with proof logging on: for every sorted literal list with duplicates over two variables and every level-0 '
                 'assignment, the compaction loop keeps each unassigned literal once and records each false literal once (a false literal recorded twice gives a second resolution step whose '
                 'pivot is no longer in the clause)', floor=100)
    incoming_clause_rule(fx, res, r)

    r = res.rule('derivation-not-dropped', 'endChain stores the finished derivation with an operation that cannot silently keep an older entry for the same clause '
                 '(the empty clause CRef_Undef is re-derived after every pop): emplace/insert whose result is discarded is only safe if absence is enforced by non-assert code', floor=1)
    ec = fx.func('opensmt::ResolutionProof::endChain')
    for n in walk(ec['body']):
        if n.get('k') == 'e' and not n.get('as'):
            c = see_through(n['e'])
            if isinstance(c, dict) and c.get('k') == 'call' and mname(c) in ('emplace', 'insert', 'try_emplace') and recv_path(c) == 'this.clause_to_proof_der':
                moved = any(x.get('k') == 'call' and callee(x).endswith('move') for x in walk(c.get('a')))
                if not moved:
                    continue
                # is there a non-assert erase / presence test guarding it?
                guarded = any(x.get('k') == 'call' and not x.get('as') and recv_path(x) == 'this.clause_to_proof_der' and mname(x) in ('erase', 'find', 'contains', 'count', 'insert_or_assign')
                              for x in fwalk(ec) if x is not c)
                if guarded:
                    res.ok(r, fx.loc(ec, c['ln']) + ' guarded by non-assert code')
                else:
                    res.bad(r, 'derivation-dropped:endChain', fx.loc(ec, c['ln']),
                            'endChain stores the chain with %s and discards the result; key absence is only asserted. A refutation (key CRef_Undef) derived while an older one '
                            'is still stored is silently dropped and get-proof prints the old proof' % mname(c))
    if r['instances'] == 0:
        # stored by another operation (e.g. insert_or_assign / operator[] =): fine, count it
        stores = [x for x in fwalk(ec) if x.get('k') == 'call' and recv_path(x) == 'this.clause_to_proof_der' and mname(x) in ('insert_or_assign', 'operator[]', 'emplace', 'insert', 'try_emplace')]
        if not stores:
            raise AnalysisBroken('endChain no longer stores the derivation in clause_to_proof_der')
        res.ok(r, 'stored via %s' % sorted({mname(x) for x in stores}))

    # ---- R5 exhaustive handling of clause kinds in the printer
    r = res.rule('clause-kinds-exhaustive', 'every clause_type enumerator is classified as a leaf kind (isLeafClauseType) or a derivation kind, and printed by operator<<', floor=2)
    enum = [e['n'] for e in fx.enum('opensmt::clause_type')['e']]
    leaf = fx.func('opensmt::isLeafClauseType')
    leafset = {x['n'].split('::')[-1] for x in fwalk(leaf) if x.get('k') == 'ref' and x.get('d') == 'enum'}
    # printSMT2 distinguishes leaves from derivations by chain length, not by kind; the kind classification it relies on is isLeafClauseType
    NONLEAF = {'CLA_LEARNT': 'stored by endChain with its chain', 'CLA_DERIVED': 'derived units carry their chain'}
    missing = [e for e in enum if e not in leafset and e not in NONLEAF]
    if missing:
        res.bad(r, 'kind-unclassified:%s' % ','.join(missing), fx.loc(leaf), 'clause kind(s) %s are neither leaf kinds in isLeafClauseType nor listed derivation kinds' % missing)
    else:
        res.ok(r, 'isLeafClauseType covers %s; derivation kinds %s' % (sorted(leafset), sorted(NONLEAF)))
    for f in fx.funcs('opensmt::operator<<'):
        if f['params'] and 'clause_type' in f['params'][-1]['t']:
            for sw in (x for x in walk(f['body']) if x.get('k') == 'switch'):
                handled, dk = exhaustive_switch(sw, enum)
                DEBUG_ONLY = {'CLA_ASSUMPTION', 'CLA_SPLIT'}
                miss = [e for e in enum if e not in handled and e not in DEBUG_ONLY]
                if miss:
                    res.bad(r, 'operator<<-missing:%s' % ','.join(miss), fx.loc(f), 'operator<<(clause_type) lacks %s' % miss)
                else:
                    res.ok(r, 'operator<<(clause_type) (debug printer; CLA_ASSUMPTION/CLA_SPLIT listed as debug-only gaps)')
    res.extra['scope_functions'] = len(ctx.scope)
    immutable_clauses_rule(fx, res)
    return res


def incoming_clause_rule(fx, res, r):
    import itertools
    from boolctor import Interp, Unmodelled, Thrown, Ret
    f = fx.func('opensmt::CoreSMTSolver::addOriginalClause_', pred=lambda g: len(g['params']) == 2)
    top = [s_ for s_ in f['body']['c'] if isinstance(s_, dict)]
    li = [i for i, s_ in enumerate(top) if s_.get('k') == 'loop' and any(x.get('k') == 'call' and mname(x) in ('push_back', 'push', 'emplace_back') and 'resolved' in (recv_path(x) or '').lower() for x in walk(s_['body']))]
    if len(li) != 1:
        raise AnalysisBroken('addOriginalClause_: the compaction loop that records resolved units was not found')
    li = li[0]
    ru_name = [recv_path(x) for x in walk(top[li]['body']) if x.get('k') == 'call' and mname(x) in ('push_back', 'push', 'emplace_back') and 'resolved' in (recv_path(x) or '').lower()][0]
    start = max(i for i, s_ in enumerate(top[:li]) if s_.get('k') == 'decl' and s_.get('n') == ru_name)
    ps_name = f['params'][0]['n']
    flags = [d['n'] for d in top[:start] if d.get('k') == 'decl' and 'bool' in (d.get('ct') or '')]
    lits = [('lit', v, sg) for v in ('a', 'b') for sg in (False, True)]
    order = {l: i for i, l in enumerate(lits)}
    n = 0
    bad = None
    try:
        for ln in range(1, 5):
            for combo in itertools.combinations_with_replacement(lits, ln):
                ps0 = sorted(combo, key=lambda l: order[l])
                for va, vb in itertools.product('TFU', repeat=2):
                    val = {'a': va, 'b': vb}
                    n += 1

                    def value(i, a, nd, val=val):
                        l = a[0]
                        v = val[l[1]]
                        if v == 'U':
                            return 2
                        return 0 if (v == 'T') != l[2] else 1          # l_True = lbool(0), l_False = lbool(1), l_Undef = lbool(2)
                    it = Interp(fx, f, '?', {})
                    it.oracle = {'value': value, 'op:~': lambda i, a, nd: ('lit', a[0][1], not a[0][2]) if len(a[0]) == 3 else ('neg',) + a[0]}
                    env = {ps_name: list(ps0), 'lit_Undef': ('lit_Undef',)}
                    for fl in flags:
                        env[fl] = True                     # proof logging on
                    it.env = env
                    returned = False
                    try:
                        for st in top[start:li + 1]:
                            it.block(st)
                    except Ret:
                        returned = True
                    except Thrown:
                        raise Unmodelled('throws')
                    if returned:
                        continue                           # the clause is satisfied at level 0: nothing is logged
                    resolved = it.env.get(ru_name)
                    jn = [k_ for k_ in ('j',) if k_ in it.env]
                    kept = it.env[ps_name][:it.env[jn[0]]] if jn else None
                    want_res = [l for l in dict.fromkeys(ps0) if value(None, [l], None) == 1]
                    want_kept = [l for l in dict.fromkeys(ps0) if value(None, [l], None) == 2]
                    if list(resolved) != want_res and bad is None:
                        bad = (ps0, val, 'records the false literals %s, each must be recorded once: %s' % ([show_l(x) for x in resolved], [show_l(x) for x in want_res]))
                    elif kept is not None and list(kept) != want_kept and bad is None:
                        bad = (ps0, val, 'keeps %s, the unassigned literals are %s' % ([show_l(x) for x in kept], [show_l(x) for x in want_kept]))
    except Unmodelled as e:
        raise AnalysisBroken('addOriginalClause_: the compaction loop is outside the modelled subset: %s' % e)
    r['instances'] += n
    if bad:
        r['instances'] -= 1
        res.bad(r, 'incoming-clause-compaction', fx.loc(f, top[li].get('ln')), 'CoreSMTSolver::addOriginalClause_ on the sorted clause %s under %s %s: the chain logged for the clause then has a step whose '
                'pivot does not occur in the current resolvent (or the attached clause differs from the logged one)' % ([show_l(x) for x in bad[0]], bad[1], bad[2]))
    else:
        r['sites'].append('%d (clause, level-0 assignment) pairs' % n)


def show_l(l):
    return ('-' if l[2] else '') + l[1] if isinstance(l, tuple) and len(l) == 3 else str(l)


def immutable_clauses_rule(fx, res):
    """The proof keys derivations by clause reference and get-proof prints what the clause contains at that moment: a clause that took part in a derivation must keep
    its literal set.  Reordering literals (watches) is harmless; removing one (Clause::shrink / pop / strengthen) is done only by the SatELite-style
    simplification, which SimpSMTSolver::initialize switches off when proofs are logged."""
    from facts import fwalk, walk, callee, see_through
    from prims import is_call
    from build import AnalysisBroken
    r = res.rule('proof-clauses-keep-their-literals', 'Clause::shrink / pop / strengthen are called only in functions that run under `use_simplification` (asserted at entry or tested around the '
                 'call), and SimpSMTSolver::initialize clears use_simplification when proofs are logged: no clause that a derivation refers to loses a literal', floor=2)
    ini = fx.func('opensmt::SimpSMTSolver::initialize')
    off = False
    for n in walk(ini['body']):
        if n.get('k') == 'if' and any(is_call(x, 'logsResolutionProof') for x in [see_through(n['cond'])] + list(walk(n['cond']))):
            for x in walk(n['then']):
                if x.get('k') == 'bin' and x.get('op') == '=' and 'use_simplification' in str(x.get('l')) and see_through(x['r']).get('v') is False:
                    off = True
    if off:
        res.ok(r, 'SimpSMTSolver::initialize: use_simplification = false under logsResolutionProof()')
    else:
        res.bad(r, 'simplification-on-with-proofs', fx.loc(ini), 'SimpSMTSolver::initialize no longer switches use_simplification off when proofs are logged: clause strengthening then changes clauses '
                'the proof refers to')
    n_sites = 0
    for f in sorted(fx.F.values(), key=lambda f: f['name']):
        if not f.get('body') or (f.get('class') or '') == 'opensmt::Clause':
            continue
        sites = [n for n in fwalk(f) if n.get('k') == 'call' and callee(n) in ('opensmt::Clause::shrink', 'opensmt::Clause::pop', 'opensmt::Clause::strengthen') and not n.get('as')]
        if not sites:
            continue
        callers = {g.get('class') for g in fx.F.values() if g.get('body') for n in fwalk(g) if n.get('k') == 'call' and n.get('id') == f['id']}
        if callers and callers <= {'opensmt::Clause'}:
            continue                   # a helper used only by Clause's own methods (remove<Clause, Lit> behind Clause::strengthen)
        n_sites += len(sites)
        believes = any(n.get('as') and 'use_simplification' in str(n) for n in fwalk(f)) or \
            any(n.get('k') == 'if' and 'use_simplification' in str(n.get('cond')) and any(x is s_ for s_ in sites for x in walk(n['then'])) for n in walk(f['body'])) or \
            any(n.get('k') == 'if' and any(is_call(x, 'logsResolutionProof') for x in walk(n['cond'])) for n in walk(f['body']))
        if believes:
            res.ok(r, '%s: removes literals under use_simplification' % f['name'].replace('opensmt::', ''))
        else:
            res.bad(r, 'stored-clause-shortened:%s' % f['name'].split('::')[-1], fx.loc(f, sites[0].get('ln')), '%s removes literals from a stored clause (%s) and neither asserts / tests '
                    'use_simplification nor looks at logsResolutionProof(): with proofs on, a clause that derivations refer to is printed with fewer literals than it had when it was derived '
                    'or used, and the printed refutation no longer resolves to the empty clause' % (f['name'].replace('opensmt::', ''), callee(sites[0]).split('::')[-1]))
    if n_sites == 0:
        raise AnalysisBroken('proof-clauses-keep-their-literals: no call of Clause::shrink / pop / strengthen found (anchor: SimpSMTSolver::strengthenClause)')
