"""C18 -- the executable never crashes and signals every input problem (structural clauses, DESIGN 3-C18)."""
from core import Result
from facts import Facts, fwalk, walk, walk_macro, callee, see_through
from prim_escape import Escape, clean
from build import AnalysisBroken
from facts import path_of
from prims import mname, is_call, as_assign
from walk import Client, Engine

LEVEL = 'other'
EXPLANATION = ('Whole-program exception-escape analysis over the type-checked AST of every built unit (CHA call graph, '
               'handler matching aware of class hierarchy and inheritance access): no exception type may escape main or '
               'Interpret::interp; no explicit throw may escape a noexcept function; the results of interpFile/osmt_yyparse are '
               'never discarded; the exit-status flag has one writer on the error path of the one reporter; the reporter is never '
               'given a non-literal format string; exit/abort callers are an explicit allowlist. Decides these clauses, '
               'not absence of memory errors or promptness.')

# exit()/abort() callers accepted on the unchanged tree, one reason each (names, never lines)
EXIT_ALLOW = {
    'osmt_yylex': 'lexer error rules print a diagnostic on stdout and exit(1)',
    'opensmt::catcher': 'signal handler (SIGINT/SIGTERM): exit(1) after printing unknown',
    'main': 'command-line usage errors: diagnostic + exit(1)',
    'opensmt::parseCMDLineArgs': 'usage errors / --help / --version',
    'opensmt::(anonymous namespace)::parseCMDLineArgs': 'usage errors / --help / --version',
    'opensmt::Simplex::overBound': 'review item: explicit exit on an internal statistics counter overflow guard',
    'yy_fatal_error': 'flex runtime fatal error (out of memory / internal)',
    'opensmt::reportError': 'internal error reporter used by option parsing',
}
EXIT_MACRO_ALLOW = {
    'CHECK_POSITIVE': 'review item: internal-invariant guard in the rational word paths (a denominator/gcd must be positive); '
                      'aborts instead of continuing with a corrupt value; not reachable from input unless the arithmetic is wrong',
    'CHECK_UWORD': 'expands CHECK_POSITIVE (same reason)',
    'opensmt_error': 'command-line usage error: diagnostic + exit(1)',
    'opensmt_error2': 'command-line usage error: diagnostic + exit(1)',
    'opensmt_error_': 'command-line usage error: diagnostic + exit(1)',
}
ABORT_FUNCS = {'exit', 'abort', '_exit', 'quick_exit', 'std::terminate', 'std::abort', 'std::exit', '_Exit', 'std::quick_exit'}
RESULT_FUNCS = {'opensmt::Interpret::interpFile', 'osmt_yyparse'}
# thrown only on allocation failure / capacity overflow: excluded from the noexcept rule by stated assumption
ALLOC_FAILURE = {'opensmt::OutOfMemoryException', 'std::bad_alloc', 'std::length_error'}
LIB_TABLE_TYPES = {'std::out_of_range', 'std::invalid_argument'}


def reachable(fx, root_ids):
    seen = set(root_ids)
    st = list(root_ids)
    while st:
        i = st.pop()
        f = fx.F.get(i)
        if not f:
            continue
        for n in fwalk(f):
            k = n.get('k')
            if k == 'call' and n.get('id'):
                for t in fx.targets(n):
                    if t not in seen:
                        seen.add(t); st.append(t)
            elif k == 'new' and n.get('id') and n['id'] not in seen:
                seen.add(n['id']); st.append(n['id'])
            elif k == 'ref' and n.get('d') == 'func' and n.get('id') and n['id'] not in seen:
                seen.add(n['id']); st.append(n['id'])
            elif k == 'decl' and isinstance(n.get('dtor'), str) and n['dtor'] not in seen:
                seen.add(n['dtor']); st.append(n['dtor'])      # user-declared destructor of a local runs when its scope is left
    return seen


def run(src, tier, seed):
    fx = Facts(src)
    res = Result('C18')
    res.assumptions += [
        'default build configuration (no STATISTICS/PEDANTIC_DEBUG/PARALLEL/ENABLE_LINE_EDITING), analysed with -UNDEBUG',
        'allocation failure (bad_alloc, OutOfMemoryException on capacity overflow) is outside the noexcept rule',
        'virtual calls resolved by class-hierarchy analysis over all built units; calls through function pointers are not followed '
        '(two sites, both lambdas attached to their enclosing function)',
        'library throw table: std::sto* (invalid_argument/out_of_range), container .at()/substr (out_of_range)',
    ]
    E = Escape(fx)
    main = fx.func('main')
    interp = fx.func('opensmt::Interpret::interp')
    reach = reachable(fx, [main['id']])
    # ---- R1/R2 escape sets of the two entry points
    thrown_types = set()
    for i in reach:
        for ev in walk_events(E.ev.get(i, [])):
            if ev[0] == 'throw' and ev[1] != '<rethrow>':
                thrown_types.add(ev[1])
    for entry, f in (('main', main), ('Interpret::interp', interp)):
        r = res.rule('escape:' + entry, 'no exception type thrown in code reachable from the executable may escape %s' % entry, floor=7)
        for t in sorted(thrown_types):
            if t in ALLOC_FAILURE:
                continue
            if t in E.esc[f['id']]:
                ch = E.chain(f['id'], t)
                res.bad(r, 'escape:%s:%s' % (entry, t), fx.loc(f), '%s can escape %s (thrown in %s)' % (t, entry, E.origin(f['id'], t)), ch)
            else:
                res.ok(r, '%s: contained' % t)
    res.extra['thrown_types_reachable'] = sorted(thrown_types)
    res.extra['functions_reachable_from_main'] = len(reach)
    res.extra['escape_fixpoint_rounds'] = E.rounds
    # ---- R3 noexcept
    r = res.rule('noexcept-terminate', 'no explicit throw (other than allocation failure) may escape a noexcept function/destructor: std::terminate')
    nex = [i for i in reach if fx.F.get(i, {}).get('noexcept')]
    for i in nex:
        f = fx.F[i]
        bad = {t: w for t, w in E.terminate.get(i, {}).items() if t not in ALLOC_FAILURE and t not in LIB_TABLE_TYPES}
        if bad:
            for t in sorted(bad):
                res.bad(r, 'terminate:%s:%s' % (f['name'], t), fx.loc(f), '%s escapes noexcept %s' % (t, f['name']), E.chain(i, t))
        else:
            res.ok(r, f['name'])
    # ---- R3b the let-binding log stays balanced (precondition of the .at() in the noexcept scope guard)
    r = res.rule('let-log-balance', 'LetRecords::popFrame runs inside a noexcept scope-guard destructor and looks every logged binder up with .at(): '
                 'each logged binding must have created exactly one undoable record (a new map entry or one shadow value) and each undo must remove exactly one', floor=5)
    from prims import must_call, is_call, mname
    from facts import recv_path, path_of
    dtors_reaching = [fx.F[i]['name'] for i in nex if any(is_call(n, 'popFrame') for n in fwalk(fx.F[i]))]
    if not dtors_reaching:
        raise AnalysisBroken('no noexcept function calls LetRecords::popFrame any more: the let scope guard moved')
    av = fx.func('opensmt::LetBinder::addValue')
    exits, eng = must_call(av, {'push': lambda n: is_call(n, 'push', 'this.shadowedValues') or is_call(n, 'push_back', 'this.shadowedValues')})
    if [1 for k, nd, st in exits if k != 'throw' and 'push' not in st]:
        res.bad(r, 'let-log:addValue-conditional-push', fx.loc(av), 'LetBinder::addValue can return without pushing the shadowed value, but LetRecords::addBinding logs the binder '
                'unconditionally: popFrame then undoes one level too many, erases the outer binding and the enclosing frame\'s letBinders.at() throws inside the noexcept guard')
    else:
        res.ok(r, 'LetBinder::addValue pushes a shadow value on every path')
    ab = fx.func('opensmt::LetRecords::addBinding')
    KEYC = ('insert', 'emplace', 'try_emplace', 'operator[]', 'insert_or_assign')
    exits, eng = must_call(ab, {'log': lambda n: is_call(n, 'push_back', 'this.knownBinders') or is_call(n, 'emplace_back', 'this.knownBinders'),
                                'new': lambda n: n.get('k') == 'call' and mname(n) in KEYC and recv_path(n) == 'this.letBinders',
                                'shadow': lambda n: is_call(n, 'addValue')})
    bad = [st for k, nd, st in exits if k != 'throw' and not ('log' in st and (('new' in st) != ('shadow' in st)))]
    if bad:
        res.bad(r, 'let-log:addBinding-unbalanced', fx.loc(ab), 'LetRecords::addBinding has a path with %s: the binder log and the undoable records get out of step' % sorted(set(map(lambda x: tuple(sorted(x)), bad))))
    else:
        res.ok(r, 'LetRecords::addBinding: one log entry and exactly one of (new map entry, shadow value) on every path')
    rs = fx.func('opensmt::LetBinder::restoreShadowedValue')
    if any(is_call(n, 'pop', 'this.shadowedValues') or is_call(n, 'pop_back', 'this.shadowedValues') for n in fwalk(rs)):
        res.ok(r, 'LetBinder::restoreShadowedValue pops one shadow value')
    else:
        res.bad(r, 'let-log:restore-no-pop', fx.loc(rs), 'LetBinder::restoreShadowedValue no longer pops the shadow stack')
    pf = fx.func('opensmt::LetRecords::popFrame')
    loops = [n for n in walk(pf['body']) if n.get('k') == 'loop']
    okpf = False
    for lp in loops:
        pops = [n for n in walk(lp['body']) if is_call(n, 'pop_back', 'this.knownBinders')]
        ifs = [n for n in walk(lp['body']) if n.get('k') == 'if' and not n.get('as') and any(is_call(x, 'hasShadowValue') for x in walk(n['cond']))]
        if pops and ifs:
            i0 = ifs[0]
            t_restore = any(is_call(x, 'restoreShadowedValue') for x in walk(i0['then'])) and not any(is_call(x, 'erase') for x in walk(i0['then']))
            e_erase = i0.get('else') and any(is_call(x, 'erase', 'this.letBinders') for x in walk(i0['else'])) and not any(is_call(x, 'restoreShadowedValue') for x in walk(i0['else']))
            okpf = bool(t_restore and e_erase)
    if okpf:
        res.ok(r, 'LetRecords::popFrame: per logged binder, restore the shadow value if there is one, else erase the entry')
    else:
        res.bad(r, 'let-log:popFrame-unbalanced', fx.loc(pf), 'LetRecords::popFrame no longer undoes exactly one record per logged binder')
    res.ok(r, 'noexcept callers of popFrame: %s' % dtors_reaching)
    # ---- R4 results never discarded
    r = res.rule('result-dropped', 'the int result of Interpret::interpFile / osmt_yyparse must be used (not a discarded expression statement)', floor=3)
    for i in reach:
        f = fx.F.get(i)
        if not f:
            continue
        for n in fwalk(f):
            if n.get('k') == 'e':
                x = n.get('e')
                while isinstance(x, dict) and x.get('k') == 'cast' and x.get('to') == 'void':
                    x = x['e']
                if isinstance(x, dict) and x.get('k') == 'call' and callee(x) in RESULT_FUNCS:
                    res.bad(r, 'dropped:%s:%s' % (f['name'], callee(x)), fx.loc(f, x['ln']),
                            'result of %s is discarded in %s: a parse failure cannot reach the exit status' % (callee(x), f['name']))
        used = set()
        for n in fwalk(f):
            if n.get('k') == 'call' and callee(n) in RESULT_FUNCS:
                used.add((callee(n), n['ln']))
        dropped_lines = {fd.where for fd in res.findings if fd.rule == 'result-dropped'}
        for (c, ln) in sorted(used):
            if fx.loc(f, ln) not in dropped_lines:
                res.ok(r, '%s: %s used' % (fx.loc(f, ln), c))
    # ---- R5 single writer of the status flag, on the error path
    r = res.rule('status-writer', 'Interpret::_okStatus is written only by notify_formatted, guarded by its `error` parameter', floor=1)
    writers = []
    for i, f in fx.F.items():
        for n in fwalk(f):
            if n.get('k') == 'bin' and n['op'] == '=' and isinstance(n['l'], dict) and n['l'].get('k') == 'mem' and n['l'].get('n') == '_okStatus':
                writers.append((f, n))
    if not writers:
        raise AnalysisBroken('no writer of Interpret::_okStatus found')
    for f, n in writers:
        if f['name'] != 'opensmt::Interpret::notify_formatted':
            if n['r'].get('v') is False:
                res.ok(r, '%s sets failure status' % f['name'])
            else:
                res.bad(r, 'status-writer:%s' % f['name'], fx.loc(f, n['ln']), '%s writes _okStatus with a value other than false' % f['name'])
        else:
            res.ok(r, fx.loc(f, n['ln']))
    nf = fx.func('opensmt::Interpret::notify_formatted')
    ok = False
    for n in walk(nf['body']):
        if n.get('k') == 'if' and isinstance(n['cond'], dict) and n['cond'].get('k') == 'ref' and n['cond'].get('n') == 'error':
            for m in walk(n['then']):
                if m.get('k') == 'bin' and m['op'] == '=' and m['l'].get('n') == '_okStatus' and m['r'].get('v') is False:
                    ok = True
    rr = res.rule('status-on-error', 'notify_formatted(error=true, ...) sets the failure status', floor=1)
    if ok:
        res.ok(rr, fx.loc(nf))
    else:
        res.bad(rr, 'status-on-error', fx.loc(nf), 'notify_formatted no longer sets _okStatus=false under `if (error)`')
    # ---- R6 format argument is a literal
    r = res.rule('format-literal', 'argument 2 of Interpret::notify_formatted (printf-style format) must be a string literal', floor=60)
    for i, f in fx.F.items():
        for n in fwalk(f):
            if n.get('k') == 'call' and callee(n) == 'opensmt::Interpret::notify_formatted':
                a = n['a'][1] if len(n['a']) > 1 else None
                a = see_through(a)
                if isinstance(a, dict) and a.get('k') == 'str':
                    res.ok(r, fx.loc(f, n['ln']))
                else:
                    res.bad(r, 'format-nonliteral:%s:%s' % (f['name'], describe(a)), fx.loc(f, n['ln']),
                            'non-literal format string passed to notify_formatted in %s: a %% in the message (user symbol names reach it) reads va_args that do not exist' % f['name'])
    # ---- R7 error literal only in reporter
    r = res.rule('error-literal', 'the "(error" response prefix is produced only inside notify_formatted', floor=1)
    for i, f in fx.F.items():
        if not fx.rel(f['file']).startswith(('src/api/', 'src/bin/')):
            continue
        for n in fwalk(f):
            if n.get('k') == 'str' and n['v'].lstrip().startswith('(error'):
                if f['name'] == 'opensmt::Interpret::notify_formatted':
                    res.ok(r, fx.loc(f))
                else:
                    res.bad(r, 'error-literal:%s' % f['name'], fx.loc(f), 'error response printed outside the status-setting reporter in %s' % f['name'])
    # ---- R8 exit/abort callers
    r = res.rule('exit-callers', 'exit/abort/terminate may be called only from the allowlisted functions', floor=4)
    for i in sorted(reach):
        f = fx.F.get(i)
        if not f:
            continue
        for n, macro in walk_macro(f['body'], f.get('lambdas', [])):
            if n.get('k') == 'call' and callee(n) in ABORT_FUNCS and not n.get('as'):
                nm = f['name']
                if macro in EXIT_MACRO_ALLOW:
                    res.ok(r, '%s in %s via %s: %s' % (callee(n), nm, macro, EXIT_MACRO_ALLOW[macro]))
                elif nm in EXIT_ALLOW:
                    res.ok(r, '%s in %s: %s' % (callee(n), nm, EXIT_ALLOW[nm]))
                else:
                    res.bad(r, 'exit-caller:%s' % nm, fx.loc(f, n['ln']), '%s() called from %s, which is not an allowlisted termination point' % (callee(n), nm))
    frontend_rules(fx, res)
    res.samples = [{'entry': 'main', 'escape_set': sorted(E.esc[main['id']])}, {'entry': 'Interpret::interp', 'escape_set': sorted(E.esc[interp['id']])}]
    res.extra['units'] = fx.stats['units']
    res.extra['functions'] = len(fx.F)
    import fmtrule
    fmtrule.format_rule(fx, res)
    import astshape
    astshape.shape_rule(fx, res, src)
    template_arity_rule(fx, res)
    import lexrule
    lexrule.lexer_rule(fx, res, src)
    import parsefail
    parsefail.parse_failure_rule(fx, res)
    sort_arity_rule(fx, res)
    return res


def walk_events(evs):
    for e in evs:
        if e[0] == 'try':
            yield from walk_events(e[1])
            for _, h in e[2]:
                yield from walk_events(h)
        else:
            yield e


def describe(a):
    if not isinstance(a, dict):
        return '?'
    if a.get('k') == 'call':
        return (a.get('f') or 'call').split('::')[-1] + '()'
    if a.get('k') == 'ref':
        return a['n']
    return a.get('k', '?')


# ---------------------------------------------------------------------------------------------------------------------
# Front-end crash clauses added after an independent seeding agent reported four crashes / silent failures on the unchanged tree (DESIGN 9.4)
CFG = 'opensmt::SMTConfig::'
GROW = {'push', 'push_back', 'emplace_back', 'emplace', 'insert'}
SHRINK = {'pop', 'pop_back', 'clear', 'shrink', 'shrink_', 'erase', 'resize'}


class NonEmpty(Client):
    """state: frozenset of facts ('min', container, k) = the local container has at least k elements (k capped at 3), and ('int', var, v) = the int local
    holds the literal value v.  Enough to see `if (g.size() < 2) return; for (i = 0; i < g.size() - 1; i++) {...push...}` as running at least once."""
    CAP = 3

    def __init__(self, locs):
        self.locs = locs
        self.accesses = []          # (line, name, how, known-nonempty?)

    @staticmethod
    def minsize(s, v):
        return max([f[2] for f in s if f[0] == 'min' and f[1] == v] or [0])

    def setmin(self, s, v, k):
        k = min(k, self.CAP)
        return frozenset(f for f in s if not (f[0] == 'min' and f[1] == v)) | ({('min', v, k)} if k > 0 else frozenset())

    def intval(self, s, e):
        e = see_through(e)
        if isinstance(e, dict) and e.get('k') == 'lit' and isinstance(e.get('v'), int) and not isinstance(e.get('v'), bool):
            return e['v']
        if isinstance(e, dict) and e.get('k') == 'ref':
            for f in s:
                if f[0] == 'int' and f[1] == e['n']:
                    return f[2]
        return None

    def size_lb(self, s, e):
        """lower bound of an integer expression built from v.size(), literals and +/-; None if unknown"""
        e = see_through(e)
        if not isinstance(e, dict):
            return None
        if e.get('k') == 'call' and mname(e) in ('size', 'size_') and path_of(e.get('recv')) in self.locs:
            return self.minsize(s, path_of(e['recv']))
        if e.get('k') == 'bin' and e.get('op') in ('-', '+'):
            l = self.size_lb(s, e['l'])
            r_ = self.intval(s, e['r'])
            if l is not None and r_ is not None:
                return l - r_ if e['op'] == '-' else l + r_
        return None

    def _size_fact(self, a):
        a = see_through(a)
        if not isinstance(a, dict):
            return None
        if a.get('k') == 'call' and mname(a) == 'empty' and path_of(a.get('recv')) in self.locs:
            return (path_of(a['recv']), 'empty', 0)
        if a.get('k') in ('bin', 'call') and a.get('op') in ('==', '!=', '<', '<=', '>', '>='):
            l, r_ = (a['l'], a['r']) if a.get('k') == 'bin' else ((a.get('recv'), (a.get('a') or [None])[0]) if a.get('recv') is not None else tuple((a.get('a') or [None, None])[:2]))
            l, r_ = see_through(l), see_through(r_)

            def sz(x):
                return path_of(x.get('recv')) if isinstance(x, dict) and x.get('k') == 'call' and mname(x) in ('size', 'size_') and path_of(x.get('recv')) in self.locs else None

            def lit(x):
                return x.get('v') if isinstance(x, dict) and x.get('k') == 'lit' and isinstance(x.get('v'), int) else None
            flip = {'<': '>', '<=': '>=', '>': '<', '>=': '<=', '==': '==', '!=': '!='}
            if sz(l) and lit(r_) is not None:
                return (sz(l), a['op'], lit(r_))
            if sz(r_) and lit(l) is not None:
                return (sz(r_), flip[a['op']], lit(l))
        return None

    def on_cond(self, atom, s, branch):
        f = self._size_fact(atom)
        if f:
            v, rel, k = f
            cur = self.minsize(s, v)
            if rel == 'empty':
                if branch and cur >= 1:
                    return None
                return s if branch else self.setmin(s, v, max(cur, 1))
            truth = {'>': lambda n: n > k, '>=': lambda n: n >= k, '<': lambda n: n < k, '<=': lambda n: n <= k, '==': lambda n: n == k, '!=': lambda n: n != k}[rel]
            # smallest size consistent with (size REL k) == branch, searched up to the cap; sizes below the current bound are excluded
            feas = [n for n in range(cur, self.CAP + 2) if truth(n) == branch]
            if not feas and not any(truth(n) == branch for n in range(self.CAP + 2, self.CAP + 8)):
                return None
            return self.setmin(s, v, feas[0]) if feas else s
        # i < v.size() - c  with a known i
        a = see_through(atom)
        if isinstance(a, dict) and a.get('k') == 'bin' and a.get('op') in ('<', '<='):
            i = self.intval(s, a['l'])
            lb = self.size_lb(s, a['r'])
            if i is not None and lb is not None:
                if (i < lb if a['op'] == '<' else i <= lb) and not branch:
                    return None        # the bound is at least lb: the condition cannot be false
        return s

    def on_decl(self, n, s):
        s = frozenset(f for f in s if not (f[0] == 'int' and f[1] == n.get('n')))
        if n.get('n') in self.locs:
            i = see_through(n.get('init')) if n.get('init') is not None else None
            k = 0
            if isinstance(i, dict) and i.get('k') in ('init', 'new') and 'initializer_list' in str(i):
                k = 1
            return (self.setmin(s, n['n'], k),)
        v = self.intval(s, n.get('init')) if n.get('init') is not None else None
        if v is not None and 'int' in (n.get('ct') or n.get('t') or '') or (v is not None and 'size_t' in (n.get('t') or '')):
            return (s | {('int', n['n'], v)},)
        return (s,)

    def on_assign(self, n, s):
        tgt = path_of(n.get('l') if n.get('k') == 'bin' else n.get('e'))
        if tgt:
            s = frozenset(f for f in s if not (f[0] == 'int' and f[1] == tgt))
            if tgt in self.locs:
                s = self.setmin(s, tgt, 0)
        return (s,)

    def on_call(self, n, s):
        rp = path_of(n.get('recv')) if n.get('recv') is not None else None
        if rp in self.locs:
            m = mname(n)
            if m in GROW:
                return (self.setmin(s, rp, self.minsize(s, rp) + 1),)
            if m in ('pop', 'pop_back'):
                return (self.setmin(s, rp, max(self.minsize(s, rp) - 1, 0)),)
            if m in SHRINK:
                return (self.setmin(s, rp, 0),)
            if n.get('op') == '[]' or m in ('front', 'back', 'last'):
                idx = see_through(n['a'][0]) if n.get('a') else None
                if m in ('front', 'back', 'last'):
                    self.accesses.append((n.get('ln'), rp, m, self.minsize(s, rp) >= 1))
                elif isinstance(idx, dict) and idx.get('k') == 'lit':
                    self.accesses.append((n.get('ln'), rp, '[%s]' % idx.get('v'), self.minsize(s, rp) > idx.get('v')))
        for i_, a in enumerate(n.get('a') or []):
            pa = path_of(a)
            pt = ((n.get('pt') or []) + [''] * 8)[i_]
            by_const_ref_or_value = ('const ' in pt and pt.rstrip().endswith('&') and not pt.rstrip().endswith('&&')) or (pt and '&' not in pt)
            if pa in self.locs and not callee(n).startswith('std::') and not by_const_ref_or_value:
                s = self.setmin(s, pa, 0)        # handed over by mutable reference or moved from: nothing is known afterwards
        return (s,)


def frontend_rules(fx, res):
    # ---- F1 possibly empty local containers
    r = res.rule('nonempty-before-access', 'in the front end (src/api) a local vector that is indexed with a literal or read with front()/back() is known to be non-empty on every path to the '
                 'access (an unconditional push, a rejecting size test, a loop condition); assert(...) does not count', floor=3)
    for f in fx.F.values():
        if not f.get('body') or '/api/' not in f['file']:
            continue
        locs = {d['n'] for d in fwalk(f) if d.get('k') == 'decl' and any(m in (d.get('ct') or '') for m in ('vector<', 'vec<'))}
        if not locs:
            continue
        cand = [n for n in fwalk(f) if n.get('k') == 'call' and not n.get('as') and n.get('recv') is not None and path_of(n['recv']) in locs
                and (mname(n) in ('front', 'back', 'last') or (n.get('op') == '[]' and n.get('a') and isinstance(see_through(n['a'][0]), dict) and see_through(n['a'][0]).get('k') == 'lit'))]
        if not cand:
            continue
        c = NonEmpty(locs)
        eng = Engine(f, c)
        eng.run([frozenset()])
        if eng.broken:
            raise AnalysisBroken('%s: %s' % (f['name'], eng.broken))
        by_site = {}
        for ln, name, how, known in c.accesses:
            by_site[(ln, name, how)] = by_site.get((ln, name, how), True) and known
        for (ln, name, how), known in sorted(by_site.items()):
            if known:
                res.ok(r, '%s: %s%s' % (fx.loc(f, ln), name, how if how.startswith('[') else '.' + how + '()'))
            else:
                res.bad(r, 'possibly-empty:%s:%s' % (f['name'].split('::')[-1], name), fx.loc(f, ln), '%s reads %s%s on a path on which nothing guarantees that the vector is non-empty '
                        '(it is filled only conditionally / in a loop that may not run, and no rejecting size test precedes): out-of-bounds read on such input'
                        % (f['name'], name, how if how.startswith('[') else '.' + how + '()'))

    # ---- F1b the arity gate: functions reachable from term parsing that compare the size of an argument-vector parameter with a non-literal quantity handle
    # argument lists of arbitrary length (this is where the user's arity arrives); a literal index into that parameter needs an established lower bound
    r = res.rule('arity-gate-bounds', 'a function reachable from Interpret::parseTerm that compares the size of a vector parameter with a non-literal value (it accepts argument lists of any '
                 'length) indexes that parameter with a literal only where a size test on the same path makes the index valid; assert(...) does not count', floor=1)
    root = fx.func('opensmt::Interpret::parseTerm')
    n_gate = 0
    for fid in sorted(reachable(fx, [root['id']])):
        f = fx.F.get(fid)
        if not f or not f.get('body'):
            continue
        params = {p_['n'] for p_ in f['params'] if any(m in p_['t'] for m in ('vec<', 'vector<'))}
        if not params:
            continue

        def size_of(e, p_):
            return isinstance(e, dict) and e.get('k') == 'call' and mname(e) in ('size', 'size_') and path_of(e.get('recv')) == p_

        generic = set()
        for g in walk(f['body']):
            if g.get('k') != 'if' or g.get('as'):
                continue
            for c in [see_through(g['cond'])] + list(walk(g['cond'])):
                if isinstance(c, dict) and c.get('op') in ('==', '!=', '<', '<=', '>', '>='):
                    l_, r_ = (c.get('l'), c.get('r')) if c.get('k') == 'bin' else ((c.get('recv'), (c.get('a') or [None])[0]) if c.get('recv') is not None else tuple(((c.get('a') or []) + [None, None])[:2]))
                    l_, r_ = see_through(l_) if l_ is not None else None, see_through(r_) if r_ is not None else None
                    for p_ in params:
                        for x, y in ((l_, r_), (r_, l_)):
                            if size_of(x, p_) and isinstance(y, dict) and y.get('k') != 'lit':
                                generic.add(p_)
        if not generic:
            continue
        cand = [x for x in fwalk(f) if x.get('k') == 'call' and not x.get('as') and x.get('recv') is not None and path_of(x['recv']) in generic and x.get('op') == '[]' and x.get('a')
                and isinstance(see_through(x['a'][0]), dict) and see_through(x['a'][0]).get('k') == 'lit']
        if not cand:
            continue
        n_gate += 1
        c = NonEmpty(generic)
        eng = Engine(f, c)
        eng.run([frozenset()])
        if eng.broken:
            raise AnalysisBroken('%s: %s' % (f['name'], eng.broken))
        by_site = {}
        for ln, name, how, known in c.accesses:
            by_site[(ln, name, how)] = by_site.get((ln, name, how), True) and known
        for (ln, name, how), known in sorted(by_site.items()):
            if known:
                res.ok(r, '%s: %s%s' % (fx.loc(f, ln), name, how))
            else:
                res.bad(r, 'index-beyond-arity:%s:%s' % (f['name'].split('::')[-1], name), fx.loc(f, ln), '%s accepts argument lists of any length (it compares %s.size() with the arity of a '
                        'candidate) and reads %s%s on a path on which no size test makes that index valid: an application with fewer arguments, such as an operator used as a constant, '
                        'reads out of bounds' % (f['name'].replace('opensmt::', ''), name, name, how))
    if n_gate == 0:
        raise AnalysisBroken('arity-gate-bounds: no arity-generic function with a literal index found (anchor: PtStore::lookupSymbol)')

    # ---- F2 options that decide what is built at construction time cannot be changed afterwards
    r = res.rule('construction-options-frozen', 'an option that decides whether a solver component is allocated (pointer member allocated under a configuration accessor in a constructor / initialize) '
                 'or which solver class is built (factory returning unique_ptr) is listed in SMTConfig::isPreInitializationOption, so set-option refuses to change it later', floor=3)

    def opts_of(fname, seen):
        out = set()
        for f in fx.funcs(fname):
            for n in fwalk(f):
                if n.get('k') == 'ref' and 'SMTConfig::o_' in n.get('n', ''):
                    out.add(n['n'].split('::')[-1])
                if n.get('k') == 'mem' and n.get('n', '').startswith('o_'):
                    out.add(n['n'])
                if n.get('k') == 'call' and callee(n).startswith(CFG) and callee(n) not in seen and callee(n) != fname:
                    seen.add(callee(n))
                    out |= opts_of(callee(n), seen)
        return out
    frozen = opts_of(CFG + 'isPreInitializationOption', set())
    if len(frozen) < 3:
        raise AnalysisBroken('SMTConfig::isPreInitializationOption lists %d options: anchor drifted' % len(frozen))
    so = fx.func(CFG + 'setOption')
    if not any(is_call(n, 'isPreInitializationOption') for n in fwalk(so)):
        res.bad(r, 'frozen-set-not-enforced', fx.loc(so), 'SMTConfig::setOption no longer consults isPreInitializationOption')

    def allocs(e):
        return any(x.get('k') == 'heapnew' or (x.get('k') == 'call' and 'make_unique' in callee(x)) for x in walk(e))

    def accessors(e):
        return {callee(x) for x in walk(e) if x.get('k') == 'call' and callee(x).startswith(CFG)}
    deciding = {}     # (what, where) -> set of accessor names
    for f in fx.F.values():
        if not f.get('body'):
            continue
        short = f['name'].split('::')[-1]
        cls = (f.get('class') or '').split('::')[-1]
        if short == cls or short == 'initialize':
            for ini in f.get('inits', []):
                for c in walk(ini['e']):
                    if c.get('k') == 'cond' and allocs(c.get('t')) != allocs(c.get('f')) and accessors(c.get('c')):
                        deciding.setdefault(('%s::%s' % (cls, ini.get('m')), fx.loc(f, c.get('ln'))), set()).update(accessors(c['c']))
            for n in walk(f['body']):
                if n.get('k') == 'if' and not n.get('as') and accessors(n['cond']):
                    for x in walk(n['then']):
                        tgt = None
                        if x.get('k') == 'bin' and x.get('op') == '=' and allocs(x['r']):
                            tgt = path_of(x['l'])
                        elif x.get('k') == 'call' and x.get('op') == '=' and allocs(x.get('a') or []):
                            tgt = path_of(x['recv']) if x.get('recv') is not None else path_of((x.get('a') or [None])[0])
                        if tgt and tgt.startswith('this.'):
                            deciding.setdefault(('%s::%s' % (cls, tgt[5:]), fx.loc(f, n.get('ln'))), set()).update(accessors(n['cond']))
        if 'unique_ptr' in (f.get('ret') or '') and f['name'].startswith('opensmt::'):
            conds = set()
            for n in walk(f['body']):
                if n.get('k') == 'if' and not n.get('as') and accessors(n['cond']) and any(x.get('k') == 'ret' and allocs(x.get('e')) for x in walk(n['then'])):
                    conds |= accessors(n['cond'])
            # only factories used while a solver object is being constructed / initialised (a per-request factory re-reads the option each time)
            def in_setup(g):
                sh, cl = g['name'].split('::')[-1], (g.get('class') or '').split('::')[-1]
                return sh == cl or sh == 'initialize'
            used_at_setup = any(in_setup(g) and any(x.get('k') == 'call' and f['id'] in fx.targets(x) for x in fwalk(g)) for g in fx.F.values() if g.get('body'))
            if conds and used_at_setup:
                deciding.setdefault(('factory %s' % f['name'].replace('opensmt::', ''), fx.loc(f)), set()).update(conds)
    if not deciding:
        raise AnalysisBroken('no option-dependent construction found (CoreSMTSolver::resolutionProof, MainSolver::createInnerSolver expected)')
    for (what, where), accs in sorted(deciding.items()):
        opts = set()
        for a in accs:
            opts |= opts_of(a, set())
        miss = sorted(opts - frozen)
        if miss:
            res.bad(r, 'option-not-frozen:%s:%s' % (what, ','.join(miss)), where, '%s is decided at construction time by %s, which reads %s; %s can still be changed by set-option after the '
                    'solver was built: the later gate sees the new value while the component was never built (null dereference) or the wrong class runs'
                    % (what, sorted(a.split('::')[-1] + '()' for a in accs), sorted(opts), miss))
        else:
            res.ok(r, '%s: %s all frozen' % (what, sorted(opts)))

    # ---- F3 pipe reader: input that ends inside a command is reported
    r = res.rule('pipe-eof-residue-reported', 'Interpret::interpPipe reports an error when the input ends while a command is still open (parenthesis counter above zero / inside a string or '
                 'quoted symbol) or while text outside any command is pending: after the read loop, or on the end-of-input path, the framing state is tested and the error reporter is called', floor=2)
    ip = fx.func('opensmt::Interpret::interpPipe')
    counters = {n['e']['n'] for n in walk(ip['body']) if n.get('k') == 'un' and n.get('op') in ('++', '--') and isinstance(n.get('e'), dict) and n['e'].get('k') == 'ref'}
    reported = False
    for n in walk(ip['body']):
        if n.get('k') == 'if' and not n.get('as'):
            c = n['cond']
            mentions = {x['n'] for x in walk(c) if x.get('k') == 'ref'}
            gt0 = any(x.get('k') == 'bin' and x.get('op') in ('>', '!=') and path_of(x['l']) in counters and see_through(x['r']).get('v') == 0 for x in walk(c))
            errs = any(x.get('k') == 'call' and callee(x).endswith('notify_formatted') and x.get('a') and see_through(x['a'][0]).get('v') is True for x in walk(n['then']))
            if gt0 and errs and mentions & counters:
                reported = True
    if reported:
        res.ok(r, 'interpPipe reports an open command at end of input')
    else:
        res.bad(r, 'pipe-eof-silent', fx.loc(ip), 'Interpret::interpPipe never tests the parenthesis counter for being above zero together with an error report: input that ends inside a command '
                '(truncated script) is dropped silently with exit status 0, while file mode reports a syntax error')

    # text outside any command (stray symbols, an unterminated string or quoted symbol) that is still pending at end of input
    loops = [l for l in walk(ip['body']) if l.get('k') == 'loop' and any(is_call(x, 'read') for x in walk(l['body']))]
    if len(loops) != 1:
        raise AnalysisBroken('interpPipe: the read loop was not found')
    inside = {id(x) for x in walk(loops[0])}
    flags = set()
    for n in walk(loops[0]['body']):
        a = as_assign(n) if n.get('k') in ('bin', 'call') else None
        if a and isinstance(see_through(a[1]), dict) and see_through(a[1]).get('v') is True and path_of(a[0]) and '.' not in path_of(a[0]):
            # a Boolean local set to true under a condition that looks at the counter being zero and at the current character
            for g in walk(loops[0]['body']):
                if g.get('k') == 'if' and any(y is n for y in walk(g['then'])) and any(path_of(y.get('l')) in counters and see_through(y.get('r')).get('v') == 0 and y.get('op') == '=='
                                                                                       for y in walk(g['cond']) if y.get('k') == 'bin'):
                    flags.add(path_of(a[0]))
    stray = False
    for n in walk(ip['body']):
        if n.get('k') == 'if' and not n.get('as') and id(n) not in inside:
            mentions = {x['n'] for x in walk(n['cond']) if x.get('k') == 'ref'}
            errs = any(x.get('k') == 'call' and callee(x).endswith('notify_formatted') and x.get('a') and see_through(x['a'][0]).get('v') is True for x in walk(n['then']))
            if errs and mentions & flags:
                stray = True
    if stray:
        res.ok(r, 'interpPipe reports text left outside any command at end of input (flag %s)' % sorted(flags))
    else:
        res.bad(r, 'pipe-eof-stray-text-silent', fx.loc(ip), 'Interpret::interpPipe keeps no record of text seen outside a command (a Boolean set where the parenthesis counter is zero) that is tested '
                'together with an error report after the read loop: stray text, an unterminated string or quoted symbol after the last command is dropped silently with exit status 0, '
                'while file mode reports a syntax error for the same bytes')

    # ---- F4 parser text may be absent
    r = res.rule('echo-null-text', 'a function that writes ASTNode::getValue() to std::cout tests the pointer: composite nodes have no text (the grammar builds them with NULL), and '
                 'inserting a null char pointer sets the stream\'s badbit, after which all output is lost', floor=1)
    for f in fx.F.values():
        if not f.get('body'):
            continue
        streams = False
        for n in fwalk(f):
            if n.get('k') == 'call' and n.get('op') == '<<' and not n.get('as'):
                if any(x.get('k') == 'call' and callee(x) == 'opensmt::ASTNode::getValue' for x in walk(n.get('a') or [])):
                    root = n
                    while isinstance(root, dict) and root.get('k') == 'call' and root.get('op') == '<<':
                        root = see_through(root['recv'] if root.get('recv') is not None else root['a'][0])
                    if isinstance(root, dict) and root.get('k') == 'ref' and root.get('n') in ('std::cout', 'cout'):
                        streams = True
        if not streams:
            continue
        tested = False
        for n in walk(f['body']):
            if n.get('as') or n.get('macro') == 'assert':
                continue
            if n.get('k') in ('if', 'cond'):
                c = n.get('cond') if n.get('k') == 'if' else n.get('c')
                if any(x.get('k') == 'call' and callee(x) == 'opensmt::ASTNode::getValue' for x in walk(c)):
                    tested = True
        if tested:
            res.ok(r, '%s tests getValue() before streaming it' % f['name'])
        else:
            res.bad(r, 'null-text-streamed:%s' % f['name'].split('::')[-1], fx.loc(f), '%s writes ASTNode::getValue() to std::cout without testing it for null: a composite node '
                    '(e.g. (as x Int) inside get-value) makes std::cout unusable and every later response is lost, with exit status 0' % f['name'])


def template_arity_rule(fx, res):
    """Logic::instantiateFunctionTemplate is the only place where the use of a defined function is checked against its signature (Interpret::resolveTerm).
    It is evaluated abstractly for every pair (number of formal parameters, number of actual arguments) in {0,1,2} x {0,1,2}."""
    import itertools
    from boolctor import Interp, Unmodelled, Thrown
    r = res.rule('template-arity-checked', 'Logic::instantiateFunctionTemplate, evaluated for 0-2 formal parameters against 0-2 arguments, throws exactly when the counts differ (and for a sort '
                 'mismatch) and otherwise returns the body / the instantiated body', floor=9)
    f = fx.func('opensmt::Logic::instantiateFunctionTemplate')
    try:
        for k, m in itertools.product(range(3), repeat=2):
            it = Interp(fx, f, '?', {})
            targs = [('formal', i) for i in range(k)]
            args = [('actual', i) for i in range(m)]
            it.oracle = {'getArgs': lambda i, a, n, targs=targs: targs, 'getBody': lambda i, a, n: ('body',), 'getSortRef': lambda i, a, n: ('sort',), 'insert': lambda i, a, n: None,
                         'rewrite': lambda i, a, n: ('inst',), 'getRetSort': lambda i, a, n: ('sort',)}
            try:
                out = it.run_env({f['params'][0]['n']: ('tmpl',), f['params'][1]['n']: args})
            except Thrown:
                out = 'throws'
            if (out == 'throws') == (k != m):
                res.ok(r, '%d parameter(s), %d argument(s): %s' % (k, m, out if out == 'throws' else 'instantiated'))
            elif out != 'throws':
                res.bad(r, 'template-arity-unchecked', fx.loc(f), 'Logic::instantiateFunctionTemplate accepts %d argument(s) for a definition with %d parameter(s) and returns %s: an ill-formed '
                        'application of a defined function is silently accepted (no error response, exit status 0) and answered' % (m, k, 'the body unchanged' if out == ('body',) else out))
            else:
                res.bad(r, 'template-arity-rejected', fx.loc(f), 'Logic::instantiateFunctionTemplate rejects a well-formed application (%d parameter(s), %d argument(s))' % (k, m))
        # sort mismatch with matching counts
        it = Interp(fx, f, '?', {})
        it.oracle = {'getArgs': lambda i, a, n: [('formal', 0)], 'getBody': lambda i, a, n: ('body',), 'getSortRef': lambda i, a, n: ('sort', a[-1][0]), 'insert': lambda i, a, n: None,
                     'rewrite': lambda i, a, n: ('inst',), 'getRetSort': lambda i, a, n: ('sort',)}
        try:
            it.run_env({f['params'][0]['n']: ('tmpl',), f['params'][1]['n']: [('actual', 0)]})
            res.bad(r, 'template-sort-unchecked', fx.loc(f), 'Logic::instantiateFunctionTemplate accepts an argument whose sort differs from the parameter\'s')
        except Thrown:
            res.ok(r, 'argument of another sort: throws')
    except Unmodelled as e:
        raise AnalysisBroken('Logic::instantiateFunctionTemplate is outside the modelled subset: %s' % e)


def sort_arity_rule(fx, res):
    """Sort symbols are found by name (SStore::peek compares the name only); whoever turns a parsed sort expression into a sort has to compare the number of
    arguments with the declared arity before building the sort."""
    r = res.rule('sort-arity-compared', 'Interpret::sortFromASTNode builds a sort (Logic::getSort) only after the declared arity of the symbol it found by name has been compared with the number '
                 'of arguments written', floor=2)
    pk = fx.func('opensmt::SStore::peek')
    by_name_only = not any(x.get('k') == 'mem' and x.get('n') == 'arity' for x in fwalk(pk))
    f = fx.func('opensmt::Interpret::sortFromASTNode')
    builds = [x for x in fwalk(f) if is_call(x, 'getSort') and not x.get('as')]
    if not builds:
        raise AnalysisBroken('sortFromASTNode no longer calls Logic::getSort (anchor)')
    if not by_name_only:
        for b in builds:
            res.ok(r, 'SStore::peek compares the arity itself')
        return
    for blk in (b for b in walk(f['body']) if b.get('k') == 'seq'):
        items = [x for x in blk.get('c') or [] if isinstance(x, dict)]
        def ends(b_):
            while isinstance(b_, dict) and b_.get('k') == 'seq':
                c_ = [y for y in b_.get('c') or [] if isinstance(y, dict)]
                b_ = c_[-1] if c_ else None
            return isinstance(b_, dict) and b_.get('k') in ('ret', 'throw')
        for idx, st in enumerate(items):
            if any(p_.get('k') == 'if' and p_.get('else') is not None and ends(p_.get('then')) and ends(p_.get('else')) for p_ in items[:idx]):
                break                  # both branches of an earlier if/else leave the function: what follows cannot be reached
            here = [x for x in [st] + list(walk(st)) if isinstance(x, dict) and any(x is b for b in builds)]
            if not here or st.get('k') in ('if', 'loop', 'seq'):
                continue
            guarded = any(p_.get('k') == 'if' and not p_.get('as') and any(y.get('k') == 'mem' and y.get('n') == 'arity' for y in walk(p_['cond'])) and
                          any(y.get('k') == 'ret' for y in walk(p_['then'])) for p_ in items[:idx])
            if guarded:
                res.ok(r, '%s: getSort after a rejecting arity comparison' % fx.loc(f, st.get('ln')))
            else:
                res.bad(r, 'sort-arity-unchecked', fx.loc(f, st.get('ln')), 'Interpret::sortFromASTNode builds a sort from a symbol found by name without comparing the declared arity with the number of '
                        'arguments written: after (declare-sort U 1) both `U` and `(U U U)` are accepted as sorts and the input problem is not reported')
