"""C18 -- the executable never crashes and signals every input problem (structural clauses, DESIGN 3-C18)."""
from core import Result
from facts import Facts, fwalk, walk, walk_macro, callee, see_through
from prim_escape import Escape, clean
from build import AnalysisBroken

LEVEL = 'other'
EXPLANATION = ('Whole-program exception-escape analysis over the type-checked AST of every built unit (CHA call graph, '
               'handler matching aware of class hierarchy and inheritance access): no exception type may escape main or '
               'Interpret::interp; no explicit throw may escape a noexcept function; the results of interpFile/osmt_yyparse are '
               'never discarded; the exit-status flag has one writer on the error path of the one reporter; the reporter is never '
               'given a non-literal format string; exit/abort callers are an explicit allowlist. Decides these clauses, '
               'not absence of memory errors or promptness.')

# exit()/abort() callers accepted on the unchanged tree, one reason each (names, never lines)
EXIT_ALLOW = {
    'osmt_yylex': 'lexer error rules print a diagnostic on stdout and exit(1)',
    'opensmt::catcher': 'signal handler (SIGINT/SIGTERM): exit(1) after printing unknown',
    'main': 'command-line usage errors: diagnostic + exit(1)',
    'opensmt::parseCMDLineArgs': 'usage errors / --help / --version',
    'opensmt::(anonymous namespace)::parseCMDLineArgs': 'usage errors / --help / --version',
    'opensmt::Simplex::overBound': 'review item: explicit exit on an internal statistics counter overflow guard',
    'yy_fatal_error': 'flex runtime fatal error (out of memory / internal)',
    'opensmt::reportError': 'internal error reporter used by option parsing',
}
EXIT_MACRO_ALLOW = {
    'CHECK_POSITIVE': 'review item: internal-invariant guard in the rational word paths (a denominator/gcd must be positive); '
                      'aborts instead of continuing with a corrupt value; not reachable from input unless the arithmetic is wrong',
    'CHECK_UWORD': 'expands CHECK_POSITIVE (same reason)',
    'opensmt_error': 'command-line usage error: diagnostic + exit(1)',
    'opensmt_error2': 'command-line usage error: diagnostic + exit(1)',
    'opensmt_error_': 'command-line usage error: diagnostic + exit(1)',
}
ABORT_FUNCS = {'exit', 'abort', '_exit', 'quick_exit', 'std::terminate', 'std::abort', 'std::exit', '_Exit', 'std::quick_exit'}
RESULT_FUNCS = {'opensmt::Interpret::interpFile', 'osmt_yyparse'}
# thrown only on allocation failure / capacity overflow: excluded from the noexcept rule by stated assumption
ALLOC_FAILURE = {'opensmt::OutOfMemoryException', 'std::bad_alloc', 'std::length_error'}
LIB_TABLE_TYPES = {'std::out_of_range', 'std::invalid_argument'}


def reachable(fx, root_ids):
    seen = set(root_ids)
    st = list(root_ids)
    while st:
        i = st.pop()
        f = fx.F.get(i)
        if not f:
            continue
        for n in fwalk(f):
            k = n.get('k')
            if k == 'call' and n.get('id'):
                for t in fx.targets(n):
                    if t not in seen:
                        seen.add(t); st.append(t)
            elif k == 'new' and n.get('id') and n['id'] not in seen:
                seen.add(n['id']); st.append(n['id'])
            elif k == 'ref' and n.get('d') == 'func' and n.get('id') and n['id'] not in seen:
                seen.add(n['id']); st.append(n['id'])
            elif k == 'decl' and isinstance(n.get('dtor'), str) and n['dtor'] not in seen:
                seen.add(n['dtor']); st.append(n['dtor'])      # user-declared destructor of a local runs when its scope is left
    return seen


def run(src, tier, seed):
    fx = Facts(src)
    res = Result('C18')
    res.assumptions += [
        'default build configuration (no STATISTICS/PEDANTIC_DEBUG/PARALLEL/ENABLE_LINE_EDITING), analysed with -UNDEBUG',
        'allocation failure (bad_alloc, OutOfMemoryException on capacity overflow) is outside the noexcept rule',
        'virtual calls resolved by class-hierarchy analysis over all built units; calls through function pointers are not followed '
        '(two sites, both lambdas attached to their enclosing function)',
        'library throw table: std::sto* (invalid_argument/out_of_range), container .at()/substr (out_of_range)',
    ]
    E = Escape(fx)
    main = fx.func('main')
    interp = fx.func('opensmt::Interpret::interp')
    reach = reachable(fx, [main['id']])
    # ---- R1/R2 escape sets of the two entry points
    thrown_types = set()
    for i in reach:
        for ev in walk_events(E.ev.get(i, [])):
            if ev[0] == 'throw' and ev[1] != '<rethrow>':
                thrown_types.add(ev[1])
    for entry, f in (('main', main), ('Interpret::interp', interp)):
        r = res.rule('escape:' + entry, 'no exception type thrown in code reachable from the executable may escape %s' % entry, floor=7)
        for t in sorted(thrown_types):
            if t in ALLOC_FAILURE:
                continue
            if t in E.esc[f['id']]:
                ch = E.chain(f['id'], t)
                res.bad(r, 'escape:%s:%s' % (entry, t), fx.loc(f), '%s can escape %s (thrown in %s)' % (t, entry, E.origin(f['id'], t)), ch)
            else:
                res.ok(r, '%s: contained' % t)
    res.extra['thrown_types_reachable'] = sorted(thrown_types)
    res.extra['functions_reachable_from_main'] = len(reach)
    res.extra['escape_fixpoint_rounds'] = E.rounds
    # ---- R3 noexcept
    r = res.rule('noexcept-terminate', 'no explicit throw (other than allocation failure) may escape a noexcept function/destructor: std::terminate')
    nex = [i for i in reach if fx.F.get(i, {}).get('noexcept')]
    for i in nex:
        f = fx.F[i]
        bad = {t: w for t, w in E.terminate.get(i, {}).items() if t not in ALLOC_FAILURE and t not in LIB_TABLE_TYPES}
        if bad:
            for t in sorted(bad):
                res.bad(r, 'terminate:%s:%s' % (f['name'], t), fx.loc(f), '%s escapes noexcept %s' % (t, f['name']), E.chain(i, t))
        else:
            res.ok(r, f['name'])
    # ---- R3b the let-binding log stays balanced (precondition of the .at() in the noexcept scope guard)
    r = res.rule('let-log-balance', 'LetRecords::popFrame runs inside a noexcept scope-guard destructor and looks every logged binder up with .at(): '
                 'each logged binding must have created exactly one undoable record (a new map entry or one shadow value) and each undo must remove exactly one', floor=5)
    from prims import must_call, is_call, mname
    from facts import recv_path, path_of
    dtors_reaching = [fx.F[i]['name'] for i in nex if any(is_call(n, 'popFrame') for n in fwalk(fx.F[i]))]
    if not dtors_reaching:
        raise AnalysisBroken('no noexcept function calls LetRecords::popFrame any more: the let scope guard moved')
    av = fx.func('opensmt::LetBinder::addValue')
    exits, eng = must_call(av, {'push': lambda n: is_call(n, 'push', 'this.shadowedValues') or is_call(n, 'push_back', 'this.shadowedValues')})
    if [1 for k, nd, st in exits if k != 'throw' and 'push' not in st]:
        res.bad(r, 'let-log:addValue-conditional-push', fx.loc(av), 'LetBinder::addValue can return without pushing the shadowed value, but LetRecords::addBinding logs the binder '
                'unconditionally: popFrame then undoes one level too many, erases the outer binding and the enclosing frame\'s letBinders.at() throws inside the noexcept guard')
    else:
        res.ok(r, 'LetBinder::addValue pushes a shadow value on every path')
    ab = fx.func('opensmt::LetRecords::addBinding')
    KEYC = ('insert', 'emplace', 'try_emplace', 'operator[]', 'insert_or_assign')
    exits, eng = must_call(ab, {'log': lambda n: is_call(n, 'push_back', 'this.knownBinders') or is_call(n, 'emplace_back', 'this.knownBinders'),
                                'new': lambda n: n.get('k') == 'call' and mname(n) in KEYC and recv_path(n) == 'this.letBinders',
                                'shadow': lambda n: is_call(n, 'addValue')})
    bad = [st for k, nd, st in exits if k != 'throw' and not ('log' in st and (('new' in st) != ('shadow' in st)))]
    if bad:
        res.bad(r, 'let-log:addBinding-unbalanced', fx.loc(ab), 'LetRecords::addBinding has a path with %s: the binder log and the undoable records get out of step' % sorted(set(map(lambda x: tuple(sorted(x)), bad))))
    else:
        res.ok(r, 'LetRecords::addBinding: one log entry and exactly one of (new map entry, shadow value) on every path')
    rs = fx.func('opensmt::LetBinder::restoreShadowedValue')
    if any(is_call(n, 'pop', 'this.shadowedValues') or is_call(n, 'pop_back', 'this.shadowedValues') for n in fwalk(rs)):
        res.ok(r, 'LetBinder::restoreShadowedValue pops one shadow value')
    else:
        res.bad(r, 'let-log:restore-no-pop', fx.loc(rs), 'LetBinder::restoreShadowedValue no longer pops the shadow stack')
    pf = fx.func('opensmt::LetRecords::popFrame')
    loops = [n for n in walk(pf['body']) if n.get('k') == 'loop']
    okpf = False
    for lp in loops:
        pops = [n for n in walk(lp['body']) if is_call(n, 'pop_back', 'this.knownBinders')]
        ifs = [n for n in walk(lp['body']) if n.get('k') == 'if' and not n.get('as') and any(is_call(x, 'hasShadowValue') for x in walk(n['cond']))]
        if pops and ifs:
            i0 = ifs[0]
            t_restore = any(is_call(x, 'restoreShadowedValue') for x in walk(i0['then'])) and not any(is_call(x, 'erase') for x in walk(i0['then']))
            e_erase = i0.get('else') and any(is_call(x, 'erase', 'this.letBinders') for x in walk(i0['else'])) and not any(is_call(x, 'restoreShadowedValue') for x in walk(i0['else']))
            okpf = bool(t_restore and e_erase)
    if okpf:
        res.ok(r, 'LetRecords::popFrame: per logged binder, restore the shadow value if there is one, else erase the entry')
    else:
        res.bad(r, 'let-log:popFrame-unbalanced', fx.loc(pf), 'LetRecords::popFrame no longer undoes exactly one record per logged binder')
    res.ok(r, 'noexcept callers of popFrame: %s' % dtors_reaching)
    # ---- R4 results never discarded
    r = res.rule('result-dropped', 'the int result of Interpret::interpFile / osmt_yyparse must be used (not a discarded expression statement)', floor=3)
    for i in reach:
        f = fx.F.get(i)
        if not f:
            continue
        for n in fwalk(f):
            if n.get('k') == 'e':
                x = n.get('e')
                while isinstance(x, dict) and x.get('k') == 'cast' and x.get('to') == 'void':
                    x = x['e']
                if isinstance(x, dict) and x.get('k') == 'call' and callee(x) in RESULT_FUNCS:
                    res.bad(r, 'dropped:%s:%s' % (f['name'], callee(x)), fx.loc(f, x['ln']),
                            'result of %s is discarded in %s: a parse failure cannot reach the exit status' % (callee(x), f['name']))
        used = set()
        for n in fwalk(f):
            if n.get('k') == 'call' and callee(n) in RESULT_FUNCS:
                used.add((callee(n), n['ln']))
        dropped_lines = {fd.where for fd in res.findings if fd.rule == 'result-dropped'}
        for (c, ln) in sorted(used):
            if fx.loc(f, ln) not in dropped_lines:
                res.ok(r, '%s: %s used' % (fx.loc(f, ln), c))
    # ---- R5 single writer of the status flag, on the error path
    r = res.rule('status-writer', 'Interpret::_okStatus is written only by notify_formatted, guarded by its `error` parameter', floor=1)
    writers = []
    for i, f in fx.F.items():
        for n in fwalk(f):
            if n.get('k') == 'bin' and n['op'] == '=' and isinstance(n['l'], dict) and n['l'].get('k') == 'mem' and n['l'].get('n') == '_okStatus':
                writers.append((f, n))
    if not writers:
        raise AnalysisBroken('no writer of Interpret::_okStatus found')
    for f, n in writers:
        if f['name'] != 'opensmt::Interpret::notify_formatted':
            if n['r'].get('v') is False:
                res.ok(r, '%s sets failure status' % f['name'])
            else:
                res.bad(r, 'status-writer:%s' % f['name'], fx.loc(f, n['ln']), '%s writes _okStatus with a value other than false' % f['name'])
        else:
            res.ok(r, fx.loc(f, n['ln']))
    nf = fx.func('opensmt::Interpret::notify_formatted')
    ok = False
    for n in walk(nf['body']):
        if n.get('k') == 'if' and isinstance(n['cond'], dict) and n['cond'].get('k') == 'ref' and n['cond'].get('n') == 'error':
            for m in walk(n['then']):
                if m.get('k') == 'bin' and m['op'] == '=' and m['l'].get('n') == '_okStatus' and m['r'].get('v') is False:
                    ok = True
    rr = res.rule('status-on-error', 'notify_formatted(error=true, ...) sets the failure status', floor=1)
    if ok:
        res.ok(rr, fx.loc(nf))
    else:
        res.bad(rr, 'status-on-error', fx.loc(nf), 'notify_formatted no longer sets _okStatus=false under `if (error)`')
    # ---- R6 format argument is a literal
    r = res.rule('format-literal', 'argument 2 of Interpret::notify_formatted (printf-style format) must be a string literal', floor=60)
    for i, f in fx.F.items():
        for n in fwalk(f):
            if n.get('k') == 'call' and callee(n) == 'opensmt::Interpret::notify_formatted':
                a = n['a'][1] if len(n['a']) > 1 else None
                a = see_through(a)
                if isinstance(a, dict) and a.get('k') == 'str':
                    res.ok(r, fx.loc(f, n['ln']))
                else:
                    res.bad(r, 'format-nonliteral:%s:%s' % (f['name'], describe(a)), fx.loc(f, n['ln']),
                            'non-literal format string passed to notify_formatted in %s: a %% in the message (user symbol names reach it) reads va_args that do not exist' % f['name'])
    # ---- R7 error literal only in reporter
    r = res.rule('error-literal', 'the "(error" response prefix is produced only inside notify_formatted', floor=1)
    for i, f in fx.F.items():
        if not fx.rel(f['file']).startswith(('src/api/', 'src/bin/')):
            continue
        for n in fwalk(f):
            if n.get('k') == 'str' and n['v'].lstrip().startswith('(error'):
                if f['name'] == 'opensmt::Interpret::notify_formatted':
                    res.ok(r, fx.loc(f))
                else:
                    res.bad(r, 'error-literal:%s' % f['name'], fx.loc(f), 'error response printed outside the status-setting reporter in %s' % f['name'])
    # ---- R8 exit/abort callers
    r = res.rule('exit-callers', 'exit/abort/terminate may be called only from the allowlisted functions', floor=4)
    for i in sorted(reach):
        f = fx.F.get(i)
        if not f:
            continue
        for n, macro in walk_macro(f['body'], f.get('lambdas', [])):
            if n.get('k') == 'call' and callee(n) in ABORT_FUNCS and not n.get('as'):
                nm = f['name']
                if macro in EXIT_MACRO_ALLOW:
                    res.ok(r, '%s in %s via %s: %s' % (callee(n), nm, macro, EXIT_MACRO_ALLOW[macro]))
                elif nm in EXIT_ALLOW:
                    res.ok(r, '%s in %s: %s' % (callee(n), nm, EXIT_ALLOW[nm]))
                else:
                    res.bad(r, 'exit-caller:%s' % nm, fx.loc(f, n['ln']), '%s() called from %s, which is not an allowlisted termination point' % (callee(n), nm))
    res.samples = [{'entry': 'main', 'escape_set': sorted(E.esc[main['id']])}, {'entry': 'Interpret::interp', 'escape_set': sorted(E.esc[interp['id']])}]
    res.extra['units'] = fx.stats['units']
    res.extra['functions'] = len(fx.F)
    return res


def walk_events(evs):
    for e in evs:
        if e[0] == 'try':
            yield from walk_events(e[1])
            for _, h in e[2]:
                yield from walk_events(h)
        else:
            yield e


def describe(a):
    if not isinstance(a, dict):
        return '?'
    if a.get('k') == 'call':
        return (a.get('f') or 'call').split('::')[-1] + '()'
    if a.get('k') == 'ref':
        return a['n']
    return a.get('k', '?')
