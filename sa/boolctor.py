"""Abstract evaluation of the simplifying Boolean term constructors over literal shapes (DESIGN 9.3-C14).

The fixed-arity constructors (mkNot, mkXor, mkImpl, mkIte, mkBinaryEq on Boolean arguments) touch their arguments only through identity comparisons and the
predicates isTrue / isFalse / isNot, i.e. through a finite set of argument *patterns*.  Each argument ranges over the shapes
    T, F, x, ~x, y, ~y, z, ~z
and for every combination the decision structure of the constructor (if-chains, conditional expressions, early returns, the one in-place argument update) is
evaluated on those shapes; the returned shape is a small term over {T, F, literals, not, and, or, xor, eq, ite}.  The result is compared with the operator's
definition by a truth table over x, y, z.  Anything outside the understood subset raises Unmodelled (=> ANALYSIS-BROKEN, never a verdict).
"""
import itertools

from facts import see_through, callee, path_of
from prims import mname

T, F = ('T',), ('F',)
UNDEF = ('undef',)


class Unmodelled(Exception):
    pass


class Thrown(Exception):
    pass


def var(n, pol=True):
    return ('v', n, pol)


def neg(s):
    if s == T:
        return F
    if s == F:
        return T
    if s[0] == 'v':
        return ('v', s[1], not s[2])
    if s[0] == 'not':
        return s[1]
    return ('not', s)


def ev_value(s, env):
    if s[0] == 'c':
        return 'const%d' % s[1]          # different constants denote different values
    if s[0] == 'u':
        return env[s[1]]
    raise Unmodelled('value shape %r' % (s,))


def ev_shape(s, env):
    k = s[0]
    if k == 'distinct':
        vals = [ev_value(x, env) for x in s[1:]]
        return len(set(vals)) == len(vals)
    if k == 'eq' and s[1][0] in ('c', 'u'):
        return ev_value(s[1], env) == ev_value(s[2], env)
    if k == 'T':
        return True
    if k == 'F':
        return False
    if k == 'v':
        return env[s[1]] == s[2]
    if k == 'not':
        return not ev_shape(s[1], env)
    a = [ev_shape(x, env) for x in s[1:]]
    if k == 'and':
        return all(a)
    if k == 'or':
        return any(a)
    if k == 'xor':
        return a[0] != a[1]
    if k == 'eq':
        return a[0] == a[1]
    if k == 'ite':
        return a[1] if a[0] else a[2]
    raise Unmodelled('shape %r' % (s,))


def show(s):
    k = s[0]
    if k in ('T', 'F'):
        return 'true' if k == 'T' else 'false'
    if k == 'v':
        return s[1] if s[2] else '(not %s)' % s[1]
    if k == 'undef':
        return 'PTRef_Undef'
    if k == 'c':
        return 'c%d' % s[1]
    if k == 'u':
        return s[1]
    return '(%s %s)' % (k, ' '.join(show(x) for x in s[1:]))


class Ret(Exception):
    def __init__(self, v):
        self.v = v


class Alias:
    """a reference into a container element (int & x = m[k])"""

    def __init__(self, container, key):
        self.container, self.key = container, key

    def get(self):
        return self.container[self.key]

    def set(self, v):
        self.container[self.key] = v


class Continue(Exception):
    pass


class Goto(Exception):
    def __init__(self, label):
        self.label = label


class Break(Exception):
    pass


class Interp:
    """evaluates one constructor body on argument shapes; `ops`: name of the operator built by a plain mkFun in this constructor"""

    SYM_GETTERS = {'getSym_xor': 'xor', 'getSym_not': 'not', 'getSym_and': 'and', 'getSym_or': 'or', 'getSym_eq': 'eq', 'getSym_ite': 'ite'}

    def __init__(self, fx, func, default_op, ctor_eval, value_mode=False):
        self.fx, self.f, self.default_op, self.ctor_eval = fx, func, default_op, ctor_eval
        self.steps = 0
        self.value_mode = value_mode      # arguments are terms of an uninterpreted value sort, not Booleans
        self.oracle = {}                  # method name -> function(interp, argument values, call node): answers for calls outside the constructor algebra
        self.inline = False               # evaluate calls of repository functions (free functions, static helpers) that no oracle answers, with the same oracles
        self.depth = 0

    order = {'x': 0, 'y': 1, 'z': 2}

    def rank(self, shape):
        """creation order of terms: the constants first, then the atoms in the order chosen for this run"""
        if shape == T:
            return -2
        if shape == F:
            return -1
        if shape[0] == 'v':
            return self.order[shape[1]]
        if shape[0] == 'c':
            return self.order.get('c%d' % shape[1], shape[1])
        if shape[0] == 'u':
            return self.order.get(shape[1], 20 + ord(shape[1][0]))
        return 10

    # ---------- entry
    def run(self, argshapes):
        self.env = {}
        ps = self.f['params']
        if len(ps) == 1 and 'vec<' in ps[0]['t']:
            self.env[ps[0]['n']] = list(argshapes)
        else:
            if len(ps) != len(argshapes):
                raise Unmodelled('%s: %d parameters for %d argument shapes' % (self.f['name'], len(ps), len(argshapes)))
            for p, s in zip(ps, argshapes):
                self.env[p['n']] = s
        try:
            self.block(self.f['body'])
        except Ret as r:
            return r.v
        if self.f.get('ret') == 'void':
            return None
        raise Unmodelled('%s: falls off the end' % self.f['name'])

    def call_lambda(self, lid, argvals):
        lam = self.f.get('lambdas', [])[lid]
        names = []
        if isinstance(lam.get('params'), list) and len(lam['params']) == len(argvals):
            names = list(lam['params'])
        for n in ([] if names else __import__('facts').walk(lam['body'])):
            if n.get('k') == 'ref' and n.get('d') == 'param' and n['n'] not in names and n['n'] not in [p['n'] for p in self.f['params']]:
                names.append(n['n'])
        if len(names) != len(argvals):
            raise Unmodelled('lambda with %d parameter name(s) called with %d argument(s)' % (len(names), len(argvals)))
        saved = dict(self.env)
        for k_, v_ in zip(names, argvals):
            self.env[k_] = v_
        try:
            self.block(lam['body'])
        except Ret as r:
            self.env = saved
            return r.v
        self.env = saved
        return None

    def run_env(self, env):
        """run the body with an explicit initial environment (parameters, `this`, named constants)"""
        self.env = dict(env)
        try:
            self.block(self.f['body'])
        except Ret as r:
            return r.v
        if self.f.get('ret') == 'void':
            return None
        raise Unmodelled('%s: falls off the end' % self.f['name'])

    # ---------- statements
    def block(self, st):
        self.steps += 1
        if self.steps > 4000:
            raise Unmodelled('step limit')
        if st is None or not isinstance(st, dict) or st.get('as') or st.get('macro') == 'assert':
            return
        k = st.get('k')
        if k == 'seq':
            items = [c for c in st['c'] if isinstance(c, dict)]
            i = 0
            while i < len(items):
                try:
                    self.block(items[i])
                except Goto as g:
                    # a forward jump to a label of this block
                    tgt = [j for j, c in enumerate(items) if c.get('k') == 'label' and c.get('l') == g.label]
                    if not tgt:
                        raise
                    i = tgt[0]
                    continue
                i += 1
        elif k == 'if':
            if self.truth(st['cond']):
                self.block(st['then'])
            elif st.get('else') is not None:
                self.block(st['else'])
        elif k == 'ret':
            raise Ret(self.val(st['e']) if st.get('e') is not None else None)
        elif k == 'decl':
            init = see_through(st.get('init')) if st.get('init') is not None else None
            if init is not None and '&' in (st.get('t') or '') and isinstance(init, dict) and init.get('k') == 'call' and init.get('op') == '[]' and init.get('recv') is not None:
                base = self.val(init['recv'])
                key = self.val(init['a'][0])
                if isinstance(base, dict):
                    base.setdefault(key, 0)
                    self.env[st['n']] = Alias(base, key)
                    return
            v = self.val(st['init']) if st.get('init') is not None else UNDEF
            self.env[st['n']] = v
            if st.get('bind') and isinstance(v, tuple) and v and v[0] == 'pair':
                for nm_, x_ in zip(st['bind'], v[1:]):
                    self.env[nm_] = x_
        elif k == 'e':
            self.val(st['e'])
        elif k == 'loop':
            self.loop(st)
        elif k == 'throw':
            raise Thrown()
        elif k == 'switch':
            from facts import switch_arms
            v = self.val(st['cond'])
            arms = switch_arms(st)
            start = None
            for i, a in enumerate(arms):
                if any(lab is not None and self.val(lab) == v for lab in a['labels']):
                    start = i
                    break
            if start is None:
                for i, a in enumerate(arms):
                    if None in a['labels']:
                        start = i
                        break
            if start is not None:
                try:
                    for a in arms[start:]:          # fall-through until a break
                        for x in a['stmts']:
                            self.block(x)
                except Break:
                    pass
        elif k == 'goto':
            raise Goto(st.get('l'))
        elif k == 'label':
            self.block(st.get('body'))
        elif k == 'continue':
            raise Continue()
        elif k == 'break':
            raise Break()
        else:
            raise Unmodelled('statement kind %s at line %s' % (k, st.get('ln')))

    def loop(self, lp):
        if lp.get('kind') == 'for':
            if lp.get('init') is not None:
                self.block(lp['init'])
            n = 0
            while lp.get('cond') is None or self.truth(lp['cond']):
                try:
                    self.block(lp['body'])
                except Continue:
                    pass
                except Break:
                    break
                if lp.get('inc') is not None:
                    self.val(lp['inc'])
                n += 1
                if n > 64:
                    raise Unmodelled('loop at line %s does not terminate on the abstract arguments' % lp.get('ln'))
        elif lp.get('kind') == 'while':
            n = 0
            while self.truth(lp['cond']):
                try:
                    self.block(lp['body'])
                except Continue:
                    pass
                except Break:
                    break
                n += 1
                if n > 400:
                    raise Unmodelled('loop at line %s does not terminate on the abstract arguments' % lp.get('ln'))
        elif lp.get('kind') == 'range':
            seq = self.val(lp['range'])
            if isinstance(seq, tuple) and seq and seq[0] in ('pterm', 'clause'):
                seq = list(seq[1:]) if seq[0] == 'pterm' else list(seq[1])
            if isinstance(seq, dict):
                seq = [('pair', k_, v_) for k_, v_ in sorted(seq.items(), key=lambda kv: str(kv[0]))]
            if not isinstance(seq, list):
                raise Unmodelled('range loop over a non-list at line %s' % lp.get('ln'))
            for item in list(seq):
                self.env[lp['var']] = item
                if lp.get('bind') and isinstance(item, tuple) and item and item[0] == 'pair':
                    for nm_, x_ in zip(lp['bind'], item[1:]):
                        self.env[nm_] = x_
                try:
                    self.block(lp['body'])
                except Continue:
                    continue
                except Break:
                    break
        else:
            raise Unmodelled('loop kind %s at line %s' % (lp.get('kind'), lp.get('ln')))

    # ---------- expressions
    def truth(self, e):
        v = self.val(e)
        if isinstance(v, bool):
            return v
        if isinstance(v, int):
            return v != 0
        raise Unmodelled('condition does not evaluate to a truth value at line %s' % (see_through(e).get('ln') if isinstance(see_through(e), dict) else '?'))

    def unwrap(self, e):
        e = see_through(e)
        while isinstance(e, dict) and e.get('k') in ('new', 'init') and len(e.get('a') or e.get('e') or []) == 1 and 'vec' not in (e.get('t') or ''):
            e = see_through((e.get('a') or e.get('e'))[0])
        return e

    def val(self, e):
        e = self.unwrap(e)
        if not isinstance(e, dict):
            raise Unmodelled('expression')
        k = e.get('k')
        if k == 'lit':
            return e['v']
        if k == 'ref':
            n = e['n']
            if n in self.env:
                v_ = self.env[n]
                return v_.get() if isinstance(v_, Alias) else v_
            if n.split('::')[-1] in self.env:
                return self.env[n.split('::')[-1]]
            if n.endswith('PTRef_Undef'):
                return UNDEF
            if n.endswith('PtAsgn_Undef'):
                return ('asgn', UNDEF, 2)
            if e.get('d') == 'enum':
                return ('enum', n.split('::')[-1])
            if n.split('::')[-1].startswith(('tk_', 's_')) and e.get('d') in ('global', 'member', None):
                return ('token', n.split('::')[-1])       # a symbol-name constant of the logic
            raise Unmodelled('unknown name %s at line %s' % (n, e.get('ln')))
        if k == 'mem' and see_through(e['b']).get('k') == 'this' and ('mem:' + e['n']) in self.oracle:
            return self.oracle['mem:' + e['n']](self, [self.env.get('this', ('this',))], e)
        if k == 'mem' and see_through(e['b']).get('k') == 'this' and ('this.' + e['n']) in self.env:
            return self.env['this.' + e['n']]
        if k == 'mem' and see_through(e['b']).get('k') == 'this':
            if e['n'] in ('term_TRUE', 'term_FALSE'):
                return T if e['n'] == 'term_TRUE' else F
            if e['n'].startswith('sortTo'):
                return ('symmap',)          # sort -> symbol of this constructor's operator
            return ('member', e['n'])       # opaque: only passed on to calls that are answered by an oracle
        if k == 'mem' and path_of(e) in self.env:
            return self.env[path_of(e)]
        if k == 'mem' and path_of(e) and not path_of(e).startswith('this.') and path_of(e).split('.')[0] in self.env and self.env[path_of(e).split('.')[0]] in (UNDEF, []):
            return UNDEF                   # a field of a default-constructed local aggregate that was not written yet
        if k == 'mem':
            b = self.val(e['b'])
            if isinstance(b, tuple) and b and b[0] == 'asgn' and e['n'] in ('tr', 'sgn'):
                return b[1] if e['n'] == 'tr' else b[2]
            if isinstance(b, tuple) and b and b[0] == 'pair' and e['n'] in ('first', 'second'):
                return b[1] if e['n'] == 'first' else b[2]
            if isinstance(b, tuple) and b and b[0] == 'mapiter' and len(b) == 4 and b[2] is not None and e['n'] in ('first', 'second'):
                return b[2] if e['n'] == 'first' else b[3][b[2]]
            if ('mem:' + e['n']) in self.oracle:
                return self.oracle['mem:' + e['n']](self, [b], e)
            raise Unmodelled('member %s at line %s' % (e['n'], e.get('ln')))
        if k == 'this':
            return self.env.get('this', ('this',))
        if k == 'idx':
            b = self.val(e['b'])
            i = self.val(e['i']) if e.get('i') is not None else self.val(e.get('a', [None])[0])
            if isinstance(b, list) and isinstance(i, int) and 0 <= i < len(b):
                return b[i]
            if ('idx') in self.oracle:
                return self.oracle['idx'](self, [b, i], e)
            raise Unmodelled('subscript at line %s' % e.get('ln'))
        if k == 'un':
            if e['op'] == '!':
                return not self.truth(e['e'])
            if e['op'] in ('++', '--'):
                d_ = 1 if e['op'] == '++' else -1
                tgt = see_through(e['e'])
                if isinstance(tgt, dict) and tgt.get('k') == 'call' and tgt.get('op') == '[]' and tgt.get('recv') is not None:
                    base = self.val(tgt['recv'])
                    key = self.val(tgt['a'][0])
                    if isinstance(base, dict):
                        old = base.get(key, 0)
                        base[key] = old + d_
                        return old if e.get('post') else base[key]
                n = path_of(e['e'])
                if n not in self.env and (n or '').startswith('this.'):
                    return 0            # a statistics counter of the object
                cur = self.env[n]
                if isinstance(cur, Alias):
                    old = cur.get()
                    cur.set(old + d_)
                    return old if e.get('post') else old + d_
                old = cur
                self.env[n] = old + d_
                return old if e.get('post') else self.env[n]
            if e['op'] == '~':
                v = self.val(e['e'])
                if isinstance(v, int):
                    return ~v
            if e['op'] == '-':
                v = self.val(e['e'])
                if isinstance(v, int):
                    return -v
            raise Unmodelled('unary %s' % e['op'])
        if k == 'bin':
            op = e['op']
            if op == '&&':
                return self.truth(e['l']) and self.truth(e['r'])
            if op == '||':
                return self.truth(e['l']) or self.truth(e['r'])
            if op == ',':
                self.val(e['l'])
                return self.val(e['r'])
            if op == '=':
                tl = see_through(e['l'])
                if isinstance(tl, dict) and tl.get('k') == 'call' and tl.get('op') == '[]':
                    base = self.val(tl['recv'])
                    i = self.val(tl['a'][0])
                    r = self.val(e['r'])
                    if isinstance(base, (list, dict)):
                        base[i] = r
                        return r
                    raise Unmodelled('element assignment at line %s' % e.get('ln'))
                n = path_of(e['l'])
                r = self.val(e['r'])
                if n in self.env and isinstance(self.env[n], Alias):
                    self.env[n].set(r)
                    return r
                if n in self.env or (n or '').startswith('this.') or ((n or '').split('.')[0] in self.env and '.' in (n or '')):
                    self.env[n] = r          # a member of the object / a field of a local aggregate behaves like a variable of the evaluation
                    return r
                raise Unmodelled('assignment at line %s' % e.get('ln'))
            l, r = self.val(e['l']), self.val(e['r'])
            if op in ('==', '!='):
                if isinstance(l, tuple) and isinstance(r, tuple) and l and r and l[0] == 'mapiter' and r[0] == 'mapiter':
                    l, r = l[:3], r[:3]
                return (l == r) == (op == '==')
            if op in ('<', '<=', '>', '>=', '-', '+', '&', '|') and isinstance(l, int) and isinstance(r, int):
                return {'<': l < r, '<=': l <= r, '>': l > r, '>=': l >= r, '-': l - r, '+': l + r, '&': l & r, '|': l | r}[op]
            if op == '=':
                n = path_of(e['l'])
                if n in self.env:
                    self.env[n] = r
                    return r
            raise Unmodelled('binary %s at line %s' % (op, e.get('ln')))
        if k == 'throw':
            raise Thrown()                 # a throw written as an expression statement
        if k == 'chr':
            return e['v']                  # a character literal is its code
        if k == 'cond':
            return self.val(e['t']) if self.truth(e['c']) else self.val(e['f'])
        if k in ('new', 'init'):
            items = e.get('e') or e.get('a') or []
            if (e.get('t') or '').startswith(('Map<', 'opensmt::Map<', 'std::map<', 'std::unordered_map<')) and '>::' not in (e.get('t') or ''):
                return {}
            vals = [self.val(x) for x in items]
            if 'PtAsgn' in (e.get('t') or '') and 'vec' not in (e.get('t') or '') and len(vals) == 2:
                return ('asgn', vals[0], vals[1])
            if len(vals) == 1 and isinstance(vals[0], list):
                return vals[0]              # vec<T> v{a, b}: constructor taking an initializer list
            return vals
        if k == 'call':
            return self.call(e)
        raise Unmodelled('expression kind %s at line %s' % (k, e.get('ln')))

    def call(self, e):
        m = mname(e)
        op = e.get('op')
        args = e.get('a') or []
        if op and ('op:' + op) in self.oracle:
            ans = self.oracle['op:' + op](self, ([self.val(e['recv'])] if e.get('recv') is not None else []) + [self.val(x) for x in args], e)
            if ans is not NotImplemented:
                if op in ('+=', '-=', '*=', '/=') and e.get('recv') is not None:
                    # compound assignment of a class type: the oracle computes the new value, the target keeps it
                    tgt = path_of(e['recv'])
                    if tgt in self.env:
                        if isinstance(self.env[tgt], Alias):
                            self.env[tgt].set(ans)
                        else:
                            self.env[tgt] = ans
                    else:
                        raise Unmodelled('compound assignment to %s at line %s' % (tgt, e.get('ln')))
                return ans
        if not op and m in self.oracle:
            return self.oracle[m](self, [self.val(x) for x in args], e)
        if op == '[]':
            base = self.val(e['recv'])
            i = self.val(args[0])
            if isinstance(base, list) and isinstance(i, int) and 0 <= i < len(base):
                return base[i]
            if isinstance(base, tuple) and base and base[0] == 'pterm' and isinstance(i, int) and 0 <= i < len(base) - 1:
                return base[i + 1]
            if isinstance(base, tuple) and base and base[0] == 'clause' and isinstance(i, int) and 0 <= i < len(base[1]):
                return base[1][i]
            if base == ('symmap',):
                return ('sym', self.default_op)
            if isinstance(base, dict):
                if i not in base:
                    base[i] = 0            # std::map::operator[] value-initialises a missing entry
                return base[i]
            raise Unmodelled('index at line %s' % e.get('ln'))
        if op in ('==', '!='):
            l = self.val(e['recv']) if e.get('recv') is not None else self.val(args[0])
            r = self.val(args[0]) if e.get('recv') is not None else self.val(args[1])
            if isinstance(l, tuple) and isinstance(r, tuple) and l and r and l[0] == 'mapiter' and r[0] == 'mapiter':
                l, r = l[:3], r[:3]
            return (l == r) == (op == '==')
        if op == '=':
            tgt = e['recv'] if e.get('recv') is not None else args[0]
            v = self.val(args[0] if e.get('recv') is not None else args[1])
            t = see_through(tgt)
            if isinstance(t, dict) and t.get('k') == 'ref' and t['n'] in self.env:
                self.env[t['n']] = v
                return v
            if isinstance(t, dict) and t.get('k') == 'mem' and path_of(t) and not path_of(t).startswith('this.') and path_of(t).split('.')[0] in self.env:
                self.env[path_of(t)] = v          # a field of a local aggregate
                return v
            if isinstance(t, dict) and t.get('k') == 'call' and t.get('op') == '[]':
                base = self.val(t['recv'])
                i = self.val(t['a'][0])
                if isinstance(base, (list, dict)):
                    base[i] = v
                    return v
            raise Unmodelled('assignment target at line %s' % e.get('ln'))
        if '::operator ' in callee(e) and not op and e.get('recv') is not None:
            b = self.val(e['recv'])
            if isinstance(b, tuple) and b and b[0] == 'clause':
                return b[1]                 # conversion of a clause to its literal array
        if m in ('size', 'size_') and e.get('recv') is not None:
            b = self.val(e['recv'])
            if isinstance(b, tuple) and b and b[0] == 'clause':
                return len(b[1])
            if isinstance(b, list):
                return len(b)
            if isinstance(b, tuple) and b and b[0] == 'pterm':
                return len(b) - 1
        if op == '->' and e.get('recv') is not None and (e.get('cls') or '').startswith(('std::unique_ptr<', 'std::shared_ptr<')) and not args:
            return self.val(e['recv'])
        if op == '->' and e.get('recv') is not None and 'iterator<' in (e.get('cls') or '') and not args:
            b = self.val(e['recv'])
            if isinstance(b, tuple) and b and b[0] == 'mapiter':
                if len(b) < 4 or b[2] is None:
                    raise Unmodelled('dereference of an end() iterator at line %s' % e.get('ln'))
                return b
        if e.get('recv') is not None and m in ('find', 'end', 'insert', 'emplace') and (e.get('cls') or '').startswith(('std::map<', 'std::unordered_map<')) \
                and isinstance(self.val(e['recv']), dict):
            d = self.val(e['recv'])
            if m == 'end':
                return ('mapiter', id(d), None)
            if m == 'find':
                key = self.val(args[0])
                return ('mapiter', id(d), key if key in d else None, d)
            vals_ = [self.val(x) for x in args]
            if len(vals_) == 1 and isinstance(vals_[0], list) and len(vals_[0]) == 2:
                vals_ = vals_[0]
            if len(vals_) == 1 and isinstance(vals_[0], tuple) and vals_[0] and vals_[0][0] == 'pair':
                vals_ = list(vals_[0][1:])
            if len(vals_) == 2:
                d.setdefault(vals_[0], vals_[1])       # insert / emplace keep an existing entry
                return None
        if e.get('recv') is not None and m in ('has', 'insert') and isinstance(self.env.get(path_of(e['recv']) or ''), dict):
            d = self.env[path_of(e['recv'])]
            key = self.val(args[0])
            if m == 'has':
                return key in d
            d[key] = self.val(args[1]) if len(args) > 1 else True
            return None
        if e.get('recv') is not None and m in ('last', 'pop') and isinstance(self.env.get(path_of(e['recv']) or ''), list):
            lst = self.env[path_of(e['recv'])]
            if not lst:
                raise Unmodelled('%s on an empty vector at line %s' % (m, e.get('ln')))
            return lst[-1] if m == 'last' else lst.pop()
        if m in ('isOr', 'isAnd', 'isEquality') and args:
            v = self.val(args[0])
            return isinstance(v, tuple) and v[0] == {'isOr': 'or', 'isAnd': 'and', 'isEquality': 'eq'}[m]
        if e.get('recv') is not None and m in ('push', 'push_back', 'clear', 'shrink', 'capacity', 'begin', 'end'):
            b = self.val(e['recv'])
            if isinstance(b, list):
                if m in ('push', 'push_back'):
                    b.append(self.val(args[0]))
                elif m == 'clear':
                    del b[:]
                elif m == 'shrink':
                    kcut = self.val(args[0])
                    if kcut:
                        del b[len(b) - kcut:]
                elif m in ('begin', 'end'):
                    return ('iter', id(b), m, b)
                return None
        if callee(e) == 'std::sort':
            it0 = self.val(args[0])
            if isinstance(it0, tuple) and it0[0] == 'iter':
                lst = it0[3]
                lst.sort(key=lambda a: (self.rank(a[1]), a[2]))
                return None
            raise Unmodelled('std::sort at line %s' % e.get('ln'))
        if callee(e) in ('std::min', 'std::max') and len(args) == 2:
            a0, a1 = self.val(args[0]), self.val(args[1])
            if isinstance(a0, int) and isinstance(a1, int):
                return min(a0, a1) if callee(e) == 'std::min' else max(a0, a1)
        if 'make_unique' in callee(e) and 'map<' in (e.get('t') or ''):
            return {}
        if m == 'move' or callee(e) == 'std::move':
            return self.val(args[0])
        if m in ('getTerm_true', 'getTerm_false'):
            return T if m == 'getTerm_true' else F
        if m in ('isTrue', 'isFalse'):
            v = self.val(args[0])
            return v == (T if m == 'isTrue' else F)
        if m == 'isNot':
            v = self.val(args[0])
            return (v[0] == 'v' and not v[2]) or v[0] == 'not'
        if m == 'getPterm':
            v = self.val(args[0])
            if v[0] == 'v' and not v[2]:
                return ('pterm', ('v', v[1], True))
            if v[0] == 'not':
                return ('pterm', v[1])
            if v[0] in ('and', 'or', 'eq', 'xor', 'ite', 'distinct'):
                return ('pterm',) + tuple(v[1:])
            if v[0] in ('u', 'c', 'v', 'T', 'F'):
                return ('pterm',)
            raise Unmodelled('getPterm of %r at line %s' % (v, e.get('ln')))
        if m == 'hasSortBool':
            return not self.value_mode
        if m == 'isConstant':
            v = self.val(args[0])
            return v in (T, F) or v[0] == 'c'
        if m in ('getSortRef', 'getSort_bool'):
            return 'BoolSort'
        if m == 'termSort':
            lst = self.val(args[0])
            if isinstance(lst, list):
                lst.sort(key=self.rank)
            return None
        if m in ('printf', 'capacity'):
            return None
        if callee(e).startswith('std::ranges::__') and callee(e).endswith('_of_fn::operator()') and len(args) == 2:
            seq = self.val(args[0])
            lam = see_through(args[1])
            if isinstance(seq, list) and isinstance(lam, dict) and lam.get('k') == 'lambda':
                res_ = [self.call_lambda(lam['id'], [x]) for x in seq]
                kind = callee(e).split('__')[1].split('_of_fn')[0]
                return {'all': all, 'any': any, 'none': lambda r_: not any(r_)}[kind](res_)
            raise Unmodelled('%s at line %s' % (callee(e), e.get('ln')))
        if callee(e) in ('std::all_of', 'std::any_of', 'std::none_of'):
            it0 = self.val(args[0])
            lam = see_through(args[2])
            if isinstance(it0, tuple) and it0[0] == 'iter' and isinstance(lam, dict) and lam.get('k') == 'lambda':
                res_ = [self.call_lambda(lam['id'], [x]) for x in it0[3]]
                return {'std::all_of': all, 'std::any_of': any, 'std::none_of': lambda r: not any(r)}[callee(e)](res_)
            raise Unmodelled('%s at line %s' % (callee(e), e.get('ln')))
        if e.get('recv') is not None and (path_of(e['recv']) or '') == 'this.term_store':
            # past all simplifications: the constructor builds the plain application
            if m in self.oracle:
                return self.oracle[m](self, [self.val(x) for x in args], e)
            if m == 'lookupSymbol' and len(args) >= 2:
                lst = self.val(args[1])
                raise Ret((self.default_op,) + tuple(lst))
            raise Unmodelled('term store call %s at line %s' % (m, e.get('ln')))
        if m in self.SYM_GETTERS:
            return ('sym', self.SYM_GETTERS[m])
        if m == 'has':
            return True
        if m == 'mkFun':
            symv = self.val(args[0]) if not (isinstance(see_through(args[0]), dict) and see_through(args[0]).get('k') == 'ref' and see_through(args[0])['n'] not in self.env) else None
            a = self.val(args[1])
            opn = symv[1] if isinstance(symv, tuple) and symv and symv[0] == 'sym' else self.default_op
            if not isinstance(a, list):
                raise Unmodelled('mkFun arguments at line %s' % e.get('ln'))
            if opn == 'not' and len(a) == 1:
                return neg(a[0])            # the one canonical negation of a term
            return (opn,) + tuple(a)
        if self.ctor_eval and m in self.ctor_eval and len(args) >= 1:
            vals = [self.val(x) for x in args]
            if len(vals) == 1 and isinstance(vals[0], list):
                vals = vals[0]
            return self.ctor_eval[m](vals)
        if e.get('op') == '[]' or m == 'operator[]':
            pass
        if m in self.oracle:
            return self.oracle[m](self, [self.val(x) for x in args], e)
        if m == 'empty' and e.get('recv') is not None and isinstance(self.val(e['recv']), list):
            return len(self.val(e['recv'])) == 0
        # map lookups such as sortToIte[sr] / sortToEquality[sref]: the symbol of this constructor
        if m == 'operator[]' or (e.get('recv') is not None and 'sortTo' in (path_of(e['recv']) or '')):
            return ('sym', self.default_op)
        if self.inline and self.depth < 3 and e.get('id') in self.fx.F and self.fx.F[e['id']].get('body') and e.get('recv') is None and not e.get('virt'):
            g = self.fx.F[e['id']]
            if len(g['params']) == len(args):
                sub = Interp(self.fx, g, self.default_op, self.ctor_eval, self.value_mode)
                sub.oracle, sub.inline, sub.depth = self.oracle, True, self.depth + 1
                env = {p_['n']: self.val(a_) for p_, a_ in zip(g['params'], args)}
                for k_, v_ in self.env.items():
                    if k_ not in env and not k_.startswith('this.') and isinstance(v_, tuple):
                        env.setdefault(k_, v_)          # named constants handed to the outer evaluation
                out = sub.run_env(env)
                self.steps += sub.steps
                return out
        raise Unmodelled('call %s at line %s' % (callee(e) or m, e.get('ln')))


SHAPES2 = [T, F, var('x'), var('x', False), var('y'), var('y', False)]
SHAPES3 = SHAPES2 + [var('z'), var('z', False)]

NARY = {
    'mkAnd': (lambda a: all(a), 'and'),
    'mkOr': (lambda a: any(a), 'or'),
}

DEFS = {
    'mkNot': (1, lambda a: not a[0], 'not'),
    'mkXor': (2, lambda a: a[0] != a[1], 'xor'),
    'mkImpl': (2, lambda a: (not a[0]) or a[1], 'or'),
    'mkBinaryEq': (2, lambda a: a[0] == a[1], 'eq'),
    'mkIte': (3, lambda a: a[1] if a[0] else a[2], 'ite'),
}


def check_constructor(fx, func, name, ctor_eval):
    """returns (number of argument patterns, list of (argument shapes, result shape, falsifying assignment))"""
    arity, sem, dop = DEFS[name]
    shapes = SHAPES2 if arity <= 2 else SHAPES3
    bad = []
    n = 0
    for combo in itertools.product(shapes, repeat=arity):
        n += 1
        it = Interp(fx, func, dop, ctor_eval)
        try:
            out = it.run(list(combo))
        except Thrown:
            bad.append((combo, ('undef',), 'throws on well-sorted Boolean arguments'))
            continue
        if out == UNDEF or not isinstance(out, tuple):
            bad.append((combo, UNDEF, 'returns no term for well-sorted Boolean arguments'))
            continue
        for vals in itertools.product([False, True], repeat=3):
            env = dict(zip('xyz', vals))
            want = bool(sem([ev_shape(s, env) for s in combo]))
            if ev_shape(out, env) != want:
                bad.append((combo, out, env))
                break
    return n, bad


def check_nary(fx, func, name, ctor_eval, max_len=3, all_orders=False):
    sem, dop = NARY[name]
    bad = []
    n = 0
    orders = [{'x': 0, 'y': 1, 'z': 2}, {'x': 2, 'y': 1, 'z': 0}, {'x': 1, 'y': 0, 'z': 2}]
    if all_orders:
        orders = [dict(zip('xyz', p_)) for p_ in itertools.permutations(range(3))]
    for ln in range(0, max_len + 1):
        for combo in itertools.product(SHAPES3[:6] if (ln > 2 and not all_orders) else SHAPES3, repeat=ln):
            for order in orders:
                n += 1
                it = Interp(fx, func, dop, ctor_eval)
                it.order = order
                try:
                    out = it.run(list(combo))
                except Thrown:
                    bad.append((combo, UNDEF, 'throws'))
                    break
                if out == UNDEF or not isinstance(out, tuple):
                    bad.append((combo, UNDEF, 'returns no term'))
                    break
                wrong = None
                for vals in itertools.product([False, True], repeat=3):
                    env = dict(zip('xyz', vals))
                    if ev_shape(out, env) != bool(sem([ev_shape(s_, env) for s_ in combo])):
                        wrong = env
                        break
                if wrong:
                    bad.append((combo, out, wrong))
                    break
    return n, bad


VSHAPES = [('c', 0), ('c', 1), ('u', 'u'), ('u', 'v'), ('u', 'w')]


def distinct_oracles(budget_left):
    return {
        'lookupSymbol': lambda i, a, nd: ('sym', 'distinct'),
        'moveTo': lambda i, a, nd: (i.env.__setitem__(path_of(see_through(nd['a'][0])), list(i.val(nd['recv']))), None)[1],
        'hasCplxKey': lambda i, a, nd: False,
        'newTerm': lambda i, a, nd: ('distinct',) + tuple(a[1]),
        'addToCplxMap': lambda i, a, nd: None,
        'isBooleanOperator': lambda i, a, nd: False,
        'mem:distinctClassCount': lambda i, a, nd, b=budget_left: 0 if b else 1000,
        'mem:maxDistinctClasses': lambda i, a, nd: 32,
    }


DISTINCT_CONSTS = {'maxDistinctClasses': 32}


def check_distinct(fx, func, ctor_eval, max_len=4):
    """mkDistinct on arguments of a value sort: constants c0, c1 (different values) and variables u, v, w over a domain that lets every equality pattern occur;
    both while the budget of distinction classes lasts (a `distinct` term is built) and after it is used up (the pairwise expansion is built)"""
    bad = []
    n = 0
    dom = ['const0', 'const1', 'o1', 'o2']
    for ln in range(0, max_len + 1):
        shapes = VSHAPES if ln <= 3 else VSHAPES[:4]
        for combo in itertools.product(shapes, repeat=ln):
            for order in ({'c0': 0, 'c1': 1, 'u': 2, 'v': 3, 'w': 4}, {'u': 0, 'c1': 1, 'w': 2, 'v': 3, 'c0': 4}):
                for budget_left in (True, False):
                    n += 1
                    it = Interp(fx, func, 'distinct', ctor_eval, value_mode=True)
                    it.order = order
                    it.oracle = distinct_oracles(budget_left)
                    try:
                        ps = func['params']
                        out = it.run_env(dict(DISTINCT_CONSTS, **{ps[0]['n']: list(combo)}))
                    except Thrown:
                        bad.append((combo, UNDEF, 'throws'))
                        continue
                    if out == UNDEF or not isinstance(out, tuple):
                        bad.append((combo, UNDEF, 'returns no term'))
                        continue
                    for uvw in itertools.product(dom, repeat=3):
                        env = {'u': uvw[0], 'v': uvw[1], 'w': uvw[2]}
                        vals = [ev_value(s_, env) for s_ in combo]
                        if ev_shape(out, env) != (len(set(vals)) == len(vals)):
                            bad.append((combo, out, dict(env, classes_left=budget_left)))
                            break
                if bad:
                    return n, bad
    return n, bad
