"""AST-shape rule for the front end (C18): which parser nodes may come without children, and where the interpreter relies on children being there.

Grammar side (read from parsers/smt2new/smt2newparser.yy on every run): for every node type the actions that create it either attach a children vector or do
not; a type with at least one action that does not is NULLABLE (its `children` pointer can be null).  The element types of each list non-terminal and the child
types of each node type are collected from push_back / insert / `children = $k`.
Use side: in the interpreter a local `V` bound to a child of `W` inherits, when the type of `W` is known on that path (an `if (t == T)` over W's type or an
assert on it - asserts express what the author believes the type to be), the child types of that type.  A dereference `V.children->...` where some possible
type of V is NULLABLE must sit under a condition that tests `V.children`.
"""
import os
import re

from build import AnalysisBroken
from facts import fwalk, walk, path_of, see_through
from prims import mname


def read_grammar(src_root):
    path = os.path.join(src_root, 'parsers', 'smt2new', 'smt2newparser.yy')
    if not os.path.exists(path):
        raise AnalysisBroken('grammar file not found: %s' % path)
    text = open(path).read()
    body = text.split('%%')[1]
    # split into rules:  name : alt { action } | alt { action } ;
    rules = {}
    pos = 0
    for m in re.finditer(r'^([a-z_]+)\s*:', body, re.M):
        pass
    heads = [(m.group(1), m.end()) for m in re.finditer(r'^([a-z_][a-z_0-9]*)\s*:', body, re.M)]
    for idx, (name, start) in enumerate(heads):
        end = heads[idx + 1][1] - len(heads[idx + 1][0]) - 1 if idx + 1 < len(heads) else len(body)
        chunk = body[start:end]
        alts = []
        depth, cur_syms, cur_act, in_act, i = 0, '', '', False, 0
        while i < len(chunk):
            ch = chunk[i]
            if ch == '{':
                depth += 1
                in_act = True
                if depth > 1:
                    cur_act += ch
            elif ch == '}':
                depth -= 1
                if depth == 0:
                    in_act = False
                else:
                    cur_act += ch
            elif in_act:
                cur_act += ch
            elif ch == "'" and i + 2 < len(chunk) and chunk[i + 2] == "'":
                cur_syms += " '%s' " % chunk[i + 1]
                i += 2
            elif ch == '|' or ch == ';':
                alts.append((cur_syms.split(), cur_act))
                cur_syms, cur_act = '', ''
            else:
                cur_syms += ch
            i += 1
        if cur_syms.strip() or cur_act.strip():
            alts.append((cur_syms.split(), cur_act))
        rules[name] = alts
    types_of, elems_of, child_types, with_children, without_children = {}, {}, {}, set(), set()
    for name, alts in rules.items():
        types_of.setdefault(name, set())
        elems_of.setdefault(name, set())
    pending = []          # (kind, target, nonterminal) resolved in the fixpoint below
    for name, alts in rules.items():
        for syms, act in alts:
            def nt(k):
                k = int(k)
                return syms[k - 1] if 0 < k <= len(syms) else None
            locals_ = {'$$': None}
            for m in re.finditer(r'(\$\$|[A-Za-z_]\w*)\s*=\s*new ASTNode\(\s*([A-Z_0-9]+)', act):
                var, ty = m.group(1), m.group(2)
                locals_[var] = ty
                if var == '$$':
                    types_of[name].add(ty)
                has_children = re.search(re.escape(var) + r'->children\b', act) is not None
                (with_children if has_children else without_children).add(ty)
            for m in re.finditer(r'push_back\(new ASTNode\(\s*([A-Z_0-9]+)', act):
                without_children.add(m.group(1))
                pending.append(('anon', (name, act[:m.start()].rsplit(';', 1)[-1]), m.group(1)))
            for m in re.finditer(r'\$\$\s*=\s*\$(\d+)\s*;', act):
                pending.append(('alias', name, nt(m.group(1))))
            for var, ty in locals_.items():
                if ty is None:
                    continue
                for m in re.finditer(re.escape(var) + r'->children\s*=\s*\$(\d+)', act):
                    pending.append(('child-elems', ty, nt(m.group(1))))
                for m in re.finditer(re.escape(var) + r'->children->push_back\(\s*\$(\d+)\s*\)', act):
                    pending.append(('child-types', ty, nt(m.group(1))))
                for m in re.finditer(re.escape(var) + r'->children->push_back\(\s*([A-Za-z_]\w*)\s*\)', act):
                    if locals_.get(m.group(1)):
                        child_types.setdefault(ty, set()).add(locals_[m.group(1)])
                for m in re.finditer(re.escape(var) + r'->children->push_back\(new ASTNode\(\s*([A-Z_0-9]+)', act):
                    child_types.setdefault(ty, set()).add(m.group(1))
            # list non-terminals
            for m in re.finditer(r'(?:\(\*\$(\d+)\)\.|\$(\d+)->)push_back\(\s*\$(\d+)\s*\)', act):
                lst = nt(m.group(1) or m.group(2))
                pending.append(('elem-types', lst, nt(m.group(3))))
            for m in re.finditer(r'\$(\d+)->insert\([^,]*,\s*\$(\d+)\s*\)', act):
                pending.append(('elem-types', nt(m.group(1)), nt(m.group(2))))
            if re.search(r'\$\$\s*=\s*new std::vector', act):
                m2 = re.search(r'\$\$->push_back\(\s*\$(\d+)\s*\)', act)
                if m2:
                    pending.append(('elem-types', name, nt(m2.group(1))))
    for _ in range(12):
        for kind, tgt, src in pending:
            if src is None:
                continue
            if kind == 'alias':
                types_of[tgt] |= types_of.get(src, set())
                elems_of[tgt] |= elems_of.get(src, set())
            elif kind == 'elem-types' and tgt in elems_of:
                elems_of[tgt] |= types_of.get(src, set())
            elif kind == 'child-elems':
                child_types.setdefault(tgt, set()).update(elems_of.get(src, set()))
            elif kind == 'child-types':
                child_types.setdefault(tgt, set()).update(types_of.get(src, set()))
    nullable = set(without_children)
    return {'nullable': nullable, 'child_types': child_types, 'types_of': types_of, 'n_actions': sum(len(a) for a in rules.values())}


def shape_rule(fx, res, src_root, floor=4):
    g = read_grammar(src_root)
    if g['n_actions'] < 80 or not {'UATTR_T', 'PATTR_T'} <= g['nullable'] or not g['child_types'].get('GATTRL_T'):
        raise AnalysisBroken('astshape: the grammar was not read as expected (%d actions, nullable %s, children of GATTRL_T %s)'
                             % (g['n_actions'], sorted(g['nullable'])[:6], sorted(g['child_types'].get('GATTRL_T', []))))
    r = res.rule('optional-children-guarded', 'a node whose possible types (children of a node of known type, per the grammar) include one that the parser can create without a children vector '
                 'has its `children` dereferenced only under a test of that pointer', floor=floor)
    n_sites = 0
    for f in sorted(fx.F.values(), key=lambda f: f['name']):
        if not f.get('body') or '/api/Interpret' not in f['file']:
            continue
        # locals holding X.getType()
        type_var = {}
        for d in fwalk(f):
            if d.get('k') == 'decl' and d.get('init') is not None:
                i = see_through(d['init'])
                if isinstance(i, dict) and i.get('k') == 'call' and mname(i) == 'getType' and path_of(i.get('recv')):
                    type_var[d['n']] = path_of(i['recv'])

        def shape(e):
            e = see_through(e)
            if isinstance(e, dict):
                return tuple(sorted((k_, shape(v_)) for k_, v_ in e.items() if k_ not in ('ln', 'col', 'as')))
            if isinstance(e, list):
                return tuple(shape(x) for x in e)
            return e

        def type_tests(cond):
            """[(tested expression shape, access path or None, type)] for the positive conjuncts  E.getType() == T  /  t == T  of a condition"""
            out = []
            c = see_through(cond)
            conj = []

            def flat(e):
                e = see_through(e)
                if isinstance(e, dict) and e.get('k') == 'bin' and e.get('op') == '&&':
                    flat(e['l']); flat(e['r'])
                else:
                    conj.append(e)
            flat(c)
            for n in conj:
                if not (isinstance(n, dict) and n.get('op') == '=='):
                    continue
                l_, r_ = (n.get('l'), n.get('r')) if n.get('k') == 'bin' else ((n.get('recv'), (n.get('a') or [None])[0]) if n.get('recv') is not None else tuple(((n.get('a') or []) + [None, None])[:2]))
                for a, b in ((l_, r_), (r_, l_)):
                    a0, b0 = see_through(a) if a is not None else None, see_through(b) if b is not None else None
                    if isinstance(b0, dict) and b0.get('k') == 'ref' and b0.get('d') == 'enum' and (b0.get('n') or '').endswith('_T'):
                        ty = b0['n'].split('::')[-1]
                        if isinstance(a0, dict) and a0.get('k') == 'call' and mname(a0) == 'getType' and a0.get('recv') is not None:
                            out.append((shape(a0['recv']), path_of(a0['recv']), ty))
                        elif isinstance(a0, dict) and a0.get('k') == 'ref' and a0.get('n') in type_var:
                            out.append((None, type_var[a0['n']], ty))
            return out
        # what the author states about a node's own type anywhere in the function (asserts included): a belief about that node
        own = {}
        for n in fwalk(f):
            if isinstance(n, dict) and n.get('op') == '==' and n.get('as'):
                for sh, pth, ty in type_tests(n):
                    if pth:
                        own.setdefault(pth, set()).add(ty)
        parent = {}        # V -> W (V is bound to a child of W)
        decl_types = {}    # V -> set of types known for V at its declaration (from the guards in force there)
        parent_types = {}  # V -> set of types known for W at V's declaration

        def bind(d, guards):
            if not (d.get('k') == 'decl' and d.get('init') is not None and 'ASTNode' in (d.get('t') or '') + (d.get('ct') or '')):
                return
            ws = {path_of(x['b']) for x in [d['init']] + list(walk(d['init'])) if isinstance(x, dict) and x.get('k') == 'mem' and x.get('n') == 'children' and path_of(x.get('b'))}
            for x in [d['init']] + list(walk(d['init'])):
                if isinstance(x, dict) and x.get('k') == 'ref':
                    for d2 in fwalk(f):
                        if d2.get('k') == 'decl' and d2['n'] == x.get('n') and d2.get('init') is not None and 'iterator' in (d2.get('ct') or d2.get('t') or ''):
                            ws |= {path_of(y['b']) for y in [d2['init']] + list(walk(d2['init'])) if isinstance(y, dict) and y.get('k') == 'mem' and y.get('n') == 'children' and path_of(y.get('b'))}
            if len(ws) != 1:
                return
            w = ws.pop()
            parent[d['n']] = w
            tests = [t for gd in guards if gd is not None for t in type_tests(gd)]
            mine = {ty for sh, pth, ty in tests if sh is not None and sh == shape(d['init'])}
            if mine:
                decl_types[d['n']] = mine
            pt = {ty for sh, pth, ty in tests if pth == w} or set(own.get(w, ()))
            if pt:
                parent_types[d['n']] = pt

        def possible(v):
            if v not in parent:
                return None            # parameters and other nodes: their shape is the caller's business
            if v in decl_types:
                return decl_types[v]
            if v in own:
                return own[v]
            if v not in parent_types:
                return None
            out = set()
            for t in parent_types[v]:
                out |= g['child_types'].get(t, set())
            return out or None

        # dereferences of V.children with the guards in force
        def visit(st, guards):
            if isinstance(st, list):
                for x in st:
                    visit(x, guards)
                return
            if not isinstance(st, dict):
                return
            k = st.get('k')
            if k == 'if':
                # a && b: b is evaluated only when a holds
                conj = []

                def flat(e):
                    e0 = see_through(e)
                    if isinstance(e0, dict) and e0.get('k') == 'bin' and e0.get('op') in ('&&', '||'):
                        flat(e0['l']); flat(e0['r'])          # either way the right operand is evaluated only after the left one decided nothing
                    else:
                        conj.append(e0)
                flat(st.get('cond'))
                for i_, cj in enumerate(conj):
                    visit_expr(cj, guards + conj[:i_])
                visit(st.get('then'), guards + [st.get('cond')])
                visit(st.get('else'), guards)
                return
            if k == 'seq':
                extra = []
                for x in st.get('c') or []:
                    visit(x, guards + extra)
                    # if (test of V.children ...) { ...; return / throw / continue / break; }  guards everything after it in this block
                    if isinstance(x, dict) and x.get('k') == 'if' and x.get('else') is None:
                        th = x.get('then')
                        last = th
                        while isinstance(last, dict) and last.get('k') == 'seq' and last.get('c'):
                            last = [y for y in last['c'] if isinstance(y, dict)][-1] if [y for y in last['c'] if isinstance(y, dict)] else None
                        if isinstance(last, dict) and (last.get('k') in ('ret', 'break', 'continue', 'throw') or
                                                       (last.get('k') == 'e' and isinstance(see_through(last.get('e')), dict) and see_through(last['e']).get('k') == 'throw')):
                            extra.append(x.get('cond'))
                return
            if k == 'decl':
                bind(st, guards)
            for key, val in st.items():
                if key in ('cond', 'e', 'init', 'inc', 'range', 'a', 'recv', 'l', 'r', 'b', 'v', 't', 'f', 'c') and isinstance(val, (dict, list)) and k not in ('seq',):
                    if key in ('body', 'then', 'else'):
                        continue
                    if isinstance(val, dict) and val.get('k') in ('seq', 'if', 'loop', 'switch', 'try'):
                        visit(val, guards)
                    else:
                        visit_expr(val, guards)
            for key in ('body', 'h'):
                if key in st:
                    visit(st[key], guards)

        def visit_expr(e, guards):
            nonlocal n_sites
            if isinstance(e, list):
                for x in e:
                    visit_expr(x, guards)
                return
            if not isinstance(e, dict):
                return
            for x in [e] + list(walk(e)):
                if isinstance(x, dict) and x.get('k') == 'call' and x.get('recv') is not None:
                    rc = x['recv']
                    # X.children->method(): recv is `children` member (arrow seen through) of a local V
                    rcs = see_through(rc)
                    if isinstance(rcs, dict) and rcs.get('k') == 'mem' and rcs.get('n') == 'children':
                        v = path_of(rcs.get('b'))
                        ts = possible(v) if v else None
                        if ts is None:
                            continue
                        risky = sorted(ts & g['nullable'])
                        n_sites += 1
                        guarded = any(any(isinstance(y, dict) and y.get('k') == 'mem' and y.get('n') == 'children' and path_of(y.get('b')) == v for y in [see_through(gd)] + list(walk(gd)))
                                      for gd in guards if gd is not None)
                        if risky and not guarded and not x.get('as'):
                            res.bad(r, 'optional-children-dereferenced:%s:%s' % (f['name'].split('::')[-1], v), fx.loc(f, x.get('ln')), '%s dereferences %s.children; %s is a child of %s, '
                                    'which is a %s node there, so it can be a %s node, and the grammar creates such a node without a children vector (the part is optional): a null '
                                    'pointer is followed on such input' % (f['name'].replace('opensmt::', ''), v, v, parent.get(v), '/'.join(sorted(parent_types.get(v) or own.get(v) or decl_types.get(v) or [])), '/'.join(risky)))
                        else:
                            res.ok(r, '%s: %s.children (%s)' % (fx.loc(f, x.get('ln')), v, 'guarded' if risky else 'always has children'))
        visit(f['body'], [])
        for lam in f.get('lambdas') or []:
            visit(lam.get('body'), [])
    if n_sites == 0:
        raise AnalysisBroken('astshape: no dereference of the children of a node with a known parent type found')
    return g
