"""A term that does not parse is an error of the command (C18: every input problem is signalled).

Interpret::parseTerm answers PTRef_Undef for a term it cannot build; some causes have been reported to the user by then (unknown symbol), others have only been
written as a verbosity-dependent comment (a constant outside the logic).  Every caller in the interpreter therefore has to treat the Undef answer as a failure of
its command: the branch taken for Undef must issue an error response or hand the failure on (return PTRef_Undef / false) - never just skip the term.
"""
from build import AnalysisBroken
from facts import fwalk, walk, path_of, see_through, callee
from prims import mname, is_call


def is_error_response(n):
    if n.get('k') != 'call':
        return False
    c = callee(n)
    if c.endswith('Interpret::notify_formatted'):
        a0 = see_through((n.get('a') or [None])[0]) if n.get('a') else None
        return isinstance(a0, dict) and a0.get('k') == 'lit' and a0.get('v') is True
    return c.endswith('Interpret::reportError')


def hands_on(n):
    if n.get('k') != 'ret' or n.get('e') is None:
        return False
    e = see_through(n['e'])
    if not isinstance(e, dict):
        return False
    if e.get('k') == 'lit' and e.get('v') is False:
        return True
    if e.get('k') == 'ref' and (e.get('n') or '').endswith('PTRef_Undef'):
        return True
    return e.get('k') == 'ref' and e.get('d') == 'local'          # `return tr;` with tr known to be Undef on this branch


def parse_failure_rule(fx, res, floor=3):
    r = res.rule('parse-failure-reported', 'every caller of Interpret::parseTerm treats the PTRef_Undef answer as a failure of its command: the branch taken for Undef issues an error response '
                 'or returns PTRef_Undef / false to its own caller; writing a comment and going on is not enough', floor=floor)
    n_sites = 0
    for f in sorted(fx.F.values(), key=lambda f: f['name']):
        if not f.get('body') or not f['name'].startswith('opensmt::Interpret::'):
            continue
        # every declaration  T v = ... parseTerm(...) ...;  with the statements that follow it in its block as its scope
        scopes = []
        seen_decl = set()
        for blk in (b for b in walk(f['body'], f.get('lambdas')) if b.get('k') == 'seq'):
            items = [x for x in blk.get('c') or [] if isinstance(x, dict)]
            for idx, st in enumerate(items):
                if st.get('k') == 'decl' and st.get('init') is not None and any(is_call(x, 'parseTerm') for x in [see_through(st['init'])] + list(walk(st['init'])) if isinstance(x, dict)):
                    if id(st) not in seen_decl:
                        seen_decl.add(id(st))
                        scopes.append((st['n'], items[idx + 1:]))
        for v, rest in scopes:
            tests = []
            seen_if = set()
            for n in (x for st in rest for x in [st] + list(walk(st))):
                if n.get('k') != 'if' or n.get('as') or id(n) in seen_if:
                    continue
                seen_if.add(id(n))
                c = see_through(n['cond'])
                if isinstance(c, dict) and c.get('op') in ('==', '!='):
                    l_, r_ = (c.get('l'), c.get('r')) if c.get('k') == 'bin' else ((c.get('recv'), (c.get('a') or [None])[0]) if c.get('recv') is not None else tuple(((c.get('a') or []) + [None, None])[:2]))
                    ps = {path_of(l_), path_of(r_)}
                    if v in ps and any((p_ or '').endswith('PTRef_Undef') for p_ in ps):
                        tests.append((n, n.get('then') if c['op'] == '==' else n.get('else')))
            if not tests:
                if any(x.get('k') == 'ret' and path_of(x.get('e')) == v for st in rest for x in [st] + list(walk(st))):
                    n_sites += 1
                    res.ok(r, '%s: %s returned to the caller' % (f['name'].replace('opensmt::', ''), v))
                continue
            for n, br in tests:
                n_sites += 1
                if br is None:
                    res.bad(r, 'parse-failure-silent:%s' % f['name'].split('::')[-1], fx.loc(f, n.get('ln')), '%s uses %s only when it is not PTRef_Undef and has no branch for the failure: a term '
                            'that does not parse is skipped silently' % (f['name'].replace('opensmt::', ''), v))
                    continue
                ok = any(is_error_response(x) or hands_on(x) for x in [br] + list(walk(br)) if isinstance(x, dict))
                if ok:
                    res.ok(r, '%s line %s: failure of %s reported or handed on' % (f['name'].replace('opensmt::', ''), n.get('ln'), v))
                else:
                    res.bad(r, 'parse-failure-silent:%s' % f['name'].split('::')[-1], fx.loc(f, n.get('ln')), '%s: on the branch on which %s is PTRef_Undef (the term did not parse) no error response is '
                            'issued and the failure is not handed to the caller: the term is dropped silently (for example (get-value (1.5)) in QF_LIA answers `()` with exit status 0)'
                            % (f['name'].replace('opensmt::', ''), v))
    if n_sites == 0:
        raise AnalysisBroken('parse-failure-reported: no caller of Interpret::parseTerm found')
    return r
