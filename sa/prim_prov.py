"""String-provenance analysis (DESIGN 9.3-C17): which text values can carry a *raw* user-chosen name, and where they are written.

A flow-insensitive, summary-based label propagation over the mini-AST.  A label is a set of tokens:
  ('src', <origin>, <function in which the source is read>)   the value may contain text produced by a raw-name source (table SOURCES / FIELD_SOURCES / RANGE_SOURCES)
  ('par', i)          the value may contain the text of parameter i of the enclosing function (resolved at call sites)
The sanitiser (the quoting function) returns the empty label whatever it is given.  Function summaries:
  ret     label of the returned text
  writes  {stream parameter index -> label written into that caller-supplied stream}
Sinks are decided by the client (C17): the standard output stream object, file streams, the response printer.
Nothing is executed; unknown callees with a text result are treated as passing their arguments through (a source of
misses, never of alarms: labels only grow from table entries).
"""
import collections

from facts import walk, fwalk, callee, see_through
from prims import mname

TEXT_MARKERS = ('basic_string', 'std::string', 'char *', 'string_view', 'char const *')
STREAM_MARKERS = ('ostream', 'stringstream', 'ostringstream', 'ofstream', 'basic_ios', 'fstream')


def is_text_type(t):
    t = t or ''
    return any(m in t for m in TEXT_MARKERS)


def is_stream_type(t):
    t = t or ''
    return any(m in t for m in STREAM_MARKERS)


def carries_text(t):
    """text, a stream, or an aggregate/container that can hold text"""
    t = t or ''
    return is_text_type(t) or is_stream_type(t) or 'pair<' in t or 'vector<' in t or 'FunctionSignature' in t or 'TemplateFunction' in t or 'auto' in t


class Summary:
    def __init__(self):
        self.ret = frozenset()
        self.writes = {}      # param index -> frozenset

    def key(self):
        return (self.ret, tuple(sorted((k, tuple(sorted(v))) for k, v in self.writes.items())))


class Prov:
    def __init__(self, fx, sources, sanitizers, field_sources=(), range_sources=(), sink_pred=None, extra_sink_calls=None):
        """sources: {qualified callee name: origin text}; sanitizers: set of qualified names;
        field_sources: {(record, field): origin}; range_sources: {substring of the canonical range type: origin};
        sink_pred(root_expr, local_types) -> sink name or None, for the root object of a `<<` chain;
        extra_sink_calls(call) -> (sink name, [argument expressions that are printed]) or None"""
        self.fx = fx
        self.sources, self.sanitizers = sources, sanitizers
        self.field_sources, self.range_sources = dict(field_sources), dict(range_sources)
        self.sink_pred, self.extra_sink_calls = sink_pred, extra_sink_calls
        self.sum = collections.defaultdict(Summary)
        self.hits = []            # (function, line, sink, label) for labelled text reaching a sink
        self.sink_operands = 0    # all operands examined at sinks
        self.sanitized_at_sinks = 0
        self.source_sites = collections.Counter()
        self.san_sites = 0
        self.funcs = [f for f in fx.F.values() if f.get('body')]

    # ------------------------------------------------------------------ driver
    def solve(self, max_rounds=12):
        for rnd in range(max_rounds):
            changed = False
            for f in self.funcs:
                before = self.sum[f['id']].key() if f['id'] in self.sum else None
                self.analyse(f, record=False)
                if self.sum[f['id']].key() != before:
                    changed = True
            if not changed:
                break
        else:
            from build import AnalysisBroken
            raise AnalysisBroken('provenance summaries did not stabilise in %d rounds' % max_rounds)
        self.rounds = rnd + 1
        self.hits = []
        self.sink_operands = self.sanitized_at_sinks = self.san_sites = 0
        self.source_sites.clear()
        for f in self.funcs:
            self.analyse(f, record=True)

    # ------------------------------------------------------------------ one function
    def analyse(self, f, record):
        env = collections.defaultdict(frozenset)     # local name -> label
        types = {}
        pidx = {p['n']: i for i, p in enumerate(f['params']) if p.get('n')}
        for p in f['params']:
            if p.get('n'):
                types[p['n']] = p['t']
        lams = f.get('lambdas', [])
        nodes = list(fwalk(f))
        own_rets = {id(n) for n in walk(f['body'], lams, into_lambdas=False) if n.get('k') == 'ret'}
        for n in nodes:
            if n.get('k') == 'decl':
                types[n['n']] = n.get('ct') or n.get('t') or ''
            elif n.get('k') == 'loop' and n.get('kind') == 'range' and n.get('var'):
                types[n['var']] = n.get('vt') or ''
        unnamed_loop = frozenset()
        sm = self.sum[f['id']]
        ctx = {'own_rets': own_rets, 'f': f, 'env': env, 'types': types, 'pidx': pidx, 'record': False, 'sm': sm, 'binding': unnamed_loop, 'lams': lams}
        for it in range(6):
            snapshot = (dict(env), sm.key(), ctx['binding'])
            ctx['record'] = False
            self._pass(nodes, ctx)
            if (dict(env), sm.key(), ctx['binding']) == snapshot:
                break
        if record:
            ctx['record'] = True
            self._pass(nodes, ctx)

    def _pass(self, nodes, ctx):
        env, f, sm = ctx['env'], ctx['f'], ctx['sm']
        seen_stream_chain = set()
        for n in nodes:
            if n.get('as'):
                continue
            k = n.get('k')
            if k == 'decl' and n.get('init') is not None:
                if carries_text(n.get('ct') or n.get('t')):
                    env[n['n']] = env[n['n']] | self.lab(n['init'], ctx)
            elif k == 'loop' and n.get('kind') == 'range':
                l = self.lab(n['range'], ctx)
                for sub, org in self.range_sources.items():
                    if sub in (n.get('rt') or ''):
                        l = l | {('src', org, ctx['f']['name'])}
                        if ctx['record']:
                            self.source_sites[org] += 1
                if n.get('var'):
                    if carries_text(n.get('vt')):
                        env[n['var']] = env[n['var']] | l
                else:
                    ctx['binding'] = ctx['binding'] | l
            elif k == 'bin' and n.get('op') in ('=', '+='):
                tgt = self.root_local(n['l'])
                if tgt and carries_text(ctx['types'].get(tgt, n.get('t') or 'auto')):
                    env[tgt] = env[tgt] | self.lab(n['r'], ctx)
            elif k == 'ret' and n.get('e') is not None and id(n) in ctx['own_rets']:
                if carries_text(f.get('ret')):
                    sm.ret = sm.ret | self.lab(n['e'], ctx)
            elif k == 'call':
                self.call_effect(n, ctx, seen_stream_chain)
        # lambdas returning text: fold their returns into the enclosing function's view through ctx (handled in lab via 'lambda')

    # ------------------------------------------------------------------ effects of a call
    def chain_root(self, e):
        """root object of a (possibly nested) `a << b << c` chain and the list of inserted operands"""
        ops = []
        while True:
            e0 = see_through(e)
            if isinstance(e0, dict) and e0.get('k') == 'call' and e0.get('op') == '<<':
                if e0.get('recv') is not None:
                    ops.append(e0['a'][0] if e0.get('a') else None)
                    e = e0['recv']
                elif len(e0.get('a') or []) == 2:
                    ops.append(e0['a'][1])
                    e = e0['a'][0]
                else:
                    return e0, ops
            else:
                return e0, ops

    def root_local(self, e):
        e = see_through(e)
        while isinstance(e, dict):
            k = e.get('k')
            if k == 'ref':
                return e['n'] if e.get('d') in ('local', 'param') else None
            if k in ('mem', 'idx'):
                e = see_through(e['b']); continue
            if k == 'call' and e.get('op') == '[]' and e.get('recv') is not None:
                e = see_through(e['recv']); continue
            return None
        return None

    def write_to(self, target, label, n, ctx, sinkname=None):
        """text with `label` is written into stream/text object `target` (an expression)"""
        t = see_through(target)
        if not isinstance(t, dict):
            return
        sink = self.sink_pred(t, ctx['types']) if self.sink_pred else None
        if sink:
            if ctx['record']:
                self.sink_operands += 1
                if label:
                    self.hits.append((ctx['f'], n.get('ln'), sink, label))
            return
        if t.get('k') == 'ref' and t.get('d') == 'param' and t['n'] in ctx['pidx']:
            i = ctx['pidx'][t['n']]
            if is_stream_type(ctx['types'].get(t['n'])) or is_text_type(ctx['types'].get(t['n'])):
                ctx['sm'].writes[i] = ctx['sm'].writes.get(i, frozenset()) | label
            return
        r = self.root_local(t)
        if r:
            ctx['env'][r] = ctx['env'][r] | label

    def call_effect(self, n, ctx, seen):
        if n.get('op') == '<<':
            if id(n) in seen:
                return
            root, ops = self.chain_root(n)
            # mark inner chain nodes so that each chain is processed once (outermost first in pre-order)
            e = n
            while True:
                e0 = see_through(e)
                if isinstance(e0, dict) and e0.get('k') == 'call' and e0.get('op') == '<<':
                    seen.add(id(e0))
                    e = e0['recv'] if e0.get('recv') is not None else (e0['a'][0] if e0.get('a') else None)
                else:
                    break
            if not (isinstance(root, dict) and (is_stream_type(root.get('t')) or is_stream_type(ctx['types'].get(root.get('n', ''), '')))):
                return
            for op in ops:
                if op is None:
                    continue
                l = self.lab(op, ctx)
                if ctx['record'] and self.is_sanitized(op):
                    t = see_through(root)
                    if self.sink_pred and self.sink_pred(t, ctx['types']):
                        self.sanitized_at_sinks += 1
                self.write_to(root, l, n, ctx)
            return
        if self.extra_sink_calls:
            sk = self.extra_sink_calls(n)
            if sk:
                name, args = sk
                for a in args:
                    l = self.lab(a, ctx)
                    if ctx['record']:
                        self.sink_operands += 1
                        if l:
                            self.hits.append((ctx['f'], n.get('ln'), name, l))
                return
        m = mname(n)
        if m in ('push_back', 'emplace_back', 'append', 'insert', 'push', 'operator+=', 'assign', 'emplace', 'operator=') and n.get('recv') is not None:
            l = frozenset()
            for a in n.get('a') or []:
                l = l | self.lab(a, ctx)
            if l:
                self.write_to(n['recv'], l, n, ctx)
        if n.get('op') in ('+=', '=') and n.get('recv') is None and len(n.get('a') or []) == 2:
            l = self.lab(n['a'][1], ctx)
            if l:
                self.write_to(n['a'][0], l, n, ctx)
        # user functions that write into a caller-supplied stream / text object
        for tid in self.fx.targets(n):
            s = self.sum.get(tid)
            if not s or not s.writes:
                continue
            for i, wl in s.writes.items():
                if i < len(n.get('a') or []):
                    self.write_to(n['a'][i], self.subst(wl, n, ctx), n, ctx)

    def subst(self, label, call, ctx):
        out = set()
        for tok in label:
            if tok[0] == 'par':
                i = tok[1]
                if i < len(call.get('a') or []):
                    out |= self.lab(call['a'][i], ctx)
            else:
                out.add(tok)
        return frozenset(out)

    def is_sanitized(self, e):
        for x in walk(e):
            if x.get('k') == 'call' and callee(x) in self.sanitizers:
                return True
        return False

    # ------------------------------------------------------------------ labels of expressions
    def lab(self, e, ctx):
        e = see_through(e)
        if not isinstance(e, dict):
            return frozenset()
        k = e.get('k')
        if k in ('lit', 'str', 'chr', 'flit', 'null', 'this', 'sizeof', 'lambda'):
            return frozenset()
        if k == 'ref':
            n = e['n']
            if e.get('d') == 'param' and n in ctx['pidx']:
                return ctx['env'].get(n, frozenset()) | {('par', ctx['pidx'][n])}
            if e.get('d') == 'local':
                if n in ctx['types']:
                    return ctx['env'].get(n, frozenset())
                return ctx['binding'] if is_text_type(e.get('t')) else frozenset()
            return frozenset()
        if k == 'mem':
            b = see_through(e['b'])
            bt = (b.get('t') if isinstance(b, dict) else '') or ''
            for (rec, fld), org in self.field_sources.items():
                if e['n'] == fld and rec.split('::')[-1] in (bt + ' ' + (e.get('cls') or '')):
                    if ctx['record']:
                        self.source_sites[org] += 1
                    return frozenset({('src', org, ctx['f']['name'])})
            return self.lab(e['b'], ctx) if not (isinstance(b, dict) and b.get('k') == 'this') else frozenset()
        if k in ('cast', 'un'):
            return self.lab(e['e'], ctx)
        if k == 'idx':
            return self.lab(e['b'], ctx)
        if k == 'cond':
            return self.lab(e.get('t'), ctx) | self.lab(e.get('f'), ctx)
        if k == 'bin':
            if e.get('op') in ('+', ',', '=', '+='):
                return self.lab(e['l'], ctx) | self.lab(e['r'], ctx)
            return frozenset()
        if k in ('new', 'init', 'heapnew'):
            if not carries_text(e.get('t') or 'auto'):
                return frozenset()
            l = frozenset()
            for a in (e.get('a') or e.get('e') or []):
                l = l | self.lab(a, ctx)
            return l
        if k == 'call':
            return self.lab_call(e, ctx)
        return frozenset()

    def lab_call(self, e, ctx):
        c = callee(e)
        if c in self.sanitizers:
            if ctx['record']:
                self.san_sites += 1
            return frozenset()
        if c in self.sources:
            if ctx['record']:
                self.source_sites[self.sources[c]] += 1
            return frozenset({('src', self.sources[c], ctx['f']['name'])})
        t = e.get('t') or ''
        if not carries_text(t):
            return frozenset()
        # name carried inside a function signature / template object: the object's label is the label of what it was built from
        if mname(e) == 'getName' and e.get('recv') is not None and any(k_ in (e.get('cls') or '') for k_ in ('TemplateFunction', 'FunctionSignature')):
            return self.lab(e['recv'], ctx)
        tids = [tid for tid in self.fx.targets(e) if tid in self.fx.F and self.fx.F[tid].get('body')]
        if tids:
            l = frozenset()
            for tid in tids:
                l = l | self.subst(self.sum[tid].ret, e, ctx) if tid in self.sum else l
            return l
        # library / unresolved: text in, text out
        l = frozenset()
        if e.get('recv') is not None:
            l = l | self.lab(e['recv'], ctx)
        for a in e.get('a') or []:
            l = l | self.lab(a, ctx)
        return l
