"""UB-obligation engine (DESIGN 2.5): read the sanitizer handler call sites LLVM could not delete.

clang inserts one __ubsan_handle_* call per arithmetic operation / conversion that could misbehave; at -O2 LLVM's own value-range
reasoning removes the ones it proves unreachable.  Nothing is executed: the IR text is only read.  An obligation is identified by
(source file, line, column, handler kind); its key for the justification table is (enclosing function, kind, source text of the line)."""
import os
import re
import subprocess

import build
from build import AnalysisBroken

SAN = ('signed-integer-overflow,implicit-signed-integer-truncation,implicit-unsigned-integer-truncation,implicit-integer-sign-change,'
       'float-cast-overflow')
DATA_RE = re.compile(r'^(@[\w.]+) = private unnamed_addr (?:global|constant) \{ \{ \[\d+ x i8\]\*, i32, i32 \}.*?\{ \[\d+ x i8\]\* (@[\w.]+), i32 (\d+), i32 (\d+) \}(.*)$')
SRC_RE = re.compile(r'^(@[\w.]+) = private unnamed_addr constant \[\d+ x i8\] c"([^"]*)\\00"')
CALL_RE = re.compile(r'call void @__ubsan_handle_(\w+)\(i8\* (?:bitcast \(.*?\* (@[\w.]+) to i8\*\)|(@[\w.]+))')
# implicit_conversion check kinds (last i8 of the data record)
CONV_KIND = {'0': 'integer-truncation', '1': 'unsigned-truncation', '2': 'signed-truncation', '3': 'sign-change', '4': 'signed-truncation-or-sign-change'}


def compile_ir(src_root, gen, unit, out, opt):
    cmd = ['clang++', '-std=gnu++20', '-I' + src_root, '-I' + gen, '-I' + os.path.join(src_root, 'parsers', 'smt2new'), '-DNDEBUG', '-DOPENSMT_GIT_DESCRIPTION="x"',
           '-' + opt, '-g0', '-S', '-emit-llvm', '-fsanitize=' + SAN, '-Wno-everything', '-resource-dir', build.RESOURCE_DIR, unit, '-o', out]
    r = subprocess.run(cmd, capture_output=True, text=True)
    if r.returncode != 0:
        raise AnalysisBroken('clang failed on %s (%s): %s' % (unit, opt, r.stderr[-600:]))


def obligations(ll_path):
    """set of (file, line, col, kind)"""
    srcs, data = {}, {}
    calls = []
    for line in open(ll_path, errors='replace'):
        if line.startswith('@'):
            m = SRC_RE.match(line)
            if m:
                srcs[m.group(1)] = m.group(2)
                continue
            m = DATA_RE.match(line)
            if m:
                tail = m.group(5)
                mk = re.search(r', i8 (\d+) \}\s*$', tail)
                data[m.group(1)] = (m.group(2), int(m.group(3)), int(m.group(4)), mk.group(1) if mk else None)
                continue
        if '__ubsan_handle_' in line and 'call void' in line:
            m = CALL_RE.search(line)
            if m:
                calls.append((m.group(1), m.group(2) or m.group(3)))
    out = set()
    for kind, d in calls:
        if d not in data:
            raise AnalysisBroken('ubsan data record %s not parsed in %s' % (d, ll_path))
        sv, ln, col, ck = data[d]
        k = kind.replace('_abort', '')
        if k == 'implicit_conversion' and ck is not None:
            k = 'implicit_conversion:' + CONV_KIND.get(ck, ck)
        out.add((srcs.get(sv, sv), ln, col, k))
    return out


def line_text(path, ln, cache={}):
    if path not in cache:
        try:
            cache[path] = open(path, errors='replace').read().split('\n')
        except OSError:
            cache[path] = []
    t = cache[path][ln - 1] if 0 < ln <= len(cache[path]) else ''
    return ' '.join(t.split())
