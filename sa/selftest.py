"""Checker self-test (DESIGN 2.6): every rule must fire on a scratch copy with one instance broken.

Mutants: /verif/mutants/<pid>/*.patch  (unified diffs against /repo; header lines `# expect: <key substring>`)
and verified seeded changes /verif/seeded/*/patch.diff whose meta.json names this property in "detected_by".
The copy lives outside /repo and /verif and is removed as soon as the rule has run on it."""
import glob
import json
import os
import re
import shutil
import subprocess
import tempfile

VERIF = os.path.dirname(os.path.dirname(os.path.abspath(__file__)))


def collect(pid):
    out = []
    for p in sorted(glob.glob(os.path.join(VERIF, 'mutants', pid, '*.patch'))):
        exp = None
        for l in open(p):
            m = re.match(r'#\s*expect:\s*(.+)', l)
            if m:
                exp = m.group(1).strip()
                break
        out.append({'name': 'mutants/%s/%s' % (pid, os.path.basename(p)), 'patch': p, 'expect': exp})
    for mp in sorted(glob.glob(os.path.join(VERIF, 'seeded', '*', 'meta.json'))):
        meta = json.load(open(mp))
        for det in meta.get('detected_by') or []:
            if det.get('check') == pid:
                out.append({'name': 'seeded/%s' % os.path.basename(os.path.dirname(mp)), 'patch': os.path.join(os.path.dirname(mp), 'patch.diff'), 'expect': det.get('key')})
    return out


def changed_files(patch):
    files = []
    for l in open(patch):
        m = re.match(r'\+\+\+ b/(\S+)', l)
        if m and m.group(1).startswith('src/'):
            files.append(m.group(1)[4:])
    return files


def run_mutants(pid, mod, src_root, tier, seed):
    """returns list of dict(name, status, detail); status in detected / MISSED / skipped"""
    results = []
    for mu in collect(pid):
        tmp = tempfile.mkdtemp(prefix='osmt-selftest-')
        try:
            shutil.copytree(src_root, os.path.join(tmp, 'src'))
            r = subprocess.run(['patch', '-p1', '--no-backup-if-mismatch', '-s', '-f', '-i', mu['patch']], cwd=tmp, capture_output=True, text=True)
            if r.returncode != 0:
                results.append({'name': mu['name'], 'status': 'skipped', 'detail': 'patch does not apply to the current tree: ' + (r.stdout + r.stderr)[-200:]})
                continue
            json.dump({'base': os.path.abspath(src_root), 'changed': changed_files(mu['patch'])}, open(os.path.join(tmp, '.overlay.json'), 'w'))
            try:
                res = mod.run(os.path.join(tmp, 'src'), 'quick', seed)
                keys = [f.key for f in res.findings]
                broken = None
                try:
                    res.check_floors()
                except Exception as e:   # a mutant may legitimately drop a rule below its floor: that is also a detection (exit 2)
                    broken = str(e)
            except Exception as e:
                keys, broken = [], '%s: %s' % (type(e).__name__, e)
            exp = mu['expect']
            if exp and exp.startswith('BROKEN'):
                ok = broken is not None
            else:
                ok = any((exp or '') in k for k in keys) if exp else bool(keys)
            results.append({'name': mu['name'], 'status': 'detected' if ok else 'MISSED', 'expect': exp,
                            'reported': keys[:6] if keys else ([broken[:200]] if broken else [])})
        finally:
            shutil.rmtree(tmp, ignore_errors=True)
            import build
            root = os.path.abspath(os.path.join(tmp, 'src'))
            shutil.rmtree(os.path.join(build.CACHE, 'facts-' + build.sha(root.encode())), ignore_errors=True)
            for g in glob.glob(os.path.join(build.CACHE, 'gen-*')):
                if os.path.exists(os.path.join(g, '.root')) and open(os.path.join(g, '.root')).read() == root:
                    shutil.rmtree(g, ignore_errors=True)
    return results
